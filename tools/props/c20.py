"""C20 - eigenvector tools: evec_sort recovers the permutation, evec_disp2eig restores a basis,
evec_load returns the printed fields.

Static theorems (coq/props/Prop_C20.v) are about the Gallina models in EvecSortModel.v,
Disp2EigModel.v, MatdynModel.v.  The tie runs the three functions of /repo on generated inputs and
compares their results with the models' results inside Coq (case shards under coq/run/C20).
"""
import importlib
import math
import os
import re
import shutil
from fractions import Fraction

import numpy

from vlib import REPO, PROPS, write, fhex, zlit, coq_string

TIE_EPS = 1e-9          # argmax near-tie margin: such cases are discarded and counted


# ------------------------------------------------------------------------------------------
# literals
# ------------------------------------------------------------------------------------------

def cpx_rows(a):
    """matrix (list of rows of complex/real) -> Coq list (list (float*float)) in float_scope"""
    rows = []
    for row in a:
        rows.append("[" + "; ".join("(%s, %s)" % (fhex(complex(x).real), fhex(complex(x).imag)) for x in row) + "]")
    return "[" + ";\n  ".join(rows) + "]"


def real_rows(a):
    return "[" + ";\n  ".join("[" + "; ".join(fhex(x) for x in row) + "]" for row in a) + "]"


def zl(xs):
    return "[" + "; ".join(zlit(x) for x in xs) + "]%Z"


def opt_items(res):
    if res is None:
        return "None"
    return "(Some [" + "; ".join("None" if x is None else "Some %s" % zlit(x) for x in res) + "]%Z)"


def F(x):
    return "(%s)%%float" % fhex(x)


def natl(ds):
    return "[" + ";".join(str(int(d)) for d in ds) + "]"


def numlit(x):
    neg, ip, fr = x
    return "(%s, %s, %s)" % ("true" if neg else "false", natl(ip), natl(fr))


# ------------------------------------------------------------------------------------------
# evec_sort
# ------------------------------------------------------------------------------------------

def unitary(nrng, n, cplx):
    a = nrng.standard_normal((n, n))
    if cplx:
        a = a + 1j * nrng.standard_normal((n, n))
    q, _ = numpy.linalg.qr(a)
    return q


def own_overlap(base, target):
    """|<base_i, target_j>| straight from the property statement (conjugate on the base vector),
    computed from real and imaginary parts without numpy.conj / complex matmul"""
    b = numpy.array(base, dtype=complex)
    t = numpy.array(target, dtype=complex)
    br, bi, tr, ti = b.real, b.imag, t.real, t.imag
    re_ = br @ tr.T + bi @ ti.T
    im_ = br @ ti.T - bi @ tr.T
    return numpy.hypot(re_, im_)


def greedy_margin(a):
    """own simulation of the elimination, used only to discard near-tie cases.  Returns (gap, low):
    gap = smallest distance, over the rounds, between the live maximum and a *conflicting* entry (same row or
    same column) - two near-equal maxima in different rows and columns may be taken in either order without
    changing the assignment; low = smallest live maximum (a maximum near 0 ties with the zeroed entries)."""
    a = numpy.array(a, dtype=float)
    n = a.shape[0]
    gap, low = math.inf, math.inf
    for _ in range(n):
        k = int(numpy.argmax(a))
        i, j = divmod(k, n)
        top = a[i, j]
        low = min(low, top)
        near = numpy.argwhere(a >= top - 2 * TIE_EPS)
        for (p, q) in near:
            for (r, s) in near:
                if (p, q) != (r, s) and (p == r or q == s):
                    gap = min(gap, abs(a[p, q] - a[r, s]))
        row = numpy.delete(a[i, :], j)
        col = numpy.delete(a[:, j], i)
        if row.size:
            gap = min(gap, top - row.max(), top - col.max())
        a[i, :] = 0
        a[:, j] = 0
    return gap, low


def observe_sort(fn, items, target, base):
    try:
        r = fn(list(items), target, base)
    except Exception as e:           # RuntimeError expected; anything else is still a rejection
        return None, type(e).__name__
    return list(r), None


SORT_HEADER = r"""
From Coq Require Import ZArith List Bool PrimFloat.
From Cij Require Import Ops FOps EvecSortModel.
Import ListNotations.
Local Open Scope float_scope.
Definition oeqb {A} (e : A -> A -> bool) (a b : option A) : bool :=
  match a, b with Some x, Some y => e x y | None, None => true | _, _ => false end.
Fixpoint leqb {A} (e : A -> A -> bool) (a b : list A) : bool :=
  match a, b with [], [] => true | x :: a', y :: b' => e x y && leqb e a' b' | _, _ => false end.
Definition cm := list (list (float * float)).
Definition case_t := (list Z * cm * cm * option (list (option Z)))%type.
Definition ok (c : case_t) : bool :=
  let '(items, t, b, obs) := c in
  oeqb (leqb (oeqb Z.eqb)) (@evec_sort float FOps Z items t b) obs.
"""


def gen_sort_cases(ctx, nrng, fn):
    quick = ctx.tier != "thorough"
    dims = [2, 3, 4, 5, 6, 8, 10, 12, 16, 24, 36, 48, 60]
    if not quick:
        dims = dims + [7, 9, 11, 13, 14, 20, 28, 32, 40, 52, 56, 59] + [ctx.rng.randint(2, 60) for _ in range(20)]
    cases = []      # dict(kind, n, cplx, items, target, base, sigma, expect, obs, err, aslist)
    for n in dims:
        for cplx in (False, True):
            reps = [("planted", 0.0), ("planted", 0.01), ("planted", 0.05), ("general", None)]
            if n <= 12:
                reps += [("planted", 0.05), ("general", None), ("partial", 0.3)]
            for kind, eps in reps:
                base = unitary(nrng, n, cplx)
                sigma = list(range(n))
                ctx.rng.shuffle(sigma)
                items = ctx.rng.sample(range(-500, 1000), n)
                # two thirds of the item lists contain the item 0 (0-based mode ids; a falsy element among others)
                style = ctx.rng.randrange(3)
                if style == 0:
                    items = list(range(n))
                    ctx.rng.shuffle(items)
                elif style == 1 and 0 not in items:
                    items[ctx.rng.randrange(n)] = 0
                if kind in ("planted", "partial"):
                    target = numpy.zeros((n, n), dtype=complex if cplx else float)
                    for i in range(n):
                        if cplx:
                            ph = numpy.exp(1j * ctx.rng.uniform(0, 2 * math.pi))
                        else:
                            ph = ctx.rng.choice([1.0, -1.0])
                        d = nrng.standard_normal(n) + (1j * nrng.standard_normal(n) if cplx else 0)
                        d = d / numpy.linalg.norm(d) * (eps * ctx.rng.uniform(0.2, 1.0))
                        target[sigma[i]] = ph * base[i] + d
                    if kind == "partial":
                        # strong perturbation, no dominance guaranteed: model and code must still agree
                        pass
                else:
                    target = nrng.standard_normal((n, n)) + (1j * nrng.standard_normal((n, n)) if cplx else 0)
                    target = target / numpy.linalg.norm(target, axis=1)[:, None]
                aslist = ctx.rng.random() < 0.7
                tl, bl = (target.tolist(), base.tolist()) if aslist else (target, base)
                obs, err = observe_sort(fn, items, tl, bl)
                cases.append(dict(kind=kind, n=n, cplx=cplx, eps=eps, items=items, target=target, base=base,
                                  sigma=sigma, obs=obs, err=err, aslist=aslist, mismatch=None))
    # dimension mismatches
    for n in ([2, 3, 5, 8] if quick else [2, 3, 4, 5, 8, 13, 21]):
        for cplx in (False, True):
            base = unitary(nrng, n, cplx).tolist()
            target = unitary(nrng, n, cplx).tolist()
            items = ctx.rng.sample(range(0, 1000), n + 1)
            variants = [
                ("items-short", items[:n - 1], target, base),
                ("items-long", items[:n + 1], target, base),
                ("target-fewer", items[:n], target[:-1], base),
                ("base-fewer", items[:n], target, base[:-1]),
                ("row-short", items[:n], target, base[:-1] + [base[-1][:-1]]),
                ("target-row-long", items[:n], [target[0] + [0.5]] + target[1:], base),
                ("all-smaller", items[:n], [r[:-1] for r in target[:-1]], [r[:-1] for r in base[:-1]]),
                # both bases hold n vectors of one common length k != n (e.g. a file read with a truncated atom count)
                ("both-rows-short", items[:n], [r[:-1] for r in target], [r[:-1] for r in base]),
                ("both-rows-long", items[:n], [r + [0.25] for r in target], [r + [0.25] for r in base]),
            ]
            for name, it, t, b in variants:
                obs, err = observe_sort(fn, it, t, b)
                cases.append(dict(kind="mismatch", n=n, cplx=cplx, eps=None, items=it, target=t, base=b,
                                  sigma=None, obs=obs, err=err, aslist=True, mismatch=name))
    return cases


def sort_oracle(ctx, c):
    """property statement, evaluated directly: planted permutation recovered; result is a permutation
    of the input; mismatches rejected"""
    key = "sort-%s-n%d-%s" % (c["mismatch"] or c["kind"], c["n"], "complex" if c["cplx"] else "real")
    inp = dict(items=c["items"], target=numpy.array(c["target"], dtype=object).tolist() if c["kind"] == "mismatch"
               else numpy.array(c["target"]).tolist(),
               base=numpy.array(c["base"], dtype=object).tolist() if c["kind"] == "mismatch"
               else numpy.array(c["base"]).tolist(), passed_as="lists" if c["aslist"] else "numpy arrays")
    if c["kind"] == "mismatch":
        if c["obs"] is not None:
            ctx.failure(key, "evec_sort accepted a dimension mismatch (%s)" % c["mismatch"], input=inp,
                        expected="exception", observed=c["obs"])
            return False
        return True
    if c["obs"] is None:
        ctx.failure(key, "evec_sort raised %s on a well-formed %dx%d input" % (c["err"], c["n"], c["n"]),
                    input=inp, expected="a list", observed=c["err"])
        return False
    good = True
    if c["kind"] == "planted":
        want = [c["items"][c["sigma"][i]] for i in range(c["n"])]
        if c["obs"] != want:
            ctx.failure(key, "evec_sort does not place every item at the position of its matching base vector "
                             "(target[sigma[i]] = phase_i*base[i] + delta, |delta| <= %g)" % c["eps"],
                        input=dict(inp, sigma=c["sigma"]), expected=want, observed=c["obs"])
            good = False
    if c["kind"] in ("planted", "general", "partial") and c.get("low", 1.0) > TIE_EPS:
        if sorted(c["items"]) != sorted(x if x is not None else 10 ** 9 for x in c["obs"]):
            ctx.failure(key + "-perm", "evec_sort result is not a permutation of its input", input=inp,
                        expected="a permutation of %s" % (c["items"],), observed=c["obs"])
            good = False
    return good


# ------------------------------------------------------------------------------------------
# evec_disp2eig
# ------------------------------------------------------------------------------------------

DISP_HEADER = r"""
From Coq Require Import ZArith List Bool PrimFloat.
From Cij Require Import Ops FOps Disp2EigModel.
Import ListNotations.
Local Open Scope float_scope.
Definition ok_r (c : list (list float) * list float * option (list (list float))) : bool :=
  let '(a, mass, obs) := c in
  match @disp2eig float FOps a mass, obs with
  | Some r, Some o => all_close2 close9 r o
  | None, None => true
  | _, _ => false
  end.
Definition cm := list (list (float * float)).
Definition ok_c (c : cm * list float * option cm) : bool :=
  let '(a, mass, obs) := c in
  match @disp2eig_c float FOps a mass, obs with
  | Some r, Some o => all_close2 close9 (map (map fst) r) (map (map fst) o)
                      && all_close2 close9 (map (map snd) r) (map (map snd) o)
  | None, None => true
  | _, _ => false
  end.
"""


def observe_disp(fn, a, mass):
    try:
        r = fn(a, mass)
    except Exception as e:
        return None, type(e).__name__
    return numpy.array(r), None


def gen_disp_cases(ctx, nrng, fn):
    quick = ctx.tier != "thorough"
    natoms = [1, 2, 3, 4, 5, 7, 10, 14, 20] if quick else list(range(1, 21))
    cases = []
    for N in natoms:
        for cplx in (False, True):
            for rep in range(2 if quick else 3):
                dim = 3 * N
                u = unitary(nrng, dim, cplx)
                nrows = dim if rep == 0 else ctx.rng.randint(1, dim)
                u = u[:nrows]
                # masses "of any unit": amu, kg (1e-27), Rydberg a.u. (1e3..1e5); norms of any size
                munit = ctx.rng.choice([1.0, 1.0, 1.66053906660e-27, 911.44, 10 ** ctx.rng.uniform(-30, 6)])
                mass = [ctx.rng.uniform(0.5, 250.0) * munit for _ in range(N)]
                smag = ctx.rng.choice([(-3, 3), (-3, 3), (-12, -6), (3, 9), (-14, 8)])
                s = numpy.array([ctx.rng.choice([-1, 1]) * 10 ** ctx.rng.uniform(*smag) for _ in range(nrows)])
                if cplx:
                    s = s * numpy.exp(1j * numpy.array([ctx.rng.uniform(0, 2 * math.pi) for _ in range(nrows)]))
                m3 = numpy.repeat(mass, 3)
                a = s[:, None] * u / numpy.sqrt(m3)[None, :]
                mass_arg = mass if ctx.rng.random() < 0.5 else numpy.array(mass)
                a_before = a.copy()
                obs, err = observe_disp(fn, a, mass_arg)
                cases.append(dict(N=N, cplx=cplx, a=a_before, mass=mass, u=u, s=s, obs=obs, err=err, mismatch=None,
                                  mutated=not numpy.array_equal(a, a_before)))
    for N in ([1, 2, 4] if quick else [1, 2, 3, 4, 6, 9]):
        for cplx in (False, True):
            for dcol, dmass in ((1, 0), (-1, 0), (0, 1), (0, -1), (3, 0)):
                if N + dmass < 1 and dcol == 0:
                    dmass = 2
                cols = 3 * N + dcol
                a = nrng.standard_normal((max(cols, 1), cols)) + (1j * nrng.standard_normal((max(cols, 1), cols)) if cplx else 0)
                mass = [ctx.rng.uniform(0.5, 250.0) for _ in range(N + dmass)]
                obs, err = observe_disp(fn, a.copy(), mass)
                cases.append(dict(N=N, cplx=cplx, a=a, mass=mass, u=None, s=None, obs=obs, err=err,
                                  mismatch="cols=%d masses=%d" % (cols, N + dmass), mutated=False))
    return cases


def disp_oracle(ctx, c):
    key = "disp2eig-%s-N%d-%s" % ("mismatch" if c["mismatch"] else "basis", c["N"], "complex" if c["cplx"] else "real")
    inp = dict(a=[[complex(x) if c["cplx"] else float(x.real) for x in row] for row in numpy.array(c["a"], dtype=complex)],
               mass=list(c["mass"]))
    if c["mismatch"]:
        if c["obs"] is not None:
            ctx.failure(key, "evec_disp2eig accepted a dimension mismatch (%s)" % c["mismatch"], input=inp,
                        expected="exception", observed=c["obs"].shape)
            return False
        return True
    if c["obs"] is None:
        ctx.failure(key, "evec_disp2eig raised %s on a well-formed input" % c["err"], input=inp,
                    expected="array", observed=c["err"])
        return False
    out = numpy.array(c["obs"], dtype=complex)
    good = True
    if out.shape != c["a"].shape:
        ctx.failure(key + "-shape", "result shape differs from input shape", input=inp,
                    expected=c["a"].shape, observed=out.shape)
        return False
    norms = numpy.sqrt((out.real ** 2 + out.imag ** 2).sum(axis=1))
    if not numpy.all(numpy.abs(norms - 1) < 1e-9):
        ctx.failure(key + "-norm", "rows of the result are not of unit norm", input=inp,
                    expected="all 1", observed=norms.tolist())
        good = False
    want = c["u"] * (c["s"] / numpy.abs(c["s"]))[:, None]
    if not numpy.allclose(out, want, rtol=0, atol=1e-9):
        ctx.failure(key + "-restore", "result is not u_i * s_i/|s_i| for a_i = s_i M^(-1/2) u_i", input=inp,
                    expected=want.tolist(), observed=out.tolist())
        good = False
    gram = out.conj() @ out.T
    if not numpy.allclose(gram, numpy.eye(len(out)), rtol=0, atol=1e-9):
        ctx.failure(key + "-orth", "result rows are not orthonormal", input=inp, expected="identity Gram matrix",
                    observed=float(numpy.abs(gram - numpy.eye(len(out))).max()))
        good = False
    if c["mutated"]:
        ctx.failure(key + "-mutated", "evec_disp2eig modified its argument in place", input=inp,
                    expected="argument unchanged", observed="changed")
        good = False
    return good


# ------------------------------------------------------------------------------------------
# evec_load / matdyn layout
# ------------------------------------------------------------------------------------------

PAT_Q = r"q\s*=\s*(-?\d+\.?\d*)\s+(-?\d+\.?\d*)\s+(-?\d+\.?\d*)"
PAT_MODE = r"freq\s*\(\s*(\d+)\)\s*=\s*(-?\d+\.?\d*)\s*\[THz\]\s*=\s*(-?\d+\.?\d*)\s*\[cm\-1\]"

MATDYN_HEADER = r"""
From Coq Require Import Ascii String List ZArith NArith Bool PrimFloat.
From Cij Require Import Ops FOps MatdynModel.
Import ListNotations.
Local Open Scope string_scope.
Definition lines (l : list string) : list line := map list_ascii_of_string l.
Definition num_f (x : num) : float :=
  let '(neg, mant, sc) := num_val x in
  let v := (f_of_Z (Z.of_N mant) / f_of_Z (10 ^ Z.of_nat sc))%float in
  if neg then (- v)%float else v.
Definition feq (a b : float) : bool := PrimFloat.eqb a b.
Fixpoint leqb {A B} (e : A -> B -> bool) (a : list A) (b : list B) : bool :=
  match a, b with [], [] => true | x :: a', y :: b' => e x y && leqb e a' b' | _, _ => false end.
Definition obs_c := (float * float)%type.
Definition obs_mode := ((Z * float * float) * list obs_c)%type.
Definition obs_q := ((float * float * float) * list obs_mode)%type.
Definition c_ok (m : cnum) (o : obs_c) : bool := feq (num_f (fst m)) (fst o) && feq (num_f (snd m)) (snd o).
Definition mode_ok (m : mode) (o : obs_mode) : bool :=
  let '((i, a, b), vs) := m in let '((oi, oa, ob), ovs) := o in
  (Z.of_N (digits_val i 0%N) =? oi)%Z && feq (num_f a) oa && feq (num_f b) ob && leqb c_ok vs ovs.
Definition q_ok (q : qpoint) (o : obs_q) : bool :=
  let '((x, y, z), ms) := q in let '((ox, oy, oz), oms) := o in
  feq (num_f x) ox && feq (num_f y) oy && feq (num_f z) oz && leqb mode_ok ms oms.
Definition res_ok (m : option (list qpoint)) (o : option (list obs_q)) : bool :=
  match m, o with Some a, Some b => leqb q_ok a b | None, None => true | _, _ => false end.
(* numeral equality *)
Definition nat_leqb := leqb Nat.eqb.
Definition num_eqb (a b : num) : bool :=
  let '(n1, i1, f1) := a in let '(n2, i2, f2) := b in Bool.eqb n1 n2 && nat_leqb i1 i2 && nat_leqb f1 f2.
Definition cnum_eqb (a b : cnum) := num_eqb (fst a) (fst b) && num_eqb (snd a) (snd b).
Definition mode_eqb (a b : mode) :=
  let '((i, x, y), vs) := a in let '((j, u, v), ws) := b in
  nat_leqb i j && num_eqb x u && num_eqb y v && leqb cnum_eqb vs ws.
Definition q_eqb (a b : qpoint) :=
  let '((x, y, z), ms) := a in let '((u, v, w), ns) := b in
  num_eqb x u && num_eqb y v && num_eqb z w && leqb mode_eqb ms ns.
Definition data_eqb (a b : option (list qpoint)) :=
  match a, b with Some x, Some y => leqb q_eqb x y | None, None => true | _, _ => false end.
Definition line_eqb (a b : line) := leqb Ascii.eqb a b.
(* one generated file: data, its printed lines, nq, np, observed result *)
Definition gen_ok (c : list qpoint * list string * nat * nat * option (list obs_q)) : bool :=
  let '(d, file, nq, np, obs) := c in
  leqb line_eqb (print_matdyn d) (lines file)
  && data_eqb (parse_matdyn nq np (lines file)) (Some d)
  && res_ok (parse_matdyn nq np (lines file)) obs.
(* any file read with some (nq, np): accept/reject and values *)
Definition any_ok (c : list string * nat * nat * option (list obs_q)) : bool :=
  let '(file, nq, np, obs) := c in res_ok (parse_matdyn nq np (lines file)) obs.
(* the shipped file re-printed by the model printer gives back the same lines *)
Definition reprint_ok (c : list string * nat * nat) : bool :=
  let '(file, nq, np) := c in
  match parse_matdyn nq np (lines file) with
  | Some d => leqb line_eqb (print_matdyn d) (lines file)
  | None => false
  end.
Definition sopt_eqb (a : option (list line)) (b : option (list string)) : bool :=
  match a, b with Some x, Some y => leqb line_eqb x (lines y) | None, None => true | _, _ => false end.
Definition rq_ok (c : string * option (list string)) := sopt_eqb (search Q_COORDS_REGEX (lit (fst c))) (snd c).
Definition rm_ok (c : string * option (list string)) := sopt_eqb (search MODE_INDEX_REGEX (lit (fst c))) (snd c).
"""


def rand_num(ctx, nfrac, max_ip_digits, allow_neg=True):
    nd = ctx.rng.randint(1, max_ip_digits)
    ip = [ctx.rng.randint(1, 9) if nd > 1 else ctx.rng.randint(0, 9)] + [ctx.rng.randint(0, 9) for _ in range(nd - 1)]
    if ctx.rng.random() < 0.6:
        ip = [0]
    fr = [ctx.rng.randint(0, 9) for _ in range(nfrac)]
    if ctx.rng.random() < 0.1:
        fr = [0] * nfrac
    return (allow_neg and ctx.rng.random() < 0.5, ip, fr)


def show_num(x):
    neg, ip, fr = x
    return ("-" if neg else "") + "".join(map(str, ip)) + "." + "".join(map(str, fr))


def num_fraction(x):
    neg, ip, fr = x
    v = Fraction(int("".join(map(str, ip + fr))), 10 ** len(fr))
    return -v if neg else v


def py_print(d):
    """mirror of MatdynModel.print_matdyn (its output is compared with the Gallina printer in Coq)"""
    out = []
    stars = " " + "*" * 74
    for (q, modes) in d:
        out.append("     diagonalizing the dynamical matrix ...")
        out.append("")
        out.append(" q = " + "".join(show_num(x).rjust(12) for x in q))
        out.append(stars)
        for ((i, thz, cm), vs) in modes:
            out.append("     freq (" + "".join(map(str, i)).rjust(5) + ") =" + show_num(thz).rjust(15) + " [THz] ="
                       + show_num(cm).rjust(15) + " [cm-1]")
            for k in range(0, len(vs) - 2, 3):
                out.append(" (" + "".join(show_num(re_).rjust(10) + " " + show_num(im_).rjust(10) + "   "
                                          for (re_, im_) in vs[k:k + 3]) + ")")
        out.append(stars)
    return out


def rand_data(ctx, nq, np_):
    d = []
    for _ in range(nq):
        q = tuple(rand_num(ctx, 4, 3) for _ in range(3))
        modes = []
        for l in range(np_):
            idx = [int(ch) for ch in str(l + 1 if ctx.rng.random() < 0.8 else ctx.rng.randint(0, 99999))]
            hdr = (idx, rand_num(ctx, 6, 5), rand_num(ctx, 6, 6))
            vs = [(rand_num(ctx, 6, 1), rand_num(ctx, 6, 1)) for _ in range(np_)]
            modes.append((hdr, vs))
        d.append((q, modes))
    return d


def data_lit(d):
    qs = []
    for (q, modes) in d:
        ms = []
        for ((i, thz, cm), vs) in modes:
            ms.append("((%s, %s, %s), [%s])" % (natl(i), numlit(thz), numlit(cm),
                                                "; ".join("(%s, %s)" % (numlit(a), numlit(b)) for a, b in vs)))
        qs.append("((%s, %s, %s),\n [%s])" % (numlit(q[0]), numlit(q[1]), numlit(q[2]), ";\n  ".join(ms)))
    return "[" + ";\n".join(qs) + "]"


def obs_lit(res):
    if res is None:
        return "None"
    qs = []
    for (q, modes) in res:
        ms = []
        for ((i, thz, cm), vs) in modes:
            ms.append("((%s%%Z, %s, %s), [%s])" % (zlit(i), F(thz), F(cm),
                                                   "; ".join("(%s, %s)" % (F(v.real), F(v.imag)) for v in vs)))
        qs.append("((%s, %s, %s),\n [%s])" % (F(q[0]), F(q[1]), F(q[2]), ";\n  ".join(ms)))
    return "(Some [" + ";\n".join(qs) + "])"


def file_lit(lines):
    return "[" + ";\n ".join(coq_string(l) for l in lines) + "]"


def observe_load(fn, path, nq, np_):
    try:
        r = fn(str(path), nq, np_)
    except Exception as e:
        return None, type(e).__name__
    return r, None


def structurally_valid(res):
    try:
        for (q, modes) in res:
            assert len(q) == 3 and all(isinstance(x, float) for x in q)
            for ((i, a, b), vs) in modes:
                assert isinstance(i, int) and isinstance(a, float) and isinstance(b, float)
                assert all(isinstance(v, complex) for v in vs)
        return True
    except Exception:
        return False


def load_oracle_generated(ctx, key, d, lines, res, err, nq, np_):
    """the loader must return the printed fields: expected values straight from the numerals"""
    inp = dict(file_lines=lines if len(lines) <= 40 else lines[:40] + ["... (%d lines)" % len(lines)], nq=nq, np=np_)
    if res is None:
        ctx.failure(key, "evec_load raised %s on a file in matdyn layout" % err, input=inp, expected="parsed data",
                    observed=err)
        return False
    if len(res) != nq:
        ctx.failure(key, "evec_load returned %d q-points, file has %d" % (len(res), nq), input=inp,
                    expected=nq, observed=len(res))
        return False
    for iq, ((q, modes), (oq, omodes)) in enumerate(zip(d, res)):
        want_q = tuple(float(num_fraction(x)) for x in q)
        if tuple(oq) != want_q:
            ctx.failure(key, "q-coordinates of q-point %d differ from the printed ones" % iq, input=inp,
                        expected=want_q, observed=tuple(oq))
            return False
        if len(omodes) != len(modes):
            ctx.failure(key, "q-point %d: %d modes returned, %d printed" % (iq, len(omodes), len(modes)), input=inp,
                        expected=len(modes), observed=len(omodes))
            return False
        for im, (((i, thz, cm), vs), ((oi, othz, ocm), ovs)) in enumerate(zip(modes, omodes)):
            want_h = (int("".join(map(str, i))), float(num_fraction(thz)), float(num_fraction(cm)))
            if (oi, othz, ocm) != want_h:
                ctx.failure(key, "q-point %d mode %d: (index, THz, cm-1) differ from the printed ones" % (iq, im),
                            input=inp, expected=want_h, observed=(oi, othz, ocm))
                return False
            want_v = [complex(float(num_fraction(a)), float(num_fraction(b))) for a, b in vs]
            if list(ovs) != want_v:
                bad = [k for k in range(max(len(want_v), len(ovs)))
                       if k >= len(want_v) or k >= len(ovs) or want_v[k] != ovs[k]][:3]
                ctx.failure(key, "q-point %d mode %d: vector components differ from the printed ones (first at %s)"
                            % (iq, im, bad), input=inp, expected=[want_v[k] for k in bad if k < len(want_v)] or len(want_v),
                            observed=[ovs[k] for k in bad if k < len(ovs)] or len(ovs))
                return False
    return True


def token_parse(lines, nq, np_):
    """independent reading of a matdyn file by whitespace tokens (oracle for the shipped file)"""
    out, it = [], iter(lines)
    cur_modes = None
    for ln in it:
        s = ln.strip()
        if s.startswith("q ="):
            cur_modes = []
            out.append((tuple(float(t) for t in s.split("=")[1].split()), cur_modes))
        elif s.startswith("freq"):
            m = re.match(r"freq \(\s*(\d+)\) =\s*(\S+) \[THz\] =\s*(\S+) \[cm-1\]$", s)
            cur_modes.append(((int(m.group(1)), float(m.group(2)), float(m.group(3))), []))
        elif s.startswith("("):
            t = s.strip("()").split()
            assert len(t) == 6
            cur_modes[-1][1].extend(complex(float(t[k]), float(t[k + 1])) for k in (0, 2, 4))
    return out


REGEX_ALPHABET = "q= -.0123456789freq()[THz]cm\t*x"


def regex_strings(ctx, n):
    seeds_q = ["q =       0.0000      0.0000      0.0000", "q =       0.1258     -0.0347      0.1383", "q=1 2 3",
               "q = -1. 2.5 -.5 3", "q = 1.2.3 4 5 6", "qq = 12 -3.25 7.", "q = 1 2", "q = 1  2  3.4.5"]
    seeds_m = ["freq (    1) =      -0.018788 [THz] =      -0.626714 [cm-1]",
               "freq (   12) =       3.500000 [THz] =     116.747000 [cm-1]",
               "freq(7)=1[THz]=2[cm-1]", "freq ( 3 ) = 1.0 [THz] = 2.0 [cm-1]", "freq (3) = 1..0 [THz] = 2 [cm-1]",
               "freq (3) = -1.5[THz]=-2.[cm-1] freq (4) = 1 [THz] = 2 [cm-1]"]
    out_q, out_m = list(seeds_q), list(seeds_m)

    def mutate(s):
        s = list(s)
        for _ in range(ctx.rng.randint(1, 3)):
            op = ctx.rng.random()
            pos = ctx.rng.randint(0, len(s))
            if op < 0.4 and s:
                del s[min(pos, len(s) - 1)]
            elif op < 0.8:
                s.insert(pos, ctx.rng.choice(REGEX_ALPHABET))
            elif s:
                s[min(pos, len(s) - 1)] = ctx.rng.choice(REGEX_ALPHABET)
        return "".join(s)
    while len(out_q) < n:
        out_q.append(mutate(ctx.rng.choice(seeds_q)))
    while len(out_m) < n:
        out_m.append(mutate(ctx.rng.choice(seeds_m)))
    return out_q, out_m


def sopt_lit(groups):
    if groups is None:
        return "None"
    return "(Some [" + "; ".join(coq_string(g) for g in groups) + "])"


# ------------------------------------------------------------------------------------------
# run
# ------------------------------------------------------------------------------------------

def chunks_by_weight(items, weights, nshards, maxlen=300):
    """greedy balancing of cases over shards"""
    order = sorted(range(len(items)), key=lambda i: -weights[i])
    bins = [[] for _ in range(nshards)]
    load = [0] * nshards
    for i in order:
        k = min((b for b in range(nshards) if len(bins[b]) < maxlen), key=lambda b: load[b])
        bins[k].append(i)
        load[k] += weights[i]
    return [sorted(b) for b in bins if b]


def run(ctx):
    rd = ctx.fresh_run_dir()
    quick = ctx.tier != "thorough"
    ctx.rule = ("evec_sort: unitary bases from QR of random real/complex Gaussian matrices, dims 2-60, uniformly random "
                "permutations, phases (+-1 / exp(i theta)), perturbations of norm 0, <=1 %, <=5 %, <=30 % ('partial'), "
                "plus unstructured random targets ('general') and seven kinds of dimension mismatch; a case is "
                "non-trivial if it is a distinct (dimension, field, kind, data) input that is not within 1e-9 of an "
                "argmax tie.  evec_disp2eig: a_i = s_i M^(-1/2) u_i for random orthonormal u (1-20 atoms, real and "
                "complex), |s_i| in 1e-14..1e9 with random sign/phase, masses 0.5..250 in units of amu / kg / Ry a.u. / random 1e-30..1e6, full and partial bases, "
                "column/mass count mismatches.  evec_load: files printed from random numerals (1-6 q-points, 3-60 "
                "modes), the shipped tests/data/pwscf.eig, wrong (nq, np) readings of those files, and random "
                "mutations of header lines for the two regexes.")
    ctx.trusted += [
        "IEEE-754 double comparison = real comparison on the exported overlap values (no NaN occurs); numpy "
        "matmul/abs differ from the model's own complex dot product and sqrt by rounding only - cases whose greedy "
        "margin is below 1e-9 are discarded and counted",
        "evec_sort's optional arguments filter/threshold (default None) are not modelled",
        "perturbation_gives_dominance / evec_sort_recovers_perturbed_permutation are theorems over R about exactly "
        "orthonormal bases; the binary64 inputs of the run are orthonormal up to rounding, so strict row dominance is "
        "also measured on every planted case (minimum margin in coverage.planted_row_dominance_min_margin) and the "
        "planted permutation is checked by the oracle",
        "Python float()/int() are modelled on plain decimal numerals only; file iteration = splitting at newline",
        "the Python mirror of the printer in tools/props/c20.py is not trusted: each generated file is compared "
        "with MatdynModel.print_matdyn inside Coq before it counts",
    ]
    ctx.assumptions += [
        "greedy_recovers_dominant_perm needs strict row dominance of the planted permutation; "
        "perturbation_gives_dominance (proved, EvecPerturb.v) supplies it for orthonormal bases, unit phases and "
        "perturbations of Euclidean norm <= eps < 1/2 (exact real arithmetic; the generated bases are orthonormal "
        "up to rounding only, so the dominance margin is additionally measured on every planted case)",
        "matdyn_roundtrip: every numeral fits its column with at least one blank in front (vector components: "
        "at most 9 characters, because the reader's columns start one character after the Fortran field)",
    ]
    nrng = numpy.random.default_rng(ctx.rng.getrandbits(64))

    ES = importlib.import_module("cij.misc.evec_sort")      # the modules (cij.misc re-exports the functions
    ED = importlib.import_module("cij.misc.evec_disp2eig")  # under the same names)
    EL = importlib.import_module("cij.misc.evec_load")

    # ---- static theorems -----------------------------------------------------------------
    shutil.copy(PROPS / "Prop_C20.v", rd / "Prop_C20.v")
    ctx.prove(rd / "Prop_C20.v", "Prop_C20.v (theorems about EvecSortModel / Disp2EigModel / MatdynModel)",
              "theorem-file", extra_Q=[(rd, "CijGen")])
    # static tie: evec_sort.py / evec_disp2eig.py / evec_load.py are translated again on every run and proved equal to the models
    from props import evec_static
    evec_static.static_tie(ctx, rd)

    shard_files = []
    shard_meta = {}

    # ---- evec_sort -------------------------------------------------------------------------
    sort_cases = gen_sort_cases(ctx, nrng, ES.evec_sort)
    kept = []
    n_tie = 0
    dom_margins = []
    for idx, c in enumerate(sort_cases):
        ctx.count("evec_sort %s %s" % (c["kind"], "complex" if c["cplx"] else "real"))
        if c["err"]:
            ctx.count("evec_sort raised %s" % c["err"])
        if c["kind"] != "mismatch":
            gap, low = greedy_margin(own_overlap(c["base"], c["target"]))
            c["gap"], c["low"] = gap, low
            if c["kind"] == "planted":
                # hypothesis of greedy_recovers_row_dominant, measured on the float data (perturbation_gives_dominance proves it over R)
                a_ = own_overlap(c["base"], c["target"])
                marg = min(a_[i, c["sigma"][i]] - max(numpy.delete(a_[i], c["sigma"][i])) for i in range(c["n"]))
                dom_margins.append(float(marg))
                ctx.count("evec_sort planted: strict row dominance %s" % ("holds" if marg > 0 else "FAILS"))
            if gap < TIE_EPS or low < TIE_EPS:
                n_tie += 1
                ctx.count("evec_sort discarded: within 1e-9 of an argmax tie")
                sort_oracle(ctx, c) if c["kind"] == "planted" else None
                continue
        ctx.case(["sort", idx, c["kind"], c["n"], c["cplx"], c["items"]], nontrivial=True)
        kept.append(c)
    ctx.extra["evec_sort_near_tie_discarded"] = n_tie
    ctx.extra["planted_row_dominance_min_margin"] = min(dom_margins) if dom_margins else None
    ctx.partial += [
        "evec_load on files outside the width hypothesis of matdyn_roundtrip (10-character vector components) is not "
        "claimed; see coverage.observation_wide_component",
    ]
    weights = [len(c["target"]) ** 2 + 10 for c in kept]
    for si, b in enumerate(chunks_by_weight(kept, weights, 8 if quick else 16)):
        body = []
        for i in b:
            c = kept[i]
            body.append("(%s, %s,\n %s,\n %s)" % (zl(c["items"]), cpx_rows(c["target"]), cpx_rows(c["base"]),
                                                    opt_items(c["obs"])))
        f = write(rd / ("cases_sort_%02d.v" % si), SORT_HEADER + "Definition cases : list case_t := [\n"
                  + ";\n".join(body) + "].\nEval vm_compute in (failing ok cases).\n")
        shard_files.append(f)
        shard_meta[f] = ("sort", [kept[i] for i in b])
    for c in kept[:2]:
        ctx.sample(dict(tool="evec_sort", kind=c["kind"], n=c["n"], complex=c["cplx"], eps=c["eps"],
                        items=c["items"], sigma=c["sigma"], observed=c["obs"], greedy_margin=c.get("gap")))

    # ---- evec_disp2eig ---------------------------------------------------------------------
    disp_cases = gen_disp_cases(ctx, nrng, ED.evec_disp2eig)
    body_r, body_c, meta_r, meta_c = [], [], [], []
    for idx, c in enumerate(disp_cases):
        ctx.count("evec_disp2eig %s %s" % ("mismatch" if c["mismatch"] else "basis", "complex" if c["cplx"] else "real"))
        ctx.case(["disp", idx, c["N"], c["cplx"], c["mismatch"], c["mass"]], nontrivial=True)
        if c["cplx"]:
            obs = "None" if c["obs"] is None else "(Some %s)" % cpx_rows(c["obs"])
            body_c.append("(%s,\n [%s],\n %s)" % (cpx_rows(c["a"]), "; ".join(fhex(x) for x in c["mass"]), obs))
            meta_c.append(c)
        else:
            obs = "None" if c["obs"] is None else "(Some %s)" % real_rows(numpy.array(c["obs"]).real)
            body_r.append("(%s,\n [%s],\n %s)" % (real_rows(c["a"].real), "; ".join(fhex(x) for x in c["mass"]), obs))
            meta_r.append(c)
    f = write(rd / "cases_disp_real.v", DISP_HEADER + "Definition cases := [\n" + ";\n".join(body_r)
              + "].\nEval vm_compute in (failing ok_r cases).\n")
    shard_files.append(f)
    shard_meta[f] = ("disp", meta_r)
    f = write(rd / "cases_disp_cplx.v", DISP_HEADER + "Definition cases := [\n" + ";\n".join(body_c)
              + "].\nEval vm_compute in (failing ok_c cases).\n")
    shard_files.append(f)
    shard_meta[f] = ("disp", meta_c)
    c = disp_cases[0]
    ctx.sample(dict(tool="evec_disp2eig", atoms=c["N"], masses=c["mass"], a=c["a"].real.tolist(),
                    observed=None if c["obs"] is None else numpy.array(c["obs"]).real.tolist()))

    # ---- evec_load -------------------------------------------------------------------------
    pat_ok = (EL.Q_COORDS_REGEX.pattern == PAT_Q and EL.MODE_INDEX_REGEX.pattern == PAT_MODE
              and EL.Q_COORDS_REGEX.flags == re.compile("x").flags and EL.MODE_INDEX_REGEX.flags == re.compile("x").flags)
    ctx.obligation("regex pattern texts in evec_load.py are the ones modelled in MatdynModel.v", "source-gate", pat_ok,
                   "Q: %r MODE: %r" % (EL.Q_COORDS_REGEX.pattern, EL.MODE_INDEX_REGEX.pattern))

    shapes = [(1, 3), (2, 6), (1, 9), (3, 12), (6, 3), (1, 30), (2, 60), (4, 15)]
    if not quick:
        shapes += [(ctx.rng.randint(1, 6), 3 * ctx.rng.randint(1, 20)) for _ in range(16)]
    # some layouts occur twice: the second file REPLACES the first at the same path (matdyn.x re-run in place), and must
    # be read as what it now prints
    shapes += [(1, 3), (2, 6), (3, 12)]
    gen_body, gen_meta = [], []
    any_body, any_meta = [], []
    for gi, (nq, np_) in enumerate(shapes):
        d = rand_data(ctx, nq, np_)
        lines = py_print(d)
        path = rd / ("matdyn_nq%d_np%d.eig" % (nq, np_))
        if path.exists():
            ctx.count("evec_load of a file rewritten at the same path")
        path.write_text("\n".join(lines) + "\n")
        res, err = observe_load(EL.evec_load, path, nq, np_)
        if res is not None and not structurally_valid(res):
            res, err = None, "malformed-result"
        ctx.case(["load-gen", gi, nq, np_, lines[2], lines[4]], nontrivial=True)
        ctx.count("evec_load generated file")
        gen_body.append("(%s,\n %s,\n %d, %d, %s)" % (data_lit(d), file_lit(lines), nq, np_, obs_lit(res)))
        gen_meta.append(dict(key="load-generated-nq%d-np%d" % (nq, np_), d=d, lines=lines, res=res, err=err, nq=nq, np=np_))
        # wrong (nq, np) readings of the same file: accept/reject and values must agree with the model
        for (rq, rp) in [(nq - 1, np_), (nq + 1, np_), (nq, np_ - 3), (nq, np_ + 3), (nq, np_ - 1), (nq, np_ + 1)][
                :6 if gi < 5 else 0]:
            if rq < 0 or rp < 0:
                continue
            r2, e2 = observe_load(EL.evec_load, path, rq, rp)
            if r2 is not None and not structurally_valid(r2):
                r2, e2 = None, "malformed-result"
            ctx.case(["load-wrong", gi, rq, rp], nontrivial=True)
            ctx.count("evec_load read with other (nq, np)%s" % ("" if r2 is not None else " -> raised " + str(e2)))
            any_body.append("(%s,\n %d, %d, %s)" % (file_lit(lines), rq, rp, obs_lit(r2)))
            any_meta.append(dict(key="load-wrong-nqnp-gen%d-%d-%d" % (gi, rq, rp), lines=lines, nq=rq, np=rp, res=r2, err=e2))
    # shipped file
    shipped = REPO / "tests/data/pwscf.eig"
    sh_lines = shipped.read_text().split("\n")
    if sh_lines and sh_lines[-1] == "":
        sh_lines = sh_lines[:-1]
    sh_lines = [l.rstrip("\r") for l in sh_lines]
    sh_body = list(sh_lines)            # for the re-print comparison: without trailing blank lines
    while sh_body and not sh_body[-1].strip():
        sh_body.pop()
    res_sh, err_sh = observe_load(EL.evec_load, shipped, 2, 60)
    if res_sh is not None and not structurally_valid(res_sh):
        res_sh, err_sh = None, "malformed-result"
    ctx.case(["load-shipped"], nontrivial=True)
    ctx.count("evec_load shipped pwscf.eig")
    any_body.append("(%s,\n 2, 60, %s)" % (file_lit(sh_lines), obs_lit(res_sh)))
    any_meta.append(dict(key="load-shipped-pwscf.eig", lines=sh_lines, nq=2, np=60, res=res_sh, err=err_sh))

    rq_strings, rm_strings = regex_strings(ctx, 150 if quick else 600)
    rq_cases = []
    for s in rq_strings:
        m = EL.Q_COORDS_REGEX.search(s)
        rq_cases.append((s, list(m.groups()) if m else None))
        ctx.case(["regex-q", s], nontrivial=True)
    rm_cases = []
    for s in rm_strings:
        m = EL.MODE_INDEX_REGEX.search(s)
        rm_cases.append((s, list(m.groups()) if m else None))
        ctx.case(["regex-mode", s], nontrivial=True)
    ctx.count("regex search strings (matching)", sum(1 for _, g in rq_cases + rm_cases if g is not None))
    ctx.count("regex search strings (not matching)", sum(1 for _, g in rq_cases + rm_cases if g is None))

    for si, (gb, gm) in enumerate(zip(gen_body, gen_meta)):     # one shard per generated file (parallel)
        f = write(rd / ("cases_load_gen_%02d.v" % si), MATDYN_HEADER + "Definition cases := [\n" + gb
                  + "].\nEval vm_compute in (failing gen_ok cases).\n")
        shard_files.append(f)
        shard_meta[f] = ("load", [gm])
    sh_case = any_body.pop()
    sh_meta = any_meta.pop()
    f = write(rd / "cases_load_any.v", MATDYN_HEADER + "Definition cases := [\n" + ";\n".join(any_body)
              + "].\nEval vm_compute in (failing any_ok cases).\n")
    shard_files.append(f)
    shard_meta[f] = ("load", any_meta)
    f = write(rd / "cases_load_shipped.v", MATDYN_HEADER + "Definition cases := [\n" + sh_case
              + "].\nEval vm_compute in (failing any_ok cases).\n"
              + "Definition shipped := map (fun c => let '(f, nq, np, _) := c in "
              + "(firstn %d f, nq, np)) cases.\nEval vm_compute in (failing reprint_ok shipped).\n" % len(sh_body))
    shard_files.append(f)
    shard_meta[f] = ("load", [sh_meta])
    f = write(rd / "cases_regex.v", MATDYN_HEADER
              + "Definition cq : list (string * option (list string)) := [\n"
              + ";\n".join("(%s, %s)" % (coq_string(s), sopt_lit(g)) for s, g in rq_cases) + "].\n"
              + "Definition cmo : list (string * option (list string)) := [\n"
              + ";\n".join("(%s, %s)" % (coq_string(s), sopt_lit(g)) for s, g in rm_cases) + "].\n"
              + "Eval vm_compute in (failing rq_ok cq).\nEval vm_compute in (failing rm_ok cmo).\n")
    shard_files.append(f)
    shard_meta[f] = ("regex", (rq_cases, rm_cases))
    ctx.sample(dict(tool="evec_load", file="generated nq=%d np=%d" % shapes[0], first_lines=gen_meta[0]["lines"][:6],
                    observed_first_mode=None if gen_meta[0]["res"] is None else str(gen_meta[0]["res"][0][1][0])))
    ctx.sample(dict(tool="regex", string=rq_cases[3][0], groups=rq_cases[3][1]))

    # ---- compare inside Coq ------------------------------------------------------------------
    res = ctx.run_shards(shard_files, extra_Q=[(rd, "CijGen")], label="tie")
    tie_fail = {}
    for f in shard_files:
        ok, fl, out = res[f]
        kind, meta = shard_meta[f]
        if kind == "regex":
            bad = []
            if len(fl) >= 2:
                bad = [rq_cases[i][0] for i in fl[0]] + [rm_cases[i][0] for i in fl[1]]
            if bad:
                tie_fail[f.name] = bad[:10]
                for s in bad[:3]:
                    mq, mm = EL.Q_COORDS_REGEX.search(s), EL.MODE_INDEX_REGEX.search(s)
                    ctx.extra.setdefault("regex_disagreements", []).append(
                        dict(string=s, q_groups=mq.groups() if mq else None, mode_groups=mm.groups() if mm else None))
            continue
        idxs = fl[0] if fl else []
        if idxs:
            tie_fail[f.name] = [describe(kind, meta[i]) for i in idxs if i < len(meta)][:10]
        if kind == "load" and len(fl) >= 2 and fl[1]:
            tie_fail[f.name + ":reprint"] = "model printer does not reproduce tests/data/pwscf.eig line by line"
    if tie_fail:
        ctx.extra["tie_failing"] = tie_fail

    # ---- search stage: oracles written from the property statement -------------------------------
    for c in sorted(kept, key=lambda c: c["n"]):
        sort_oracle(ctx, c)
    for c in sorted(disp_cases, key=lambda c: c["N"]):
        disp_oracle(ctx, c)
    for g in gen_meta:
        load_oracle_generated(ctx, g["key"], g["d"], g["lines"], g["res"], g["err"], g["nq"], g["np"])
    # shipped file against an independent token-based reading
    want = token_parse(sh_lines, 2, 60)
    if res_sh is None:
        ctx.failure("load-shipped-pwscf.eig", "evec_load raised %s on tests/data/pwscf.eig" % err_sh,
                    input=dict(file="tests/data/pwscf.eig", nq=2, np=60), expected="parsed data", observed=err_sh)
    else:
        got = [(tuple(q), [((i, a, b), list(vs)) for ((i, a, b), vs) in modes]) for (q, modes) in res_sh]
        if got != want:
            where = None
            for iq in range(min(len(got), len(want))):
                if got[iq][0] != want[iq][0]:
                    where = dict(q_point=iq, expected=want[iq][0], observed=got[iq][0])
                    break
                for im in range(min(len(got[iq][1]), len(want[iq][1]))):
                    if got[iq][1][im] != want[iq][1][im]:
                        where = dict(q_point=iq, mode=im, expected=str(want[iq][1][im])[:300],
                                     observed=str(got[iq][1][im])[:300])
                        break
                if where:
                    break
                if len(got[iq][1]) != len(want[iq][1]):
                    where = dict(q_point=iq, expected_modes=len(want[iq][1]), observed_modes=len(got[iq][1]))
                    break
            where = where or dict(expected_qpoints=len(want), observed_qpoints=len(got))
            ctx.failure("load-shipped-pwscf.eig", "evec_load(tests/data/pwscf.eig, 2, 60) does not return the printed "
                        "fields", input=dict(file="tests/data/pwscf.eig", nq=2, np=60), expected=where.get("expected"),
                        observed=where)
    # wrong (nq, np): a reading that is accepted must still return printed fields of the file (prefix property)
    for a in any_meta:
        if a["key"].startswith("load-wrong") and a["res"] is not None:
            full = token_parse(a["lines"], None, None)
            try:
                okp = all(tuple(q) == full[k][0] and all(tuple(h) == full[k][1][l][0] for l, (h, _) in enumerate(ms))
                          for k, (q, ms) in enumerate(a["res"]))
            except Exception:
                okp = False
            if not okp:
                ctx.failure(a["key"], "evec_load with other (nq, np) returned fields that are not printed in the file",
                            input=dict(file_lines=a["lines"][:30], nq=a["nq"], np=a["np"]), expected="printed fields",
                            observed=str(a["res"])[:400])
    # latent limitation recorded as an observation (not claimed by the property: eigenvector components
    # are at most 1 in modulus): a 10-character component such as -12.345678 loses its first character
    probe = rand_data(ctx, 1, 3)
    (q0, modes0) = probe[0]
    (h0, vs0) = modes0[0]
    modes0[0] = (h0, [((True, [1, 2], [3, 4, 5, 6, 7, 8]), vs0[0][1])] + vs0[1:])
    pl = py_print(probe)
    pp = rd / "probe_wide.eig"
    pp.write_text("\n".join(pl) + "\n")
    r, e = observe_load(EL.evec_load, pp, 1, 3)
    ctx.extra["observation_wide_component"] = dict(
        line=pl[5], printed="-12.345678", returned=None if r is None else str(r[0][1][0][1][0]), raised=e,
        note="reader columns 2:12 start one character after the Fortran f10.6 field 1:11; outside the property's "
             "domain (|component| <= 1), see Example wide_component_misread in Matdyn.v")


def describe(kind, c):
    if kind == "sort":
        return dict(tool="evec_sort", kind=c["mismatch"] or c["kind"], n=c["n"], complex=c["cplx"], items=c["items"],
                    observed=c["obs"], raised=c["err"])
    if kind == "disp":
        return dict(tool="evec_disp2eig", atoms=c["N"], complex=c["cplx"], mismatch=c["mismatch"], raised=c["err"])
    return dict(tool="evec_load", key=c["key"], nq=c["nq"], np=c["np"], raised=c["err"])
