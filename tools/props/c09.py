"""C09 - fill refuses exactly when under-determined or inconsistent; never distorts data."""
import ast
import importlib
import math
import os
import shutil
import tempfile
from fractions import Fraction

from vlib import REPO, PROPS, write
import translate_constraints as TC
from translate_constraints import SYMS, NSYM, SYSTEMS, KEYS21
from props import c08 as H


class Untranslatable(Exception):
    pass


def detect_variant(src):
    """which residuals does the refusal test of fill_cij look at?  fail-closed AST match.
    NumpyResiduals: `x, residuals, rank, s = numpy.linalg.lstsq(a, b, rcond=None)` and no other binding
    of `residuals`.  ComputedResiduals: `residuals` is bound, after the lstsq call, to an expression
    built from `a @ x - b` (or numpy.dot(a, x) - b) squared and summed over axis 0."""
    mod = ast.parse(src)
    fn = next((n for n in mod.body if isinstance(n, ast.FunctionDef) and n.name == "fill_cij"), None)
    if fn is None:
        raise Untranslatable("fill_cij not found")
    lst, other, lst_line = None, [], None
    assigns = []            # (lineno, [names], value node) of every assignment in fill_cij
    for n in ast.walk(fn):
        if isinstance(n, (ast.AugAssign, ast.AnnAssign)) and isinstance(n.target, ast.Name):
            assigns.append((n.lineno, [n.target.id], None))
        if isinstance(n, ast.Assign):
            names = []
            for t in n.targets:
                names += [e.id for e in (t.elts if isinstance(t, ast.Tuple) else [t]) if isinstance(e, ast.Name)]
            assigns.append((n.lineno, names, n.value if len(n.targets) == 1 and isinstance(n.targets[0], ast.Name) else None))
            call = ast.unparse(n.value).replace(" ", "")
            if call.startswith("numpy.linalg.lstsq("):
                if call != "numpy.linalg.lstsq(a,b,rcond=None)" or len(n.targets) != 1 or \
                        not isinstance(n.targets[0], ast.Tuple) or len(n.targets[0].elts) != 4:
                    raise Untranslatable("unexpected lstsq call: " + ast.unparse(n))
                lst = [e.id if isinstance(e, ast.Name) else None for e in n.targets[0].elts]
                lst_line = n.lineno
            elif "residuals" in names:
                other.append((n.lineno, n.value))
    # single-assignment locals bound AFTER the lstsq call (e.g. `misfit = a @ x - b`) are inlined into the expression
    # `residuals` is bound to; sound because a, b and x must not be re-bound after the lstsq call
    if lst_line is not None:
        for ln, names, _ in assigns:
            if ln > lst_line and set(names) & {"a", "b", "x"}:
                raise Untranslatable("a / b / x re-bound after the lstsq call (line %d)" % ln)
        count = {}
        for ln, names, _ in assigns:
            for nm in names:
                count[nm] = count.get(nm, 0) + 1
        local_def = {names[0]: (ln, val) for ln, names, val in assigns
                     if val is not None and len(names) == 1 and count[names[0]] == 1 and ln > lst_line
                     and names[0] not in ("residuals", "a", "b", "x")}

        class Inline(ast.NodeTransformer):
            def __init__(self, before):
                self.before = before

            def visit_Name(self, node):
                d = local_def.get(node.id)
                if d and d[0] < self.before and isinstance(node.ctx, ast.Load):
                    return Inline(d[0]).visit(ast.parse(ast.unparse(d[1]), mode="eval").body)
                return node
        other = [ast.unparse(Inline(ln).visit(ast.parse(ast.unparse(v), mode="eval").body)).replace(" ", "") for ln, v in other]
    else:
        other = [ast.unparse(v).replace(" ", "") for _, v in other]
    if lst is None:
        raise Untranslatable("lstsq call not found")
    tests = [ast.unparse(n.test).replace(" ", "").replace("(", "").replace(")", "") for n in ast.walk(fn) if isinstance(n, ast.If)]
    if "rank<nsymandnotignore_rank" not in tests:
        raise Untranslatable("rank test not in the accepted form `rank < nsym and not ignore_rank`: %s" % tests)
    if "numpy.anyresiduals>residual_atolandnotignore_residuals" not in tests:
        raise Untranslatable("residual test not in the accepted form: %s" % tests)
    if lst[0] != "x" or lst[2] != "rank":
        raise Untranslatable("lstsq targets %s" % lst)
    if lst[1] == "residuals" and not other:
        return "NumpyResiduals"
    if lst[1] != "residuals" and len(other) == 1:
        e = other[0]
        accepted = {"((a@x-b)**2).sum(axis=0)", "numpy.sum((a@x-b)**2,axis=0)", "((numpy.dot(a,x)-b)**2).sum(axis=0)",
                    "numpy.sum((numpy.dot(a,x)-b)**2,axis=0)", "numpy.square(a@x-b).sum(axis=0)",
                    "numpy.sum(numpy.square(a@x-b),axis=0)"}
        if e in accepted:
            return "ComputedResiduals"
        raise Untranslatable("residuals bound to an expression the translator does not know: " + e)
    raise Untranslatable("cannot classify how `residuals` is obtained (lstsq targets %s, other bindings %s)" % (lst, other))


# ------------------------------------------------------------------------------------------
def integerize(tensors):
    """scale exact invariant tensors to integer entries (same symmetry)"""
    den = 1
    for t in tensors:
        for x in t:
            den = den * x.denominator // math.gcd(den, x.denominator)
    return [[x * den for x in t] for t in tensors]


def equivalent_relations_text(text):
    """the same relations written differently: lines reversed, each chain reversed"""
    lines = [l for l in text.splitlines() if l.strip()]
    out = []
    for l in reversed(lines):
        parts = [p.strip() for p in l.split("=")]
        out.append(" = ".join(reversed(parts)))
    return "\n".join(out) + "\n"


def fraction_ls_residual(rows, b):
    """exact min_x |rows x - b|^2 (Fractions): independent of the Coq model"""
    n = len(rows[0])
    G = [[sum((r[i] * r[j] for r in rows), Fraction(0)) for j in range(n)] + [sum((r[i] * bb for r, bb in zip(rows, b)), Fraction(0))]
         for i in range(n)]
    piv, rk = [], 0
    for c in range(n):
        p = next((i for i in range(rk, n) if G[i][c] != 0), None)
        if p is None:
            continue
        G[rk], G[p] = G[p], G[rk]
        pv = G[rk][c]
        G[rk] = [x / pv for x in G[rk]]
        for i in range(n):
            if i != rk and G[i][c] != 0:
                f = G[i][c]
                G[i] = [x - f * y for x, y in zip(G[i], G[rk])]
        piv.append(c)
        rk += 1
    x = [Fraction(0)] * n
    for i, c in enumerate(piv):
        x[c] = G[i][n]
    res = [sum((r[j] * x[j] for j in range(n)), Fraction(0)) - bb for r, bb in zip(rows, b)]
    return sum((e * e for e in res), Fraction(0))


def run(ctx):
    import pandas
    import cij.util.fill as F
    import cij.cli.fill as CF
    importlib.reload(F)
    importlib.reload(CF)
    from click.testing import CliRunner
    rd = ctx.fresh_run_dir()
    rng = ctx.rng
    ctx.rule = ("per system ~40 cases: random supplied sets (sufficient / insufficient, decided by an independent exact "
                "rank computation on the Laue-invariant subspace); one supplied value perturbed by "
                "{0,0.01,0.1,0.2,0.5,1.1,1.2,2,50} x sqrt(tol) (1.1, 1.2: a supplied pair may disagree by more than sqrt(tol) and still be accepted - the output must then satisfy the relation, so values move) (exact-residual cases within 1e-6 of the threshold are redrawn); "
                "all four flag combinations; int and float columns; temp cwd with a directory or a relations FILE named "
                "like the system; user-written equivalent relations file given by relative and absolute path; "
                "non-modulus columns incl. an all-zero one; tiny vanishing columns with two drop tolerances; bad labels; "
                "`cij fill -s SYSTEM FILE` through click's CliRunner; a case is non-trivial unless it repeats the same "
                "table and options")
    ctx.trusted += [
        "translator tools/translate_constraints.py validated against sympy on every run (exact)",
        "tools/props/c09.py:detect_variant - fail-closed AST match of the lstsq / refusal block of fill.py deciding "
        "which residual form the model runs with (Gen_fill.v)",
        "numpy.linalg.lstsq as least-squares oracle incl. its rank decision (SVD, rcond=eps*max(M,N)) vs exact rank over Q: "
        "entries in {0,+-1,+-1/2}; agreement checked on every case, not proved",
        "pandas read_table / to_string for the CLI cases (values compared to 1e-5 relative because of the 6-digit print)",
        "labels are modelled as ASCII strings: lower(), re.search(r'c(\\d)(\\d)') and list.index re-implemented in Gallina",
    ]
    ctx.partial += [
        "order/case/dtype/cwd independence: theorem only for letter case of the scan, for consistent data (solution = the "
        "tensor for every column order) and for the lookup; the general statements are covered by paired runs in the tie",
        "accept_no_distortion for the lstsq-residual form needs rows > 21 (numpy reports no residuals otherwise); for square "
        "full-rank systems exactness A P = I is a checked certificate per supplied set (C08 rank-certificate shards)",
    ]

    ok_gen, info = H.translate_stage(ctx, rd)
    variant = None
    try:
        variant = detect_variant((REPO / "cij/util/fill.py").read_text())
        write(rd / "Gen_fill.v", "(* GENERATED by tools/props/c09.py:detect_variant from cij/util/fill.py *)\n"
              "From Cij Require Import FillModel.\nDefinition tree_variant : variant := %s.\n" % variant)
        ok, _ = ctx.prove(rd / "Gen_fill.v", "classify the residual form of fill.py -> Gen_fill.v (%s)" % variant,
                          "translator", extra_Q=[(rd, "CijGen")])
        ok_gen = ok_gen and ok
    except (Untranslatable, SyntaxError) as e:
        ctx.obligation("classify the residual form of fill.py -> Gen_fill.v", "translator", False, str(e))
        ok_gen = False
    ctx.extra["tree_variant"] = variant
    if ok_gen:
        shutil.copy(PROPS / "Prop_C09.v", rd / "Prop_C09.v")
        ctx.prove(rd / "Prop_C09.v", "Prop_C09.v (refuses_iff_underdetermined, accept_no_distortion, flags_exact_*, "
                  "passthrough, drop_rule, cwd_independence, relations_path_used)", "theorem-file",
                  extra_Q=[(rd, "CijGen")], timeout=600)

    rel_rows = {s: (info[s]["rows"] if info else None) for s in SYSTEMS}
    cases, meta = [], []
    tol = 0.1
    sq = math.sqrt(tol)
    cwd0 = os.getcwd()
    tmp = tempfile.mkdtemp(prefix="c09_", dir=str(rd))
    runner = CliRunner()

    def call(df, system, kw, via="api", cwd=None):
        """returns obs = ('ok', cols) | ('raise', kind)"""
        try:
            if cwd:
                os.chdir(cwd)
            if via == "api":
                out = F.fill_cij(df.copy(), system, **kw)
                return ("ok", H.df_cols(out))
            # CLI
            fname = os.path.join(tmp, "elast_%d.dat" % len(cases))
            with open(fname, "w") as fp:
                fp.write("title line\n")
                fp.write("%.4f %d %.4f\n" % (100.0, len(df), 50.0))
                fp.write(" ".join(df.columns) + "\n")
                for r in range(len(df)):
                    fp.write(" ".join(repr(x) for x in df.iloc[r].tolist()) + "\n")
                fp.write("\ntrailer\n")
            args = ["-s", system, fname]
            if kw.get("ignore_residuals"):
                args.append("--ignore-residuals")
            if kw.get("ignore_rank"):
                args.append("--ignore-rank")
            if "drop_atol" in kw:
                args += ["--drop-atol", repr(kw["drop_atol"])]
            r = runner.invoke(CF.main, args)
            if r.exception is not None and not isinstance(r.exception, SystemExit):
                return ("raise", H.classify_exception(r.exception))
            if r.exit_code != 0:
                return ("raise", "exit%d" % r.exit_code)
            lines = r.output.splitlines()
            hdr = lines[2].split()
            rows = [lines[3 + i].split() for i in range(len(df))]
            return ("ok", [(h, [float(row[j]) for row in rows]) for j, h in enumerate(hdr)])
        except BaseException as e:
            return ("raise", H.classify_exception(e))
        finally:
            os.chdir(cwd0)

    def record(system, relname, cols, kw, obs, scale, tag, extra=None, via="api"):
        m = dict(system=system, tag=tag, via=via, columns=[l for l, _ in cols], table={l: v for l, v in cols},
                 options=kw, observed=obs)
        if extra:
            m.update(extra)
        ctx.case(dict(system=system, cols=cols, kw=kw, tag=tag, via=via))
        ctx.count("tag:" + tag)
        ctx.count("via:" + via)
        ctx.count("outcome:" + (obs[0] if obs[0] == "ok" else obs[1]))
        if obs[0] == "raise" and obs[1] not in H.KINDS:
            ctx.failure("%s-unexpected-%s" % (tag, obs[1]), "fill raised %s" % obs[1], input=m)
            return m
        cases.append(H.coq_case(relname, cols, obs, scale * (1e4 if via == "cli" else 1.0),
                                ign_res=kw.get("ignore_residuals", False), ign_rank=kw.get("ignore_rank", False),
                                drop=kw.get("drop_atol", 1e-8), tol=kw.get("residual_atol", 0.1)))
        meta.append(m)
        return m

    def flags(i):
        return [dict(), dict(ignore_rank=True), dict(ignore_residuals=True),
                dict(ignore_rank=True, ignore_residuals=True)][i % 4]

    nper = 1 if ctx.tier == "quick" else 10
    quick_tier = ctx.tier == "quick"
    for system in SYSTEMS:
        nv = H.nonvanishing(system)
        rows_sys = rel_rows[system]
        relname = "rel_%s" % system
        packaged_text = (REPO / "cij/data/constraints" / system).read_text()

        def oracle(cols, S, b_exact, kw, obs, m, sys_eff=system, rows_eff=None, consistent=True, big=False, res_exact=None):
            """independent property oracle.  b_exact: exact supplied values per row (list of dict idx->Fraction)"""
            vtol = 1e-5 if m.get("via") == "cli" else 1e-9     # the CLI prints 6 digits
            rows_eff = rows_sys if rows_eff is None else rows_eff
            suff = H.sufficient(sys_eff, sorted(set(S)))
            ign_rank, ign_res = kw.get("ignore_rank", False), kw.get("ignore_residuals", False)
            rtol = kw.get("residual_atol", 0.1)
            if not suff and not ign_rank:
                if obs != ("raise", "RankWarning"):
                    key = "triclinic-never-refuses-never-drops" if sys_eff == "triclinic" else "%s-accepts-underdetermined" % sys_eff
                    ctx.failure(key, "supplied components do not determine the tensor (independent rank on the Laue-invariant "
                                "subspace) and ignore_rank is off, but fill did not raise the rank Warning: %s" % (obs[0] if obs[0] == "ok" else obs[1]),
                                input=m, expected="Warning(rank)", observed=obs[0] if obs[0] == "ok" else obs[1])
                return
            if obs == ("raise", "RankWarning"):
                ctx.failure("%s-refuses-determined" % sys_eff, "rank Warning although the supplied components determine the tensor"
                            if suff else "rank Warning although ignore_rank is set", input=m, expected="no rank refusal", observed="RankWarning")
                return
            if consistent and obs[0] == "raise":
                ctx.failure("%s-refuses-consistent" % sys_eff, "fill raised %s on a symmetry-consistent table" % obs[1], input=m,
                            expected="filled table", observed=obs[1])
                return
            if big and not ign_res:
                if obs[0] == "ok":
                    key = "ignore-rank-disables-residual-check" if (not suff and ign_rank) else "%s-accepts-contradiction" % sys_eff
                    ctx.failure(key, "a supplied value contradicts the relations by 50*sqrt(residual_atol) and ignore_residuals is "
                                "off, but the table was accepted%s" % (" (rank-deficient system with ignore_rank: numpy returns no "
                                                                      "residuals, the residual test is silently skipped)" if not suff else ""),
                                input=m, expected="Warning(residuals)", observed=dict(obs[1]))
                return
            # refusal decision straight from the statement: with the residual refusal armed and a determining
            # supplied set, fill refuses iff the (exact, Fraction) squared misfit of some volume exceeds the tolerance
            if res_exact is not None and suff and not ign_res:
                if float(res_exact) > rtol * (1 + 1e-6) and obs[0] == "ok":
                    ctx.failure("%s-accepts-contradiction" % sys_eff,
                                "the supplied values contradict the relations by a squared misfit of %.6g > residual_atol %.3g "
                                "but the table was accepted" % (float(res_exact), rtol), input=m,
                                expected="Warning(residuals)", observed=dict(obs[1]))
                    return
                if float(res_exact) < rtol * (1 - 1e-6) and obs == ("raise", "ResidualWarning"):
                    ctx.failure("%s-refuses-within-tolerance" % sys_eff,
                                "squared misfit %.6g <= residual_atol %.3g but fill raised the residual Warning"
                                % (float(res_exact), rtol), input=m, expected="accepted", observed="ResidualWarning")
                    return
            if obs == ("raise", "ResidualWarning") and ign_res:
                ctx.failure("%s-residual-refusal-with-ignore" % sys_eff, "residual Warning although ignore_residuals is set", input=m)
                return
            if obs[0] != "ok":
                return
            out = dict((l.lower(), v) for l, v in obs[1])
            if not ign_res and rows_eff:
                lim = math.sqrt(rtol) * (1 + 1e-6) + 1e-9
                for r, bx in enumerate(b_exact):
                    x = [out[s][r] if s in out else 0.0 for s in SYMS]
                    for i, v in bx.items():
                        if abs(x[i] - float(v)) > lim:
                            ctx.failure("%s-accepted-but-moved" % sys_eff, "accepted with the residual refusal armed, but supplied %s "
                                        "moved by %.6g > sqrt(tol)" % (SYMS[i], abs(x[i] - float(v))), input=m,
                                        expected=float(v), observed=x[i])
                            return
                    for row in rows_eff:
                        viol = abs(sum(float(c) * xv for c, xv in zip(row, x)))
                        if viol > lim:
                            ctx.failure("%s-accepted-but-violates-relation" % sys_eff, "accepted with the residual refusal armed, but a "
                                        "relation is violated by %.6g > sqrt(tol)" % viol, input=m, observed=x)
                            return
            if consistent and (suff or not rows_eff):
                for r, bx in enumerate(b_exact):
                    for i, v in bx.items():
                        got = out.get(SYMS[i], [0.0] * len(b_exact))[r]
                        if abs(got - float(v)) > vtol * max(1.0, abs(float(v))) and abs(float(v)) > kw.get("drop_atol", 1e-8):
                            ctx.failure("%s-consistent-moved" % sys_eff, "consistent table: supplied %s changed from %.12g to %.12g"
                                        % (SYMS[i], float(v), got), input=m)
                            return
            dropa = kw.get("drop_atol", 1e-8)
            outl = dict(obs[1])
            for l, v in cols:
                if l.lower() not in SYMS:
                    if l not in outl:
                        ctx.failure("drop-removes-zero-nonmodulus-column" if all(abs(x) <= dropa for x in v) else "%s-nonmodulus-lost" % sys_eff,
                                    "non-modulus column %r is missing from the output (the drop loop runs over all columns)" % l,
                                    input=m, expected="column %r passes through" % l, observed=[c for c, _ in obs[1]])
                        return
                    if any(abs(a - b) > vtol * max(1.0, abs(b)) for a, b in zip(outl[l], v)) or len(outl[l]) != len(v):
                        ctx.failure("%s-nonmodulus-changed" % sys_eff, "non-modulus column %r changed" % l, input=m)
                        return
            for l, v in obs[1]:
                if l.lower() in SYMS and all(abs(x) <= dropa for x in v):
                    key = "triclinic-never-refuses-never-drops" if sys_eff == "triclinic" else "%s-zero-column-kept" % sys_eff
                    ctx.failure(key, "component %s is within drop_atol of 0 at all volumes but was not omitted" % l, input=m)
                    return

        def build(S, nrows, perturb=None, ints=False, extra_cols=(), lead_v=True):
            tensors = [H.random_invariant(system, rng) for _ in range(nrows)]
            if ints:
                tensors = integerize(tensors)
            bx = [dict((i, t[i]) for i in S) for t in tensors]
            if perturb is not None:
                i, r, d = perturb
                bx[r][i] = bx[r][i] + Fraction(d)
            cols = []
            if lead_v:
                cols.append(("V", [100 + 10 * r for r in range(nrows)] if ints else [100.0 + 10.5 * r for r in range(nrows)]))
            for l, v in extra_cols:
                cols.append((l, list(v)[:nrows] + [list(v)[-1]] * (nrows - len(v))))
            for i in S:
                vals = [bx[r][i] for r in range(nrows)]
                cols.append((H.random_case(SYMS[i], rng), [int(v) for v in vals] if ints else [float(v) for v in vals]))
            scale = max(1.0, max(abs(float(x)) for t in tensors for x in t))
            return cols, bx, scale

        def mkdf(cols):
            df = pandas.DataFrame({l: v for l, v in cols}, columns=[l for l, _ in cols])
            n = len(df)
            ikind = rng.choice(["default", "default", "default", "reversed", "offset"])
            if ikind == "reversed":
                df.index = list(range(n - 1, -1, -1))
            elif ikind == "offset":
                df.index = [7 + 2 * i for i in range(n)]
            return df

        for rep in range(nper):
            fi = rng.randint(0, 3)
            # --- A. sufficient and insufficient sets, consistent data, four flag combinations, api + cli
            for k in range(8):
                suff = k % 2 == 0
                if suff or not nv:
                    S = H.random_sufficient_set(system, rng)
                else:
                    S = sorted(rng.sample(nv, rng.randint(1, max(1, len(nv) - 1))))
                    if H.sufficient(system, S):
                        full = H.random_sufficient_set(system, rng, extra=False)
                        S = [i for i in full if i != full[0]] or full
                nrows = rng.randint(1, 4)
                kw = flags(fi + k // 2)
                cols, bx, scale = build(S, nrows)
                via = "cli" if k in (2, 5) else "api"
                kwc = dict(kw)
                obs = call(mkdf(cols), system, kwc, via=via)
                m = record(system, relname, cols, kwc, obs, scale, "subset", via=via)
                oracle(cols, S, bx, kwc, obs, m)
            # --- A'. insufficient sets that also list vanishing components (as zero columns), in any column order: the
            # refusal rests on a numerical rank, and these are the matrices whose round-off singular values are
            # closest to a rank cutoff.  The corpus entries were minimised from a seeded change (rcond of lstsq).
            corpus = {"cubic": [["c12", "c22", "c23", "c36"], ["c11", "c15", "c23", "c46", "c56"]],
                      "hexagonal": [["c22", "c23", "c25", "c26", "c55", "c56", "c66"]]}.get(system, []) if rep == 0 else []
            for k in range(len(corpus) + (12 if quick_tier else 40)):
                if system == "triclinic" or not nv:
                    break
                if k < len(corpus):
                    S = [SYMS.index(x) for x in corpus[k]]
                else:
                    S = rng.sample(range(NSYM), rng.randint(2, 9))
                if H.sufficient(system, sorted(S)):
                    continue
                cols, bx, scale = build(S, rng.randint(1, 3), lead_v=rng.random() < 0.5)
                obs = call(mkdf(cols), system, {})
                m = record(system, relname, cols, {}, obs, scale, "insufficient-mixed")
                oracle(cols, S, bx, {}, obs, m)
                ctx.count("insufficient sets incl. vanishing components")
            # --- B. perturbations of one redundant supplied value
            for d_i, dmul in enumerate([0, 0.01, 0.1, 0.2, 0.5, 2, 50, 1.2, 1.1]):
                if not nv or system == "triclinic":
                    break
                for _try in range(20):
                    S = H.random_sufficient_set(system, rng, extra=False)
                    rest = [i for i in nv if i not in S]
                    if not rest:
                        continue
                    S = S + rng.sample(rest, min(len(rest), rng.randint(1, 3)))
                    red = [i for i in S if H.sufficient(system, [j for j in S if j != i])]
                    if not red:
                        continue
                    i = rng.choice(red)
                    nrows = rng.randint(1, 3)
                    r = rng.randrange(nrows)
                    delta = Fraction(dmul * sq).limit_denominator(10 ** 6) * rng.choice([1, -1])
                    cols, bx, scale = build(S, nrows, perturb=(i, r, delta))
                    # exact residual of the perturbed row: stay away from the threshold
                    A = [[Fraction(1 if j == s else 0) for j in range(NSYM)] for s in S] + rows_sys
                    b = [Fraction(float(bx[r][s])) for s in S] + [Fraction(0)] * len(rows_sys)
                    res = fraction_ls_residual(A, b)
                    if abs(float(res) - tol) > 1e-6:
                        break
                else:
                    continue
                for kw in ([flags(0), flags(2)] if dmul in (2, 50) else [flags(0), flags(1)] if dmul in (1.2, 1.1) else [flags(d_i)]):
                    obs = call(mkdf(cols), system, kw)
                    m = record(system, relname, cols, kw, obs, scale, "perturb%g" % dmul,
                               extra=dict(perturbed=SYMS[i], delta=float(delta), exact_residual=float(res)))
                    oracle(cols, S, bx, kw, obs, m, consistent=(dmul == 0), big=(dmul == 50), res_exact=res)
            # --- B'. D12: contradictory AND rank-deficient, ignore_rank alone
            if nv and system != "triclinic":
                for _try in range(30):
                    S = H.random_sufficient_set(system, rng, extra=False)
                    rest = [i for i in nv if i not in S]
                    if not rest:
                        continue
                    S2 = S + [rng.choice(rest)]
                    red = [i for i in S2 if H.sufficient(system, [j for j in S2 if j != i])]
                    # drop a necessary component that is not involved in the redundancy
                    nec = [i for i in S2 if i not in red]
                    if not red or not nec:
                        continue
                    S3_ = [i for i in S2 if i != nec[0]]
                    red3 = [i for i in red if H.frank([H.projector(system)[j] for j in S3_ if j != i]) ==
                            H.frank([H.projector(system)[j] for j in S3_])]
                    if not red3:
                        continue
                    i = red3[0]
                    delta = Fraction(50 * sq).limit_denominator(10 ** 6)
                    cols, bx, scale = build(S3_, 1, perturb=(i, 0, delta))
                    for kw in (dict(ignore_rank=True), dict()):
                        obs = call(mkdf(cols), system, kw)
                        m = record(system, relname, cols, kw, obs, scale, "contradictory-rank-deficient",
                                   extra=dict(perturbed=SYMS[i], delta=float(delta)))
                        oracle(cols, S3_, bx, kw, obs, m, consistent=False, big=True)
                    break
            # --- C. integer columns vs float columns
            S = H.random_sufficient_set(system, rng)
            cols_i, bx, scale = build(S, 2, ints=True)
            cols_f = [(l, [float(x) for x in v]) for l, v in cols_i]
            oi = call(mkdf(cols_i), system, {})
            of = call(mkdf(cols_f), system, {})
            m = record(system, relname, cols_i, {}, oi, scale, "int-columns")
            record(system, relname, cols_f, {}, of, scale, "float-columns")
            oracle(cols_i, S, bx, {}, oi, m)
            if oi[0] != of[0] or (oi[0] == "ok" and ([l for l, _ in oi[1]] != [l for l, _ in of[1]] or any(
                    abs(a - b) > 1e-9 * scale for (_, va), (_, vb) in zip(oi[1], of[1]) for a, b in zip(va, vb)))):
                ctx.failure("int-dtype", "integer-typed and float-typed columns give different outcomes", input=m,
                            expected=str(of)[:300], observed=str(oi)[:300])
            # --- D. working directory: directory named like the system; relations file by path; file named like a system
            d1 = tempfile.mkdtemp(prefix="cwd_", dir=tmp)
            os.mkdir(os.path.join(d1, system))
            S = H.random_sufficient_set(system, rng)
            cols, bx, scale = build(S, 2)
            o1 = call(mkdf(cols), system, {}, cwd=d1)
            o0 = call(mkdf(cols), system, {}, cwd=tmp)
            m = record(system, relname, cols, {}, o1, scale, "cwd-has-directory")
            oracle(cols, S, bx, {}, o1, m)
            if str(o1) != str(o0):
                ctx.failure("cwd-shadow", "a directory named %r in the cwd changes the outcome" % system, input=m,
                            expected=str(o0)[:300], observed=str(o1)[:300])
            if system != "triclinic":
                utext = equivalent_relations_text(packaged_text)
                try:
                    urows = TC.parse_relations(utext, "user file")
                except TC.Untranslatable as e:
                    ctx.obligation("user-written relations file readable by the translator", "translator", False, str(e))
                    urows = None
                if urows is not None:
                    with open(os.path.join(d1, "my_relations.txt"), "w") as fp:
                        fp.write(utext)
                    urel = TC.coq_rows_q(urows)
                    for path in ("my_relations.txt", os.path.join(d1, "my_relations.txt")):
                        ou = call(mkdf(cols), path, {}, cwd=d1)
                        m = record(system, urel, cols, {}, ou, scale, "relations-path")
                        oracle(cols, S, bx, {}, ou, m, rows_eff=urows)
                        if ou[0] != "ok":
                            ctx.failure("relations-path", "an equivalent user-written relations file given by path is not used: %s" % ou[1],
                                        input=m)
                    # a FILE named like another system holding THESE relations: the file wins
                    other = "cubic" if system != "cubic" else "hexagonal"
                    d2 = tempfile.mkdtemp(prefix="cwd_", dir=tmp)
                    with open(os.path.join(d2, other), "w") as fp:
                        fp.write(utext)
                    ox = call(mkdf(cols), other, {}, cwd=d2)
                    m = record(system, urel, cols, {}, ox, scale, "file-named-like-system")
                    oracle(cols, S, bx, {}, ox, m, rows_eff=urows)
            # --- E. non-modulus columns incl. an all-zero one
            S = H.random_sufficient_set(system, rng)
            cols, bx, scale = build(S, 3, extra_cols=[("P", [0.0, 0.0, 0.0]), ("T", [300.0, 300.0, 300.0]), ("note1", [1.5, -2.5, 0.0])])
            obs = call(mkdf(cols), system, {})
            m = record(system, relname, cols, {}, obs, scale, "nonmodulus-columns")
            oracle(cols, S, bx, {}, obs, m)
            # --- I. tiny vanishing column and the drop tolerance
            van = [i for i in range(NSYM) if i not in nv]
            if van:
                S = H.random_sufficient_set(system, rng, extra=False)
                v_i = rng.choice(van)
                for dropa in (1e-8, 1e-11):
                    cols, bx, scale = build(S, 2)
                    cols.append((SYMS[v_i], [3e-9, -2e-9]))
                    kw = dict(drop_atol=dropa)
                    obs = call(mkdf(cols), system, kw)
                    m = record(system, relname, cols, kw, obs, scale, "tiny-vanishing-drop%g" % dropa)
                    oracle(cols, S + [v_i], [dict(list(b.items())) for b in bx], kw, obs, m)
            # --- order / case pairs
            S = H.random_sufficient_set(system, rng)
            cols, bx, scale = build(S, 2, lead_v=False)
            perm = cols[:]
            rng.shuffle(perm)
            perm = [(l.swapcase(), v) for l, v in perm]
            o1 = call(mkdf(cols), system, {})
            o2 = call(mkdf(perm), system, {})
            m = record(system, relname, cols, {}, o1, scale, "order-case-a")
            record(system, relname, perm, {}, o2, scale, "order-case-b")
            oracle(cols, S, bx, {}, o1, m)
            if o1[0] != o2[0] or (o1[0] == "ok" and (
                    sorted(l.lower() for l, _ in o1[1]) != sorted(l.lower() for l, _ in o2[1]) or
                    any(abs(a - b) > 1e-9 * scale for l, va in o1[1] for a, b in zip(va, dict((k.lower(), v) for k, v in o2[1])[l.lower()])))):
                ctx.failure("order-case", "outcome depends on column order / letter case", input=m, expected=str(o1)[:300],
                            observed=str(o2)[:300])

    # --- G. labels and lookup edge cases (cubic)
    if rel_rows["cubic"] is not None:
        edge = [
            ("bad-label-c21", [("V", [100.0]), ("c21", [1.0]), ("c11", [300.0])], "cubic"),
            ("bad-label-xc11", [("xc11", [1.0]), ("c11", [300.0])], "cubic"),
            ("no-modulus-column", [("V", [100.0]), ("P", [1.0])], "cubic"),
            ("duplicate-case-columns", [("c11", [300.0]), ("C11", [300.0]), ("c12", [100.0]), ("C44", [50.0])], "cubic"),
            ("label-c1-is-not-modulus", [("c1", [7.0]), ("c11", [300.0]), ("c12", [100.0]), ("c44", [50.0])], "cubic"),
        ]
        for tag, cols, system in edge:
            obs = call(pandas.DataFrame({l: v for l, v in cols}, columns=[l for l, _ in cols]), system, {})
            record(system, "rel_cubic", cols, {}, obs, 300.0, tag)
        obs = call(pandas.DataFrame({"c11": [1.0]}), "no_such_system", {})
        ctx.case(dict(tag="unknown-system"))
        if obs != ("raise", "FileNotFound"):
            ctx.failure("unknown-system", "unknown system name does not raise FileNotFoundError: %s" % (obs,), input="no_such_system")
        if F.fill_cij(pandas.DataFrame({"c11": [1.0]}), None).equals(pandas.DataFrame({"c11": [1.0]})) is False:
            ctx.failure("system-none", "system=None does not return the table unchanged", input=None)

    for m in meta[:2] + [x for x in meta if x["tag"].startswith("perturb2")][:1] + \
            [x for x in meta if x["tag"] == "contradictory-rank-deficient"][:1] + meta[-1:]:
        ctx.sample(dict(system=m["system"], tag=m["tag"], via=m["via"], columns=m["columns"], options=m["options"],
                        observed=(m["observed"][0], [c for c, _ in m["observed"][1]] if m["observed"][0] == "ok" else m["observed"][1])))

    if ok_gen:
        per = 30
        hdr = H.SHARD_HEADER.replace("From CijGen Require Import Gen_constraints.", "From CijGen Require Import Gen_constraints Gen_fill.") \
            .replace("current_variant", "tree_variant")
        files = []
        for si in range(0, len(cases), per):
            txt = hdr + "\nDefinition cases : list case := [\n" + ";\n".join(cases[si:si + per]) + "].\n" + \
                "Eval vm_compute in (failing chk cases).\n"
            files.append(write(rd / ("cases_C09_%02d.v" % (si // per)), txt))
        res = ctx.run_shards(files, extra_Q=[(rd, "CijGen")], label="fill decision+values tie")
        for fi, f in enumerate(files):
            ok, fl, out = res[f]
            for lst in fl:
                for i in lst:
                    if 0 <= i and fi * per + i < len(meta):
                        m = meta[fi * per + i]
                        ctx.extra.setdefault("tie_disagreements", []).append(
                            dict(system=m["system"], tag=m["tag"], via=m["via"], columns=m["columns"], options=m["options"],
                                 observed=str(m["observed"])[:300]))
    shutil.rmtree(tmp, ignore_errors=True)
