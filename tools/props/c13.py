"""C13 - results do not depend on how the same physical data are presented.

(a) duck-typed runs of the real Longitudinal/OffDiagonal contribution classes on re-presented inputs
    (q-points >= 1 permuted with their weights, modes permuted consistently across volumes, weights scaled):
    outputs of both presentations and the float model on both presentations are compared inside Coq.
(b) the real Calculator on re-presented copies of synthetic data sets (and, thorough, of the shipped examples).
The differential run is the oracle of the search stage.
"""
import gc
import contextlib
import copy
import logging
import math
import shutil
import time
import warnings
from pathlib import Path

import numpy

import vlib
from vlib import PROPS, write, fhex, flist, zlist
import nonshear_harness as H
import synth

RTOL_CALC = 1e-8        # property: "unchanged to rounding" for the full pipeline
RTOL_DUCK = 1e-12       # one contribution object


# ---------------------------------------------------------------------------------------------
# presentations of one data set
# ---------------------------------------------------------------------------------------------

def rand_perm(rng, n, fixed=0):
    """random permutation of range(n) that fixes the first `fixed` slots and is not the identity if possible"""
    idx = list(range(fixed, n))
    if len(idx) < 2:
        return list(range(n))
    for _ in range(20):
        p = idx[:]
        rng.shuffle(p)
        if p != idx:
            break
    return list(range(fixed)) + p


def identity_spec(ds):
    nq, np_, nv = ds["qha"]["nq"], ds["qha"]["np"], ds["qha"]["nv"]
    nk = len(ds["elast"]["keys"])
    return dict(qperm=list(range(nq)), mperm=[list(range(np_)) for _ in range(nq)], wscale=1.0,
                colperm=list(range(nk)), prefix=[ds["elast"].get("prefix", "c")] * nk,
                rowperm=list(range(ds["elast"]["nv"])), vperm=list(range(nv)))


def apply_spec(ds, spec):
    """new data set: position i of the new presentation holds old item perm[i]"""
    q, e = ds["qha"], ds["elast"]
    qp, mp, vp = spec["qperm"], spec["mperm"], spec["vperm"]
    assert qp[0] == 0 and all(m[:3] == [0, 1, 2] for m in mp[:1])
    vols = []
    for vi in vp:
        v = q["volumes"][vi]
        qpts = [(v["q_points"][qi][0], [v["q_points"][qi][1][m] for m in mp[qi]]) for qi in qp]
        vols.append(dict(pressure=v["pressure"], volume=v["volume"], energy=v["energy"], q_points=qpts))
    weights = [(q["weights"][qi][0], q["weights"][qi][1] * spec["wscale"]) for qi in qp]
    q2 = dict(q, weights=weights, volumes=vols)
    cp, rp = spec["colperm"], spec["rowperm"]
    e2 = dict(e, keys=[e["keys"][c] for c in cp], prefixes=[spec["prefix"][i] for i in range(len(cp))],
              volumes=[e["volumes"][r] for r in rp], rows=[[e["rows"][r][c] for c in cp] for r in rp],
              lattice=[e["lattice"][r] for r in rp] if e["lattice"] else [])
    return dict(qha=q2, elast=e2)


def fnum(x):
    return repr(float(x))


def elast_text(e):
    pf = e.get("prefixes") or [e.get("prefix", "c")] * len(e["keys"])
    lines = [e.get("header", "V_0 N cellmass presented"), "%s %d %s" % (fnum(e["vref"]), e["nv"], fnum(e["cellmass"]))]
    lines.append("V " + " ".join("%s%s" % (p, k) for p, k in zip(pf, e["keys"])))
    for v, row in zip(e["volumes"], e["rows"]):
        lines.append(fnum(v) + " " + " ".join(fnum(x) for x in row))
    if e["lattice"]:
        lines.append("lattice_a lattice_b lattice_c")
        for a, b, c in e["lattice"]:
            lines.append("%s %s %s" % (fnum(a), fnum(b), fnum(c)))
    return "\n".join(lines) + "\n"


def write_presentation(d, ds, settings):
    import yaml
    d = Path(d)
    d.mkdir(parents=True, exist_ok=True)
    synth.write_qha(d / settings["qha"]["input"], ds["qha"])
    (d / settings["elast"]["input"]).write_text(elast_text(ds["elast"]))
    (d / "settings.yaml").write_text(yaml.safe_dump(settings, sort_keys=False))
    return d / "settings.yaml"


def dir_contents(d, limit=400000):
    out = {}
    for f in sorted(Path(d).iterdir()):
        if f.is_file():
            t = f.read_text()
            out[f.name] = t if len(t) <= limit else "<%d bytes, regenerate from the recipe>" % len(t)
    return out


def dataset_from_example(name):
    """shipped example -> (data set in synth's dict form, settings)"""
    import yaml
    from cij.io.traditional import read_energy
    d = vlib.REPO / "examples" / name
    st = yaml.safe_load((d / "settings.yaml").read_text())
    qi = read_energy(str(d / st["qha"]["input"]))
    qha = dict(nv=qi.nv, nq=qi.nq, np=qi.np, nm=qi.nm, na=qi.na,
               weights=[(tuple(c), w) for c, w in qi.weights],
               volumes=[dict(pressure=v.pressure, volume=v.volume, energy=v.energy,
                             q_points=[(tuple(c), list(m)) for c, m in v.q_points]) for v in qi.volumes])
    lines = (d / st["elast"]["input"]).read_text().splitlines()
    f = lines[1].split()
    vref, nv, cm = float(f[0]), int(f[1]), float(f[2])
    labels = lines[2].split()[1:]
    import re
    keys, prefix = [], None
    for lb in labels:
        m = re.match(r"^(\D*)(\d+)$", lb)
        keys.append(m.group(2))
        prefix = m.group(1)
    rows = [[float(x) for x in lines[3 + i].split()] for i in range(nv)]
    lat = []
    if len(lines) > 3 + nv and lines[3 + nv].strip():
        lat = [tuple(float(x) for x in lines[4 + nv + i].split()) for i in range(nv)]
    elast = dict(vref=vref, nv=nv, cellmass=cm, keys=keys, prefix=prefix, volumes=[r[0] for r in rows],
                 rows=[r[1:] for r in rows], lattice=lat, header=lines[0].strip() or "V_0 N cellmass")
    st.pop("output", None)
    return dict(qha=qha, elast=elast), st


# ---------------------------------------------------------------------------------------------
# observation of the real Calculator
# ---------------------------------------------------------------------------------------------

def kname(key):
    return "%s%s" % tuple(key.v) if isinstance(key.v, tuple) else str(key.v)


def observe_calc(settings_path):
    import cij.core.calculator
    with warnings.catch_warnings(), numpy.errstate(all="ignore"):
        warnings.simplefilter("ignore")
        c = cij.core.calculator.Calculator(str(settings_path))
        out = {}
        for key in c.modulus_keys:
            k = kname(key)
            out["tv.cS_" + k] = numpy.array(c.modulus_adiabatic[key])
            out["tv.cT_" + k] = numpy.array(c.modulus_isothermal[key])
            out["tp.cS_" + k] = numpy.array(c.pressure_base.modulus_adiabatic[key])
            out["tp.cT_" + k] = numpy.array(c.pressure_base.modulus_isothermal[key])
        pb = c.pressure_base
        for nm, attr in (("tp.K_VRH", "bulk_modulus_voigt_reuss_hill"), ("tp.G_VRH", "shear_modulus_voigt_reuss_hill"),
                         ("tp.vp", "primary_velocities"), ("tp.vs", "secondary_velocities"), ("tp.V", "volumes")):
            try:
                out[nm] = numpy.array(getattr(pb, attr))
            except AttributeError:
                out[nm] = None       # average undefined for this key set: must be undefined in every presentation
        out["grid.v"] = numpy.array(c.v_array)
        out["grid.t"] = numpy.array(c.t_array)
        out["grid.p"] = numpy.array(pb.p_array)
    del c, pb
    gc.collect()       # Calculator objects are reference cycles holding GBs for the shipped examples
    return out


def compare(base, other):
    """(max relative difference, quantity, detail); relative to the largest magnitude of the quantity"""
    worst = (0.0, None, None)
    broken = None
    if sorted(base) != sorted(other):
        return (float("inf"), "key set", "quantities %s vs %s" % (sorted(base), sorted(other)))
    for k in sorted(base):
        a, b = base[k], other[k]
        if a is None or b is None:
            if (a is None) != (b is None):
                broken = broken or (k, "defined in one presentation only")
            continue
        if a.shape != b.shape:
            broken = broken or (k, "shape %s vs %s" % (a.shape, b.shape))
            continue
        na, nb = numpy.isnan(a), numpy.isnan(b)
        if (na != nb).any():
            broken = broken or (k, "NaN pattern differs")
        both = ~(na | nb)
        if not both.any():
            continue
        scale = float(numpy.max(numpy.abs(a[both])))
        dif = numpy.where(both, numpy.abs(numpy.where(both, a, 0.0) - numpy.where(both, b, 0.0)), 0.0)
        i = numpy.unravel_index(int(numpy.argmax(dif)), dif.shape)
        rel = float(dif[i]) / scale if scale > 0 else (0.0 if dif[i] == 0 else float("inf"))
        if rel > worst[0]:
            worst = (rel, k, "%s index %s: %.12g vs %.12g (scale %.6g)" % (k, tuple(int(x) for x in i), a[i], b[i], scale))
    if broken:
        return (float("inf"), broken[0], "%s: %s; largest finite difference %.3g relative: %s"
                % (broken[0], broken[1], worst[0], worst[2]))
    return worst


# ---------------------------------------------------------------------------------------------
# the list of re-presentations
# ---------------------------------------------------------------------------------------------

PREFIXES = ["C", "c_", "C_", "cij", "Cij_", "elastic-c"]
KINDS = ["qpoint-order", "mode-order", "weight-scale", "static-column-order", "static-column-case",
         "static-row-order", "volume-order"]


def exact_scales(ds):
    """common factors that survive the %10.6f weight format exactly"""
    ws = [w for _, w in ds["qha"]["weights"]]
    ok = []
    for s in (2.0, 0.5, 3.0, 10.0, 0.25, 7.0, 0.125):
        if all(float("%10.6f" % (w * s)) == w * s and float("%10.6f" % w) == w for w in ws) and max(ws) * s < 9e4:
            ok.append(s)
    return ok


def make_specs(rng, ds, per_kind, volume_orders):
    base = identity_spec(ds)
    nq, np_, nv = ds["qha"]["nq"], ds["qha"]["np"], ds["qha"]["nv"]
    nk, nr = len(ds["elast"]["keys"]), ds["elast"]["nv"]
    specs = []
    for i in range(per_kind):
        if nq >= 3 or (nq == 2 and False):
            specs.append(("qpoint-order", dict(base, qperm=rand_perm(rng, nq, 1))))
        specs.append(("mode-order", dict(base, mperm=[rand_perm(rng, np_, 3 if qi == 0 else 0) for qi in range(nq)])))
        sc = exact_scales(ds)
        if sc:
            specs.append(("weight-scale", dict(base, wscale=sc[i % len(sc)])))
        specs.append(("static-column-order", dict(base, colperm=rand_perm(rng, nk))))
        specs.append(("static-column-case", dict(base, prefix=[rng.choice(PREFIXES) for _ in range(nk)] if i % 2
                                                 else [PREFIXES[(i // 2) % len(PREFIXES)]] * nk)))
        specs.append(("static-row-order", dict(base, rowperm=rand_perm(rng, nr) if i else list(reversed(range(nr))))))
    for i in range(volume_orders):
        vp = list(reversed(range(nv))) if i == 0 else rand_perm(rng, nv)
        specs.append(("volume-order", dict(base, vperm=vp)))
        if i == 0:   # whole data set ascending: phonon blocks, static rows and lattice rows reversed together
            specs.append(("volume-order", dict(base, vperm=vp, rowperm=list(reversed(range(nr))))))
    return specs


def spec_diff(spec, base):
    return {k: v for k, v in spec.items() if v != base[k]}


@contextlib.contextmanager
def exact_task_identity():
    """diagnosis only: identify phonon-contribution tasks by exact equality of their strain fractions instead of
    numpy.allclose (tasks.py PhononContributionTaskParams.__eq__)"""
    import cij.core.tasks as TK
    from cij.util import ElasticModulusCalculationType as ET
    P = TK.PhononContributionTaskParams
    old = P.__eq__

    def eq(self, other):
        if self.calc_type != other.calc_type:
            return False
        if self.calc_type == ET.SHEAR:
            return self.params[1] == other.params[1] and numpy.array_equal(self.params[0], other.params[0])
        return all(numpy.array_equal(a, b) for a, b in zip(self.params, other.params))
    P.__eq__ = eq
    try:
        yield
    finally:
        P.__eq__ = old


def degenerate_lattice_dataset(rng, eps=8e-6):
    """axial strain fractions e2 and e3 differ by eps relative (< the allclose tolerance of the task identity)"""
    ds = synth.make_dataset(rng, nv=6, nq=3, na=2)
    v0 = ds["elast"]["volumes"][1]
    ds["elast"]["lattice"] = [(4.8 * math.exp(0.36 * math.log(v / v0)), 5.1 * math.exp(0.32 * math.log(v / v0)),
                               7.3 * math.exp(0.32 * (1 + eps) * math.log(v / v0))) for v in ds["elast"]["volumes"]]
    return ds


def calc_stage(ctx, rd, name, ds, settings, specs, inline=True, guard_cases=None):
    """baseline = identity presentation written by the same writers; every spec is one more Calculator run"""
    base_spec = identity_spec(ds)
    d0 = rd / ("calc_%s" % name) / "base"
    t0 = time.time()
    base = observe_calc(write_presentation(d0, apply_spec(ds, base_spec), settings))
    guard_cases = guard_cases if guard_cases is not None else []
    guard_cases.append(([v["volume"] for v in ds["qha"]["volumes"]], True, True))
    ctx.extra.setdefault("calculator_seconds", {})[name] = [round(time.time() - t0, 2)]
    worst_by_kind = ctx.extra.setdefault("worst_rel_diff_by_kind", {})
    for si, (kind, spec) in enumerate(specs):
        d = rd / ("calc_%s" % name) / ("p%02d_%s" % (si, kind))
        t0 = time.time()
        sp = write_presentation(d, apply_spec(ds, spec), settings)
        recipe = dict(data_set=name, kind=kind, presentation=spec_diff(spec, base_spec),
                      note="position i of the new presentation holds old item perm[i]")
        if inline:
            recipe["files"] = dir_contents(d)
            recipe["baseline_files"] = dir_contents(d0)
        else:
            recipe["source"] = "shipped example %s re-written by tools/props/c13.py (dataset_from_example/apply_spec)" % name
        try:
            got = observe_calc(sp)
            raised = None
        except Exception as ex:          # noqa: BLE001 - any rejection counts
            got, raised = None, "%s: %s" % (type(ex).__name__, str(ex)[:200])
        ctx.extra["calculator_seconds"][name].append(round(time.time() - t0, 2))
        ctx.case(dict(ds=name, kind=kind, spec=spec_diff(spec, base_spec)), nontrivial=bool(spec_diff(spec, base_spec)))
        if kind == "volume-order":
            pv = [ds["qha"]["volumes"][vi]["volume"] for vi in spec["vperm"]]
            guard_cases.append((pv, raised is None, raised is None and compare(base, got)[0] <= RTOL_CALC))
            if raised:
                ctx.count("volume-order: rejected with an error")
                ctx.sample(dict(data_set=name, kind=kind, presentation=spec_diff(spec, base_spec), outcome=raised))
                continue
            rel, q, detail = compare(base, got)
            if rel <= RTOL_CALC:
                ctx.count("volume-order: accepted, same numbers")
                continue
            ctx.count("volume-order: accepted, DIFFERENT numbers")
            ctx.failure("volume-order-different-numbers",
                        "volume blocks of the phonon file listed in another order are accepted by Calculator and give "
                        "different numbers: %s differs by %.3g relative (%s)" % (q, rel, detail),
                        input=recipe, expected="same results (<= 1e-8 relative) or an error", observed=detail)
            continue
        ctx.count("%s" % kind)
        if raised:
            ctx.failure(kind + "-raises", "Calculator accepts the data set but rejects its re-presentation (%s): %s"
                        % (kind, raised), input=recipe, expected="same results as the baseline presentation",
                        observed=raised)
            continue
        rel, q, detail = compare(base, got)
        worst_by_kind[kind] = max(worst_by_kind.get(kind, 0.0), rel)
        ctx.sample(dict(data_set=name, kind=kind, presentation=spec_diff(spec, base_spec), max_rel_diff=rel,
                        worst_quantity=q))
        if not rel <= RTOL_CALC:
            key, why = kind, ""
            if kind == "static-column-order":
                try:
                    with exact_task_identity():
                        rel2 = compare(observe_calc(d0 / "settings.yaml"), observe_calc(sp))[0]
                except Exception:      # noqa: BLE001
                    rel2 = float("inf")
                if rel2 <= RTOL_CALC:
                    key = "column-order-task-merge-tolerance"
                    why = (" [diagnosis: with tasks identified by exact equality of the strain fractions instead of "
                           "numpy.allclose (tasks.py PhononContributionTaskParams.__eq__) the difference is %.3g: "
                           "which of two nearly-equal tasks is computed depends on the column order]" % rel2)
            ctx.failure(key, "re-presenting the same data (%s) changes the results: %s differs by %.3g relative (%s)%s"
                        % (kind, q, rel, detail, why), input=recipe, expected="max relative difference <= 1e-8",
                        observed=detail)


# ---------------------------------------------------------------------------------------------
# (a) duck-typed runs of the contribution classes
# ---------------------------------------------------------------------------------------------

DUCK_EXTRA = r"""
Definition cl12 (s : float) := close 0x1.19799812dea11p-40 (0x1.19799812dea11p-40 * s + 0x1p-150). (* 1e-12 rel *)
Definition obs_same (a b : case) : bool :=
  let s := maxabs (o_iso a) in
  all_close (cl12 s) (o_zp a) (o_zp b) && all_close2 (cl12 s) (o_th a) (o_th b) &&
  all_close2 (cl12 s) (o_iso a) (o_iso b) && all_close2 (cl12 (maxabs (o_gap a))) (o_gap a) (o_gap b) &&
  all_close2 (cl12 (maxabs (o_adi a))) (o_adi a) (o_adi b).
Definition model_same (Q1 Q2 : float -> float) (a b : case) : bool :=
  let s := maxabs (o_iso a) in
  all_close (cl12 s) (tab_zero_point (K a) (lg a) (G a)) (tab_zero_point (K b) (lg b) (G b)) &&
  all_close2 (cl12 s) (tab_thermal (K a) Q1 Q2 (lg a) (G a)) (tab_thermal (K b) Q1 Q2 (lg b) (G b)) &&
  all_close2 (cl12 s) (tab_isothermal (K a) Q1 Q2 (lg a) (G a)) (tab_isothermal (K b) Q1 Q2 (lg b) (G b)) &&
  all_close2 (cl12 (maxabs (o_gap a))) (tab_gap (K a) Q2 (G a)) (tab_gap (K b) Q2 (G b)).
"""


def duck_represent(c, qperm, mperm, wscale):
    c2 = dict(c)
    for k in ("freq", "gam", "vdr"):
        a = numpy.array(c[k])
        c2[k] = numpy.stack([a[:, qi, :][:, mperm[qi]] for qi in qperm], axis=1)
    c2["weights"] = [c["weights"][qi] * wscale for qi in qperm]
    return c2


def duck_specs(rng, c):
    nq, np_ = c["nq"], c["np"]
    ident = dict(qperm=list(range(nq)), mperm=[list(range(np_)) for _ in range(nq)], wscale=1.0)
    out = [("mode-order", dict(ident, mperm=[rand_perm(rng, np_, 3 if qi == 0 else 0) for qi in range(nq)])),
           ("weight-scale", dict(ident, wscale=rng.choice([2.0, 0.5, 3.0, 1.0 / 7, rng.uniform(0.05, 40.0)]))),
           # "all positive weight scale factors": also factors that make the weights very small / very large, and
           # factors that put an absolute threshold (1e-8, 1e-12, 1e-5) BETWEEN the smallest and the largest weight
           ("weight-scale", dict(ident, wscale=10.0 ** rng.uniform(-14.0, 8.0)))]
    ws = [abs(w) for w in c["weights"]]
    if min(ws) < max(ws):
        thr = rng.choice([1e-8, 1e-8, 1e-12, 1e-5])
        out.append(("weight-scale", dict(ident, wscale=thr / math.sqrt(min(ws) * max(ws)))))
    if nq >= 3:
        out.append(("qpoint-order", dict(ident, qperm=rand_perm(rng, nq, 1))))
        out.append(("combined", dict(qperm=rand_perm(rng, nq, 1), wscale=rng.uniform(0.05, 40.0),
                                     mperm=[rand_perm(rng, np_, 3 if qi == 0 else 0) for qi in range(nq)])))
    return out


def duck_stage(ctx, rd, n):
    rng = ctx.rng
    H.reload_impl()
    consts = H.impl_constants()
    pairs, meta = [], []
    worst = ctx.extra.setdefault("duck_worst_rel_diff_by_kind", {})
    for i in range(n):
        c = H.make_case(rng, nq=rng.choice([1, 2, 3, 4, 5]), generic=(i % 4 != 0))
        for kind, spec in duck_specs(rng, c):
            c2 = duck_represent(c, **spec)
            lg = rng.random() < 0.5
            try:
                o1, o2 = H.observe(c, lg), H.observe(c2, lg)
            except Exception as ex:     # noqa: BLE001
                ctx.failure(kind + "-raises", "contribution class raised %s: %s" % (type(ex).__name__, ex),
                            input=dict(kind=kind, presentation=spec, nq=c["nq"], np=c["np"]))
                continue
            ctx.case(dict(duck=True, kind=kind, spec=spec, lg=lg, freq=c["freq"], w=c["weights"], t=c["temps"]),
                     nontrivial=True)
            ctx.count("duck: " + kind)
            ctx.count("duck: nq=%d" % c["nq"])
            pairs.append("(%s,\n %s)" % (H.coq_case(c, lg, o1, consts), H.coq_case(c2, lg, o2, consts)))
            meta.append((kind, spec, c, c2, lg, o1, o2))
            # search stage: the differential comparison itself, in Python
            for part in ("zp", "th", "iso", "gap", "adi"):
                a, b = numpy.asarray(o1[part], float), numpy.asarray(o2[part], float)
                scale = float(numpy.nanmax(numpy.abs(numpy.asarray(o1["iso" if part in ("zp", "th", "iso") else part], float))))
                bad = (numpy.isnan(a) != numpy.isnan(b)).any()
                dif = float(numpy.nanmax(numpy.abs(a - b))) if a.size else 0.0
                rel = dif / scale if scale > 0 else (0.0 if dif == 0 else float("inf"))
                worst[kind] = max(worst.get(kind, 0.0), rel)
                if bad or not rel <= RTOL_DUCK:
                    ctx.failure(kind if kind != "combined" else "duck-combined",
                                "%s contribution object: %s changes under re-presentation (%s) by %.3g relative"
                                % ("longitudinal" if lg else "off-diagonal", part, kind, rel),
                                input=dict(kind=kind, presentation=spec, longitudinal=lg, temps=c["temps"], vols=c["vols"],
                                           weights=c["weights"], freq=c["freq"], gam=c["gam"], vdr=c["vdr"],
                                           ei=c["ei"], ej=c["ej"], P=c["P"], Pst=c["Pst"], cv=c["cv"], na=c["na"],
                                           note="re-presented arrays = arr[:, qperm][..., mperm[q]], weights[qperm]*wscale"),
                                expected=a.tolist(), observed=b.tolist())
                    break
    files = []
    per = 12
    for si in range(0, len(pairs), per):
        txt = H.HEADER + DUCK_EXTRA + "\nDefinition pairs : list (case * case) := [\n" + ";\n".join(pairs[si:si + per]) + \
            "].\nLocal Close Scope float_scope.\n" \
            "Eval vm_compute in (failing (fun p => chk Q1_neg Q2_neg (fst p)) pairs).\n" \
            "Eval vm_compute in (failing (fun p => chk Q1_neg Q2_neg (snd p)) pairs).\n" \
            "Eval vm_compute in (failing (fun p => obs_same (fst p) (snd p)) pairs).\n" \
            "Eval vm_compute in (failing (fun p => model_same Q1_neg Q2_neg (fst p) (snd p)) pairs).\n"
        files.append(write(rd / ("cases_duck_%02d.v" % (si // per)), txt))
    res = ctx.run_shards(files, label="duck tie (model = impl on both presentations; impl and model invariant)")
    names = ["model<>impl on baseline", "model<>impl on re-presentation", "impl differs between presentations",
             "float model differs between presentations"]
    for fi, f in enumerate(files):
        ok, fl, out = res[f]
        for li, lst in enumerate(fl):
            for i in lst:
                gi = fi * per + i
                if 0 <= gi < len(meta):
                    ctx.extra.setdefault("duck_shard_failures", []).append(
                        dict(pair=gi, kind=meta[gi][0], what=names[li] if li < 4 else "?"))
    failing_pairs = [d["pair"] for d in ctx.extra.get("duck_shard_failures", [])]
    avg_oracle(ctx, meta, failing_pairs + list(range(0, len(meta), max(1, len(meta) // 4))))
    for kind, spec, c, c2, lg, o1, o2 in meta[:2]:
        ctx.sample(dict(stage="duck", kind=kind, presentation=spec, longitudinal=lg, weights=c["weights"],
                        zero_point=numpy.asarray(o1["zp"]).tolist(), zero_point_represented=numpy.asarray(o2["zp"]).tolist()))


def avg_oracle(ctx, meta, idxs):
    """independent oracle for the mechanism named by the property ("weights normalised inside the weighted
    average", Gamma-acoustic mask): exact rational arithmetic against nonshear.average_over_modes"""
    from fractions import Fraction
    import cij.core.phonon_contribution.nonshear as NS
    seen = 0
    for gi in idxs:
        if not 0 <= gi < len(meta) or seen >= 6:
            continue
        seen += 1
        kind, spec, c, c2, lg, o1, o2 = meta[gi]
        for cc in (c, c2):
            x = numpy.array(cc["gam"])[0]                     # [nq][np] at the first volume
            w = list(cc["weights"])
            got = float(NS.average_over_modes(x.copy(), numpy.array(w)))
            tot = sum(Fraction(wq) for wq in w)
            want = sum(Fraction(wq) * sum(Fraction(float(x[q][m])) for m in range(x.shape[1]) if not (q == 0 and m < 3))
                       / x.shape[1] for q, wq in enumerate(w)) / tot
            scale = max(abs(float(want)), float(numpy.max(numpy.abs(x))) * 1e-3)
            if not abs(got - float(want)) <= 1e-12 * scale:
                ctx.failure("average-over-modes",
                            "average_over_modes(X, w) is %.15g; the weight-normalised mean over q of the mode means "
                            "(Gamma-acoustic entries excluded) is %.15g" % (got, float(want)),
                            input=dict(X=x.tolist(), weights=w), expected=float(want), observed=got)
                return


def guard_shard(ctx, rd, guard_cases):
    """accepted volume lists satisfy the modelled guard (or, on an unguarded tree, gave the same numbers)"""
    if not guard_cases:
        return
    body = ";\n".join("(%s, %s, %s)" % (flist(v), vlib.blit(acc), vlib.blit(same)) for v, acc, same in guard_cases)
    txt = ("From Coq Require Import List Bool PrimFloat.\nFrom Cij Require Import Ops FOps PermModel.\nImport ListNotations.\n"
           "Local Open Scope float_scope.\nDefinition cases : list (list float * bool * bool) := [\n%s].\n"
           "Local Close Scope float_scope.\n"
           "Definition chk (c : list float * bool * bool) : bool :=\n"
           "  let '(v, acc, same) := c in if acc then mono_dec v || same else true.\n"
           "Eval vm_compute in (failing chk cases).\n" % body)
    f = write(rd / "cases_guard.v", txt)
    ctx.run_shards([f], label="volume-order guard (accepted => volumes weakly decreasing, or same numbers)")



def replay_stage(ctx, rd, fi):
    """./check C13 --replay file: re-run one recorded Calculator comparison from its inlined directory contents"""
    inp = fi.get("input") or {}
    if "files" not in inp or "baseline_files" not in inp:
        return False
    paths = {}
    for tag, files in (("base", inp["baseline_files"]), ("presented", inp["files"])):
        d = rd / "replay" / tag
        d.mkdir(parents=True, exist_ok=True)
        for name, text in files.items():
            (d / name).write_text(text)
        paths[tag] = d / "settings.yaml"
    base = observe_calc(paths["base"])
    try:
        got, raised = observe_calc(paths["presented"]), None
    except Exception as ex:      # noqa: BLE001
        got, raised = None, "%s: %s" % (type(ex).__name__, str(ex)[:200])
    ctx.case(dict(replay=fi.get("key")))
    kind = inp.get("kind", "?")
    if raised:
        if kind != "volume-order":
            ctx.failure(fi["key"], "replay: re-presentation rejected: " + raised, input=inp, observed=raised)
        return True
    rel, q, detail = compare(base, got)
    if not rel <= RTOL_CALC:
        ctx.failure(fi["key"], "replay: %s differs by %.3g relative (%s)" % (q, rel, detail), input=inp,
                    expected="max relative difference <= 1e-8", observed=detail)
    return True



def small_settings(nt=4, ntv=12, interp="lsq_poly", order=2, system="triclinic"):
    return synth.default_settings(
        qha=dict(settings=dict(NT=nt, NTV=ntv)),
        elast=dict(settings=dict(mode_gamma=dict(interpolator=interp, order=order), symmetry=dict(system=system))))


def run(ctx):
    rd = ctx.fresh_run_dir()
    logging.disable(logging.CRITICAL)
    rng = ctx.rng
    ctx.rule = ("(b) real Calculator on re-presented copies (q-points >= 1 permuted with weights, modes permuted "
                "consistently over volumes - at Gamma only modes >= 3 -, weights x exact common factor, static columns "
                "permuted / re-labelled with other digit-free prefixes and case, static rows permuted with lattice rows, "
                "phonon volume blocks reversed/shuffled) of synthetic sets (nv 5-7, nq 3-4, 6 modes, lsq_poly/spline) "
                "and (thorough) of examples akimotoite and diopside; non-trivial = presentation differs from baseline")
    ctx.trusted += ["re-presented files are written by cij's own write_energy and a plain-text static-table writer "
                    "(repr floats); the baseline is the identity presentation written by the same writers"]
    quick = ctx.tier == "quick"
    ctx.rule = ("(a) duck-typed Longitudinal/OffDiagonal objects (nonshear_harness: 1-5 q-points, 3/6/9 modes, garbage in the "
                "Gamma-acoustic slots, unequal weights) re-presented by mode permutations, q-point(+weight) permutations, "
                "weight factors in (0.05,40), 1e-14..1e8 and factors placing 1e-5/1e-8/1e-12 between the smallest and largest weight, and combinations; ") + ctx.rule
    ctx.trusted += ["IEEE rounding: 1e-12 relative between presentations of one contribution object, 8e-9 model vs "
                    "implementation (as C01), 1e-8 between Calculator runs (measured worst values in the evidence)",
                    "QHA (qha 1.1.3: free energy, grid refinement, v2p) and scipy/numpy fits are exercised by the "
                    "differential Calculator runs, not modelled"]
    ctx.partial += ["static fit / key parsing / column map / volume guard theorems are tied to the code by the "
                    "differential Calculator runs (and the guard shard), not by a translated model",
                    "the harmonic free energy F_ph of the spectrum and its V- and T-derivatives (sources of P, C_V, dP/dT) are PROVED presentation independent (free_energy_*, pressure_and_heat_capacity_sources_*); that qha 1.1.3 computes these quantities (numerical derivatives on its grids, v2p) in a presentation-independent way is measured only"]
    shutil.copy(PROPS / "Prop_C13.v", rd / "Prop_C13.v")
    ctx.prove(rd / "Prop_C13.v", "Prop_C13.v (presentation-invariance theorems over R)", "theorem-file", timeout=1800)

    fi = (getattr(ctx, "replay_in", None) or {}).get("failing_input")
    if fi and replay_stage(ctx, rd, fi):
        return

    duck_stage(ctx, rd, 12 if quick else 80)

    guard_cases = []
    nsets = 2 if quick else 5
    for si in range(nsets):
        ds = synth.make_dataset(rng, nv=rng.choice([5, 6, 7]), nq=rng.choice([3, 4]), na=2,
                                spectrum=rng.choice(["powerlaw", "curved"]))
        interp, order = (("lsq_poly", 2) if si % 2 == 0 else ("spline", 3))
        st = small_settings(interp=interp, order=order)
        specs = make_specs(rng, ds, per_kind=1 if quick else 3, volume_orders=1 if quick else 3)
        calc_stage(ctx, rd, "synthetic%d" % si, ds, st, specs, guard_cases=guard_cases)
    # volume-order probe with the node-subsampling interpolators (lagrange/krogh pick every k-th volume in FILE order,
    # so an implementation that accepts re-listed blocks is most likely to give other numbers here)
    for interp in (("lagrange", "krogh") if not quick else (rng.choice(["lagrange", "krogh"]),)):
        nv = rng.choice([6, 7])
        ds = synth.make_dataset(rng, nv=nv, nq=3, na=2, spectrum="wiggly")
        base = identity_spec(ds)
        vps = [list(reversed(range(nv)))] + [rand_perm(rng, nv) for _ in range(2 if quick else 5)]
        calc_stage(ctx, rd, "subsampled_%s" % interp, ds, small_settings(interp=interp, order=3),
                   [("volume-order", dict(base, vperm=vp)) for vp in vps], guard_cases=guard_cases)
    # probe: two branches of a q-point coincide at the FIRST listed volume only (a crossing / an accidental equality at
    # file precision) and are listed next to each other; swapping exactly those two must change nothing
    ds = synth.make_dataset(rng, nv=6, nq=3, na=2, spectrum="curved")
    base = identity_spec(ds)
    pairs = []
    for qi in range(3):
        k = rng.randrange(4, ds["qha"]["np"])
        fr0 = ds["qha"]["volumes"][0]["q_points"][qi][1]
        fr0[k] = fr0[k - 1]
        pairs.append(k)
    swaps = []
    for qi, k in enumerate(pairs):
        mp = [list(range(ds["qha"]["np"])) for _ in range(3)]
        mp[qi][k - 1], mp[qi][k] = k, k - 1
        swaps.append(("mode-order", dict(base, mperm=mp)))
    mp = [list(range(ds["qha"]["np"])) for _ in range(3)]
    for qi, k in enumerate(pairs):
        mp[qi][k - 1], mp[qi][k] = k, k - 1
    swaps.append(("mode-order", dict(base, mperm=mp)))
    calc_stage(ctx, rd, "coincident_branches", ds, small_settings(interp="lsq_poly", order=3), swaps,
               guard_cases=guard_cases)
    ctx.count("probe: branches coinciding at the first listed volume, swapped")
    # probe: nearly (not exactly) equal axial strain fractions e2, e3
    ds = degenerate_lattice_dataset(rng)
    base = identity_spec(ds)
    calc_stage(ctx, rd, "near_degenerate_lattice", ds, small_settings(),
               [("static-column-order", dict(base, colperm=[0, 1, 2, 4, 3, 5, 6, 7, 8])),
                ("static-column-order", dict(base, colperm=rand_perm(rng, 9))),
                ("static-row-order", dict(base, rowperm=rand_perm(rng, 6)))], guard_cases=guard_cases)
    if not quick:
        for name in ("akimotoite", "diopside"):
            ds, st = dataset_from_example(name)
            specs = make_specs(rng, ds, per_kind=1, volume_orders=1)
            calc_stage(ctx, rd, name, ds, st, specs, inline=False, guard_cases=guard_cases)
    guard_shard(ctx, rd, guard_cases)
