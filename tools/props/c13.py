"""C13 - results do not depend on how the same physical data are presented.

(a) duck-typed runs of the real Longitudinal/OffDiagonal contribution classes on re-presented inputs
    (q-points >= 1 permuted with their weights, modes permuted consistently across volumes, weights scaled):
    outputs of both presentations and the float model on both presentations are compared inside Coq.
(b) the real Calculator on re-presented copies of synthetic data sets (and, thorough, of the shipped examples).
The differential run is the oracle of the search stage.
"""
import copy
import logging
import shutil
import time
import warnings
from pathlib import Path

import numpy

import vlib
from vlib import PROPS, write, fhex, flist, zlist
import nonshear_harness as H
import synth

RTOL_CALC = 1e-8        # property: "unchanged to rounding" for the full pipeline
RTOL_DUCK = 1e-12       # one contribution object


# ---------------------------------------------------------------------------------------------
# presentations of one data set
# ---------------------------------------------------------------------------------------------

def rand_perm(rng, n, fixed=0):
    """random permutation of range(n) that fixes the first `fixed` slots and is not the identity if possible"""
    idx = list(range(fixed, n))
    if len(idx) < 2:
        return list(range(n))
    for _ in range(20):
        p = idx[:]
        rng.shuffle(p)
        if p != idx:
            break
    return list(range(fixed)) + p


def identity_spec(ds):
    nq, np_, nv = ds["qha"]["nq"], ds["qha"]["np"], ds["qha"]["nv"]
    nk = len(ds["elast"]["keys"])
    return dict(qperm=list(range(nq)), mperm=[list(range(np_)) for _ in range(nq)], wscale=1.0,
                colperm=list(range(nk)), prefix=[ds["elast"].get("prefix", "c")] * nk,
                rowperm=list(range(ds["elast"]["nv"])), vperm=list(range(nv)))


def apply_spec(ds, spec):
    """new data set: position i of the new presentation holds old item perm[i]"""
    q, e = ds["qha"], ds["elast"]
    qp, mp, vp = spec["qperm"], spec["mperm"], spec["vperm"]
    assert qp[0] == 0 and all(m[:3] == [0, 1, 2] for m in mp[:1])
    vols = []
    for vi in vp:
        v = q["volumes"][vi]
        qpts = [(v["q_points"][qi][0], [v["q_points"][qi][1][m] for m in mp[qi]]) for qi in qp]
        vols.append(dict(pressure=v["pressure"], volume=v["volume"], energy=v["energy"], q_points=qpts))
    weights = [(q["weights"][qi][0], q["weights"][qi][1] * spec["wscale"]) for qi in qp]
    q2 = dict(q, weights=weights, volumes=vols)
    cp, rp = spec["colperm"], spec["rowperm"]
    e2 = dict(e, keys=[e["keys"][c] for c in cp], prefixes=[spec["prefix"][i] for i in range(len(cp))],
              volumes=[e["volumes"][r] for r in rp], rows=[[e["rows"][r][c] for c in cp] for r in rp],
              lattice=[e["lattice"][r] for r in rp] if e["lattice"] else [])
    return dict(qha=q2, elast=e2)


def fnum(x):
    return repr(float(x))


def elast_text(e):
    pf = e.get("prefixes") or [e.get("prefix", "c")] * len(e["keys"])
    lines = [e.get("header", "V_0 N cellmass presented"), "%s %d %s" % (fnum(e["vref"]), e["nv"], fnum(e["cellmass"]))]
    lines.append("V " + " ".join("%s%s" % (p, k) for p, k in zip(pf, e["keys"])))
    for v, row in zip(e["volumes"], e["rows"]):
        lines.append(fnum(v) + " " + " ".join(fnum(x) for x in row))
    if e["lattice"]:
        lines.append("lattice_a lattice_b lattice_c")
        for a, b, c in e["lattice"]:
            lines.append("%s %s %s" % (fnum(a), fnum(b), fnum(c)))
    return "\n".join(lines) + "\n"


def write_presentation(d, ds, settings):
    import yaml
    d = Path(d)
    d.mkdir(parents=True, exist_ok=True)
    synth.write_qha(d / settings["qha"]["input"], ds["qha"])
    (d / settings["elast"]["input"]).write_text(elast_text(ds["elast"]))
    (d / "settings.yaml").write_text(yaml.safe_dump(settings, sort_keys=False))
    return d / "settings.yaml"


def dir_contents(d, limit=400000):
    out = {}
    for f in sorted(Path(d).iterdir()):
        if f.is_file():
            t = f.read_text()
            out[f.name] = t if len(t) <= limit else "<%d bytes, regenerate from the recipe>" % len(t)
    return out


def dataset_from_example(name):
    """shipped example -> (data set in synth's dict form, settings)"""
    import yaml
    from cij.io.traditional import read_energy
    d = vlib.REPO / "examples" / name
    st = yaml.safe_load((d / "settings.yaml").read_text())
    qi = read_energy(str(d / st["qha"]["input"]))
    qha = dict(nv=qi.nv, nq=qi.nq, np=qi.np, nm=qi.nm, na=qi.na,
               weights=[(tuple(c), w) for c, w in qi.weights],
               volumes=[dict(pressure=v.pressure, volume=v.volume, energy=v.energy,
                             q_points=[(tuple(c), list(m)) for c, m in v.q_points]) for v in qi.volumes])
    lines = (d / st["elast"]["input"]).read_text().splitlines()
    f = lines[1].split()
    vref, nv, cm = float(f[0]), int(f[1]), float(f[2])
    labels = lines[2].split()[1:]
    import re
    keys, prefix = [], None
    for lb in labels:
        m = re.match(r"^(\D*)(\d+)$", lb)
        keys.append(m.group(2))
        prefix = m.group(1)
    rows = [[float(x) for x in lines[3 + i].split()] for i in range(nv)]
    lat = []
    if len(lines) > 3 + nv and lines[3 + nv].strip():
        lat = [tuple(float(x) for x in lines[4 + nv + i].split()) for i in range(nv)]
    elast = dict(vref=vref, nv=nv, cellmass=cm, keys=keys, prefix=prefix, volumes=[r[0] for r in rows],
                 rows=[r[1:] for r in rows], lattice=lat, header=lines[0].strip() or "V_0 N cellmass")
    st.pop("output", None)
    return dict(qha=qha, elast=elast), st


# ---------------------------------------------------------------------------------------------
# observation of the real Calculator
# ---------------------------------------------------------------------------------------------

def kname(key):
    return "%s%s" % tuple(key.v) if isinstance(key.v, tuple) else str(key.v)


def observe_calc(settings_path):
    import cij.core.calculator
    with warnings.catch_warnings(), numpy.errstate(all="ignore"):
        warnings.simplefilter("ignore")
        c = cij.core.calculator.Calculator(str(settings_path))
        out = {}
        for key in c.modulus_keys:
            k = kname(key)
            out["tv.cS_" + k] = numpy.array(c.modulus_adiabatic[key])
            out["tv.cT_" + k] = numpy.array(c.modulus_isothermal[key])
            out["tp.cS_" + k] = numpy.array(c.pressure_base.modulus_adiabatic[key])
            out["tp.cT_" + k] = numpy.array(c.pressure_base.modulus_isothermal[key])
        pb = c.pressure_base
        for nm, attr in (("tp.K_VRH", "bulk_modulus_voigt_reuss_hill"), ("tp.G_VRH", "shear_modulus_voigt_reuss_hill"),
                         ("tp.vp", "primary_velocities"), ("tp.vs", "secondary_velocities"), ("tp.V", "volumes")):
            try:
                out[nm] = numpy.array(getattr(pb, attr))
            except AttributeError:
                out[nm] = None       # average undefined for this key set: must be undefined in every presentation
        out["grid.v"] = numpy.array(c.v_array)
        out["grid.t"] = numpy.array(c.t_array)
        out["grid.p"] = numpy.array(pb.p_array)
    return out


def compare(base, other):
    """(max relative difference, quantity, detail) ; relative to the largest magnitude of the quantity"""
    worst = (0.0, None, None)
    if sorted(base) != sorted(other):
        return (float("inf"), "key set", "quantities %s vs %s" % (sorted(base), sorted(other)))
    for k in sorted(base):
        a, b = base[k], other[k]
        if a is None or b is None:
            if (a is None) != (b is None):
                return (float("inf"), k, "defined in one presentation only")
            continue
        if a.shape != b.shape:
            return (float("inf"), k, "shape %s vs %s" % (a.shape, b.shape))
        na, nb = numpy.isnan(a), numpy.isnan(b)
        if (na != nb).any():
            return (float("inf"), k, "NaN pattern differs")
        if na.all():
            continue
        scale = float(numpy.nanmax(numpy.abs(a)))
        dif = numpy.where(na, 0.0, numpy.abs(numpy.where(na, 0.0, a) - numpy.where(nb, 0.0, b)))
        i = numpy.unravel_index(int(numpy.argmax(dif)), dif.shape)
        rel = float(dif[i]) / scale if scale > 0 else (0.0 if dif[i] == 0 else float("inf"))
        if rel > worst[0]:
            worst = (rel, k, "index %s: %.12g vs %.12g (scale %.6g)" % (tuple(int(x) for x in i), a[i], b[i], scale))
    return worst


# ---------------------------------------------------------------------------------------------
# the list of re-presentations
# ---------------------------------------------------------------------------------------------

PREFIXES = ["C", "c_", "C_", "cij", "Cij_", "elastic-c"]
KINDS = ["qpoint-order", "mode-order", "weight-scale", "static-column-order", "static-column-case",
         "static-row-order", "volume-order"]


def exact_scales(ds):
    """common factors that survive the %10.6f weight format exactly"""
    ws = [w for _, w in ds["qha"]["weights"]]
    ok = []
    for s in (2.0, 0.5, 3.0, 10.0, 0.25, 7.0, 0.125):
        if all(float("%10.6f" % (w * s)) == w * s and float("%10.6f" % w) == w for w in ws) and max(ws) * s < 9e4:
            ok.append(s)
    return ok


def make_specs(rng, ds, per_kind, volume_orders):
    base = identity_spec(ds)
    nq, np_, nv = ds["qha"]["nq"], ds["qha"]["np"], ds["qha"]["nv"]
    nk, nr = len(ds["elast"]["keys"]), ds["elast"]["nv"]
    specs = []
    for i in range(per_kind):
        if nq >= 3 or (nq == 2 and False):
            specs.append(("qpoint-order", dict(base, qperm=rand_perm(rng, nq, 1))))
        specs.append(("mode-order", dict(base, mperm=[rand_perm(rng, np_, 3 if qi == 0 else 0) for qi in range(nq)])))
        sc = exact_scales(ds)
        if sc:
            specs.append(("weight-scale", dict(base, wscale=sc[i % len(sc)])))
        specs.append(("static-column-order", dict(base, colperm=rand_perm(rng, nk))))
        specs.append(("static-column-case", dict(base, prefix=[rng.choice(PREFIXES) for _ in range(nk)] if i % 2
                                                 else [PREFIXES[(i // 2) % len(PREFIXES)]] * nk)))
        specs.append(("static-row-order", dict(base, rowperm=rand_perm(rng, nr) if i else list(reversed(range(nr))))))
    for i in range(volume_orders):
        vp = list(reversed(range(nv))) if i == 0 else rand_perm(rng, nv)
        specs.append(("volume-order", dict(base, vperm=vp)))
        if i == 0:   # whole data set ascending: phonon blocks, static rows and lattice rows reversed together
            specs.append(("volume-order", dict(base, vperm=vp, rowperm=list(reversed(range(nr))))))
    return specs


def spec_diff(spec, base):
    return {k: v for k, v in spec.items() if v != base[k]}


def calc_stage(ctx, rd, name, ds, settings, specs, inline=True):
    """baseline = identity presentation written by the same writers; every spec is one more Calculator run"""
    base_spec = identity_spec(ds)
    d0 = rd / ("calc_%s" % name) / "base"
    t0 = time.time()
    base = observe_calc(write_presentation(d0, apply_spec(ds, base_spec), settings))
    ctx.extra.setdefault("calculator_seconds", {})[name] = [round(time.time() - t0, 2)]
    worst_by_kind = ctx.extra.setdefault("worst_rel_diff_by_kind", {})
    for si, (kind, spec) in enumerate(specs):
        d = rd / ("calc_%s" % name) / ("p%02d_%s" % (si, kind))
        t0 = time.time()
        sp = write_presentation(d, apply_spec(ds, spec), settings)
        recipe = dict(data_set=name, kind=kind, presentation=spec_diff(spec, base_spec),
                      note="position i of the new presentation holds old item perm[i]")
        if inline:
            recipe["files"] = dir_contents(d)
            recipe["baseline_files"] = dir_contents(d0)
        else:
            recipe["source"] = "shipped example %s re-written by tools/props/c13.py (dataset_from_example/apply_spec)" % name
        try:
            got = observe_calc(sp)
            raised = None
        except Exception as ex:          # noqa: BLE001 - any rejection counts
            got, raised = None, "%s: %s" % (type(ex).__name__, str(ex)[:200])
        ctx.extra["calculator_seconds"][name].append(round(time.time() - t0, 2))
        ctx.case(dict(ds=name, kind=kind, spec=spec_diff(spec, base_spec)), nontrivial=bool(spec_diff(spec, base_spec)))
        if kind == "volume-order":
            if raised:
                ctx.count("volume-order: rejected with an error")
                ctx.sample(dict(data_set=name, kind=kind, presentation=spec_diff(spec, base_spec), outcome=raised))
                continue
            rel, q, detail = compare(base, got)
            if rel <= RTOL_CALC:
                ctx.count("volume-order: accepted, same numbers")
                continue
            ctx.count("volume-order: accepted, DIFFERENT numbers")
            ctx.failure("volume-order-different-numbers",
                        "volume blocks of the phonon file listed in another order are accepted by Calculator and give "
                        "different numbers: %s differs by %.3g relative (%s)" % (q, rel, detail),
                        input=recipe, expected="same results (<= 1e-8 relative) or an error", observed=detail)
            continue
        ctx.count("%s" % kind)
        if raised:
            ctx.failure(kind + "-raises", "Calculator accepts the data set but rejects its re-presentation (%s): %s"
                        % (kind, raised), input=recipe, expected="same results as the baseline presentation",
                        observed=raised)
            continue
        rel, q, detail = compare(base, got)
        worst_by_kind[kind] = max(worst_by_kind.get(kind, 0.0), rel)
        ctx.sample(dict(data_set=name, kind=kind, presentation=spec_diff(spec, base_spec), max_rel_diff=rel,
                        worst_quantity=q))
        if not rel <= RTOL_CALC:
            ctx.failure(kind, "re-presenting the same data (%s) changes the results: %s differs by %.3g relative (%s)"
                        % (kind, q, rel, detail), input=recipe, expected="max relative difference <= 1e-8",
                        observed=detail)


def small_settings(nt=4, ntv=12, interp="lsq_poly", order=2, system="triclinic"):
    return synth.default_settings(
        qha=dict(settings=dict(NT=nt, NTV=ntv)),
        elast=dict(settings=dict(mode_gamma=dict(interpolator=interp, order=order), symmetry=dict(system=system))))


def run(ctx):
    rd = ctx.fresh_run_dir()
    logging.disable(logging.CRITICAL)
    rng = ctx.rng
    ctx.rule = ("(b) real Calculator on re-presented copies (q-points >= 1 permuted with weights, modes permuted "
                "consistently over volumes - at Gamma only modes >= 3 -, weights x exact common factor, static columns "
                "permuted / re-labelled with other digit-free prefixes and case, static rows permuted with lattice rows, "
                "phonon volume blocks reversed/shuffled) of synthetic sets (nv 5-7, nq 3-4, 6 modes, lsq_poly/spline) "
                "and (thorough) of examples akimotoite and diopside; non-trivial = presentation differs from baseline")
    ctx.trusted += ["re-presented files are written by cij's own write_energy and a plain-text static-table writer "
                    "(repr floats); the baseline is the identity presentation written by the same writers"]
    quick = ctx.tier == "quick"

    nsets = 2 if quick else 5
    for si in range(nsets):
        ds = synth.make_dataset(rng, nv=rng.choice([5, 6, 7]), nq=rng.choice([3, 4]), na=2,
                                spectrum=rng.choice(["powerlaw", "curved"]))
        interp, order = (("lsq_poly", 2) if si % 2 == 0 else ("spline", 3))
        st = small_settings(interp=interp, order=order)
        specs = make_specs(rng, ds, per_kind=1 if quick else 3, volume_orders=1 if quick else 3)
        calc_stage(ctx, rd, "synthetic%d" % si, ds, st, specs)
    if not quick:
        for name in ("akimotoite", "diopside"):
            ds, st = dataset_from_example(name)
            specs = make_specs(rng, ds, per_kind=1, volume_orders=1)
            calc_stage(ctx, rd, name, ds, st, specs, inline=False)
