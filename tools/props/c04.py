"""C04 - phonon tensor assembly: complete, request-independent, acyclic, isotropic in the limit."""
import importlib
import itertools
import shutil

import numpy

from vlib import PROPS, write, fhex, flist, flist2
import nonshear_harness as H
from props.c03 import voigt_tie, ALL_KEYS, SHEAR, klit

HEADER = r"""
From Coq Require Import ZArith List Bool Arith Uint63 PrimFloat.
From Cij Require Import Ops FOps Voigt ShearModel TasksModel.
Import ListNotations.
Local Open Scope float_scope.

Definition fisz (x : float) : bool := abs x <=? 0x1.5798ee2308c3ap-27.          (* isclose(x, 0) *)
Definition aclose (a b : float) : bool := a =? b.     (* numpy.array_equal element test (task identity is exact) *)
Record case := {
  frame0 : @frame float; req : list vkey;
  eigs : list (vkey * (list float * list (list float)));
  i_tasks : list (@frame float * vkey);          (* tl._tasks in creation order *)
  i_rots : list (@frame float * vkey * @frame float);   (* strain_rotated of every shear task *)
  i_edges : list (nat * nat);                    (* graph edges (dependency index, dependant index) *)
  i_order : list nat;                            (* tl.data as indices into i_tasks *)
  i_vals : list float;                           (* isothermal value of each task at one (T,V) point *)
  i_scale : float }.

Section C.
  Variable c : case.
  Definition eigf (k : vkey) : (nat -> float) * (nat -> nat -> float) :=
    let fix go l := match l with
                    | [] => (fun _ => nan, fun _ _ => nan)
                    | (k', (lam, T)) :: r => if vkey_eqb k k' then (vec3 lam, mat3 T) else go r
                    end in go (eigs c).
  Definition teq := cteq aclose.
  Fixpoint feqb (a b : @frame float) : bool :=
    match a, b with
    | [], [] => true
    | x :: a', y :: b' => all_close (fun u v => u =? v) x y && feqb a' b'
    | _, _ => false end.
  Definition roto (k : vkey) (f : @frame float) : option (@frame float) :=
    let fix go l := match l with
                    | [] => None
                    | (f0, k0, f1) :: r => if vkey_eqb k k0 && feqb f f0 then Some f1 else go r
                    end in go (i_rots c).
  Definition deps := cdeps eigf fisz roto.
  Definition dummy : @ctask float := CT [] (0, 0)%nat.
  Definition count (t : @ctask float) (l : list (@ctask float)) : nat := length (filter (fun x => teq x t) l).
  Definition edge_in (e : @ctask float * @ctask float) (l : list (@ctask float * @ctask float)) : bool :=
    existsb (fun x => teq (fst x) (fst e) && teq (snd x) (snd e)) l.
  Fixpoint adm (done order : list (@ctask float)) : bool :=
    match order with
    | [] => true
    | t :: r => forallb (fun d => existsb (fun x => teq x d) done) (deps t) && adm (done ++ [t]) r
    end.
  (* values: non-shear values are taken from the implementation (they are C01's subject) *)
  Definition ns (itasks : list (@ctask float)) (t : @ctask float) : option float :=
    let '(CT _ k) := t in
    if is_shear k then None else
    let fix go ts vs := match ts, vs with
                        | x :: ts', v :: vs' => if teq x t then Some v else go ts' vs'
                        | _, _ => None end in go itasks (i_vals c).
  Definition vclose (a b : float) : bool := abs (a - b) <=? 0x1.12e0be826d695p-30 * i_scale c.
  (* everything that is used more than once is let-bound: vm_compute is call-by-value *)
  Definition chk : bool :=
    let itasks := map (fun p => CT (fst p) (snd p)) (i_tasks c) in
    let m_res := resolve teq deps 4000 (map (CT (frame0 c)) (req c)) in
    let m_tasks := snd (fst m_res) in
    let m_edges := snd m_res in
    let same_tasks :=
      (length m_tasks =? length itasks)%nat &&
      forallb (fun t => (count t m_tasks =? 1)%nat && (count t itasks =? 1)%nat) (m_tasks ++ itasks) in
    let m_edges_t := map (fun e => (nth (fst e) m_tasks dummy, nth (snd e) m_tasks dummy)) m_edges in
    let i_edges_t := map (fun e => (nth (fst e) itasks dummy, nth (snd e) itasks dummy)) (i_edges c) in
    let same_edges :=
      forallb (fun e => edge_in e i_edges_t) m_edges_t && forallb (fun e => edge_in e m_edges_t) i_edges_t in
    let order_t := map (fun i => nth i itasks dummy) (i_order c) in
    let ev := cev eigf fisz roto (ns itasks) in
    let tbl := calculate teq ev order_t in
    let same_vals :=
      forallb (fun p => match lookup teq tbl (fst p) with
                        | Some v => vclose v (snd p)
                        | None => false end) (combine itasks (i_vals c)) in
    (* the denotational value (recursion on rank) agrees too - checked on the requested tasks *)
    let den_vals :=
      forallb (fun k => match valn ev 3 (CT (frame0 c) k), lookup teq tbl (CT (frame0 c) k) with
                        | Some v, Some v' => vclose v v'
                        | _, _ => false end) (req c) in
    let complete := forallb (fun k => existsb (fun x => teq x (CT (frame0 c) k)) itasks) (req c) in
    match fst (fst m_res) with [] => true | _ => false end &&
    same_tasks && same_edges && adm [] order_t && same_vals && den_vals && complete &&
    (length (i_order c) =? length itasks)%nat.
End C.
"""

AXES = list(itertools.permutations(range(3)))
VOF = {(0, 0): 1, (1, 1): 2, (2, 2): 3, (1, 2): 4, (2, 1): 4, (0, 2): 5, (2, 0): 5, (0, 1): 6, (1, 0): 6}
STD = {1: (0, 0), 2: (1, 1), 3: (2, 2), 4: (1, 2), 5: (0, 2), 6: (0, 1)}


def relabel_key(k, pi):
    """key of the component obtained by relabelling axis a -> pi[a]"""
    def v(a):
        i, j = STD[a]
        return VOF[(pi[i], pi[j])]
    a, b = v(k[0]), v(k[1])
    return (a, b) if a <= b else (b, a)


class Hang(Exception):
    pass


def _alarm(signum, frame):
    raise Hang("PhononContributionTaskList did not finish within 30 s (work list does not terminate)")


def run_tl(TK, c_, calc, strain, keys):
    import signal
    old = signal.signal(signal.SIGALRM, _alarm)
    signal.alarm(30)
    try:
        with numpy.errstate(all="ignore"):
            tl = TK.PhononContributionTaskList(calc)
            tl.resolve(numpy.array(strain), [c_(*k) for k in keys])
            tl.calculate()
            return tl, tl.get_isothermal_results(), tl.get_adiabatic_results()
    finally:
        signal.alarm(0)
        signal.signal(signal.SIGALRM, old)


def run(ctx):
    rd = ctx.fresh_run_dir()
    ctx.rule = ("real PhononContributionTaskList on a duck-typed calculator (analytic spectra as in C01): random "
                "subsets/orders of the 21 keys (with duplicates), strain fields generic / equal / near-equal columns; "
                "task set, edge set, evaluation order and every value compared with the Coq model run on floats; "
                "oracle runs: two request lists sharing keys, equal-thirds strains, six axis relabellings; "
                "non-trivial = request contains a shear key")
    ctx.trusted += [
        "task identity is numpy.array_equal (exact) since the task-merge repair: an equivalence on NaN-free arrays, "
        "as the hypotheses teq_refl/sym/trans of calculate_correct require; val_teq then holds because equal params "
        "give equal values",
        "networkx.topological_sort is an oracle: its output order is checked against [admissible] inside Coq on every run",
        "LAPACK eigh frames are oracle inputs (their contract is C03's per-run check)",
        "non-shear task values are taken from the implementation in this tie (they are C01/C02's subject)",
    ]
    ctx.partial += ["axis-relabelling covariance is proved at solver level (axis_relabelling, axis_relabelling_frames: 6 "
                    "permutations x 15 shear keys, all tensors); that the whole work list commutes with a relabelling "
                    "(task creation order, LAPACK frames of the relabelled strain) is measured on the implementation",
                    "the abstract scheduler theorems are instantiated with the code's exact task identity (array_equal) "
                    "through the per-run checks of the concrete task model"]
    voigt_tie(ctx, rd)
    shutil.copy(PROPS / "Prop_C04.v", rd / "Prop_C04.v")
    ctx.prove(rd / "Prop_C04.v", "Prop_C04.v (scheduler, rank, isotropic-limit and axis-relabelling theorems)", "theorem-file")
    # static tie: __eq__ / __hash__ / _make_param_by_strain_key re-translated and proved equal to the task model
    from props import taskid_static
    taskid_static.static_tie(ctx, rd)

    import cij.core.tasks as TK
    import cij.core.phonon_contribution.shear as S
    importlib.reload(S)
    importlib.reload(TK)
    H.reload_impl()
    from cij.util import c_
    rng = ctx.rng
    # record the strain each task was created with (harness-side wrapper, /repo untouched)
    _orig_init = TK.PhononContributionTask.__init__

    def _rec_init(self, strain, key, calculator=None):
        self._verif_strain = numpy.array(strain, dtype=float)
        _orig_init(self, strain, key, calculator)
    TK.PhononContributionTask.__init__ = _rec_init
    # eigen frames per shear key (functions of the key only)
    eigs = {}
    for k in SHEAR:
        o = S.ShearElasticModulusPhononContribution(numpy.ones((1, 3)), c_(*k))
        eigs[k] = (numpy.diag(o.fictitious_strain_rotated).tolist(), numpy.array(o.transformation_matrix).tolist())
    eig_txt = "[" + ";\n ".join("(%s, (%s, %s))" % (klit(k), flist(l), flist2(T)) for k, (l, T) in eigs.items()) + "]"

    n = 40 if ctx.tier == "quick" else 1200
    cases, meta = [], []
    for i in range(n):
        c = H.make_case(rng, nq=rng.choice([1, 2]), na=1, nv=rng.choice([1, 2]),
                        temps=[0.0, rng.uniform(50, 2000)])
        calc = H.duck_calculator(c)
        nv = c["nv"]
        mode = i % 4
        if mode == 0:
            strain = [[1.0, 1.0, 1.0] for _ in range(nv)]
        elif mode == 1:
            a = rng.uniform(0.2, 0.5)
            strain = [[a, a, rng.uniform(0.2, 0.5)] for _ in range(nv)]       # two equal columns: tasks merge
        else:
            strain = [[rng.uniform(0.1, 0.6) for _ in range(3)] for _ in range(nv)]
        keys = [rng.choice(ALL_KEYS) for _ in range(rng.randint(1, 7))]
        if i % 3 == 0:
            keys.append(rng.choice(SHEAR[3:]))
        try:
            tl, iso, adi = run_tl(TK, c_, calc, strain, keys)
        except Exception as ex:
            ctx.failure("tasklist-hangs" if isinstance(ex, Hang) else "tasklist-raises",
                        "PhononContributionTaskList raised %s: %s" % (type(ex).__name__, ex),
                        input=dict(keys=keys, strain=strain))
            if isinstance(ex, Hang):
                break
            continue
        ti, vi = 1, rng.randrange(nv)
        tasks = tl._tasks
        vals = []
        for t in tasks:
            v = tl.modulus_isothermal_values[t.task_params]
            vals.append(float(numpy.asarray(v)[ti, vi]))
        order = [next(j for j, x in enumerate(tasks) if x is t) for t in tl.data]
        edges = [(int(a), int(b)) for a, b in tl._graph.edges]

        frames = [numpy.asarray(t._verif_strain, float).tolist() for t in tasks]
        scale = max(1e-12, max(abs(v) for v in vals))
        nontriv = any(k[0] > 3 or k[1] > 3 for k in keys)
        ctx.case(dict(keys=keys, strain=strain), nontrivial=nontriv)
        ctx.count("strain:" + ["equal", "two-equal-columns", "generic", "generic"][mode])
        ctx.count("request size %d" % len(keys))
        ctx.count("tasks created", len(tasks))
        rots = [(f, tuple(t.key.v), numpy.asarray(t.calculator.strain_rotated, float).tolist())
                for f, t in zip(frames, tasks) if t.key.is_shear]
        cases.append("{| frame0 := %s; req := [%s]; eigs := eigs0;\n i_tasks := [%s];\n i_rots := [%s];\n i_edges := [%s]; i_order := [%s];\n"
                     " i_vals := %s; i_scale := %s |}" % (
                         flist2(strain), "; ".join(klit(k) for k in keys),
                         ";\n  ".join("(%s, %s)" % (flist2(f), klit(tuple(t.key.v))) for f, t in zip(frames, tasks)),
                         ";\n  ".join("(%s, %s, %s)" % (flist2(f), klit(k), flist2(fr)) for f, k, fr in rots),
                         "; ".join("(%d, %d)%%nat" % e for e in edges), "; ".join("%d%%nat" % o for o in order),
                         flist(vals), fhex(scale)))
        meta.append(dict(keys=keys, strain=strain, ntasks=len(tasks), nedges=len(edges),
                         order=[tuple(tasks[j].key.v) for j in order]))
        # ---- oracle from the property statement -------------------------------------------
        for k in keys:
            r = numpy.asarray(iso[c_(*k)])
            if not numpy.all(numpy.isfinite(r[1:])):
                ctx.failure("no-value-c%d%d" % k, "requested component c%d%d has no finite value" % k,
                            input=dict(keys=keys, strain=strain))
        for pos, t in enumerate(tl.data):
            for (ds, dk) in t.get_dependencies():
                p = TK.PhononContributionTaskParams.create(ds, dk)
                if not any(x.task_params == p for x in tl.data[:pos]):
                    ctx.failure("order-c%d%d" % tuple(t.key.v), "task c%d%d is evaluated before its dependency c%d%d"
                                % (t.key.v[0], t.key.v[1], dk.v[0], dk.v[1]), input=dict(keys=keys, strain=strain))
        # request independence: other requests around one shared key, other order
        shared = rng.choice(keys)
        others = [shared] + [rng.choice(ALL_KEYS) for _ in range(rng.randint(0, 5))]
        rng.shuffle(others)
        try:
            tl2, iso2, adi2 = run_tl(TK, c_, calc, strain, others)
            a, b = numpy.asarray(iso[c_(*shared)]), numpy.asarray(iso2[c_(*shared)])
            a2, b2 = numpy.asarray(adi[c_(*shared)]), numpy.asarray(adi2[c_(*shared)])
            sc = max(1e-300, max(float(numpy.nanmax(numpy.abs(numpy.asarray(iso[c_(*kk)])[1:]))) for kk in keys))
            if numpy.nanmax(numpy.abs(a[1:] - b[1:])) > 1e-9 * sc or numpy.nanmax(numpy.abs(a2[1:] - b2[1:])) > 1e-9 * sc:
                ctx.failure("request-dependence-c%d%d" % shared,
                            "value of c%d%d depends on the other requested components" % shared,
                            input=dict(keys1=keys, keys2=others, strain=strain),
                            observed=[a.tolist(), b.tolist()])
        except Exception as ex:
            ctx.failure("tasklist-hangs" if isinstance(ex, Hang) else "tasklist-raises",
                        "PhononContributionTaskList raised %s: %s" % (type(ex).__name__, ex),
                        input=dict(keys=others, strain=strain))
            if isinstance(ex, Hang):
                break
    ctx.sample(meta[0] if meta else {})
    ctx.sample(meta[-1] if meta else {})

    # isotropic limit and axis relabelling on the implementation
    niso = 3 if ctx.tier == "quick" else 40
    if any(f["key"] == "tasklist-hangs" for f in ctx.failures):
        niso = 0
    for i in range(niso):
        c = H.make_case(rng, nq=rng.choice([1, 2]), na=1, nv=1, temps=[0.0, rng.uniform(100, 1500)])
        calc = H.duck_calculator(c)
        try:
            tl, iso, adi = run_tl(TK, c_, calc, [[1.0, 1.0, 1.0]], ALL_KEYS)
        except Exception as ex:
            ctx.failure("tasklist-raises", "PhononContributionTaskList raised %s: %s on all 21 keys, equal strains"
                        % (type(ex).__name__, ex), input=dict(keys="all", strain=[[1.0, 1.0, 1.0]]))
            break
        ctx.case(dict(kind="isotropic", par=c["sp"].par, T=c["temps"]), nontrivial=True)
        ctx.count("isotropic-limit runs")
        for tname, tab in (("isothermal", iso), ("adiabatic", adi)):
            v = {k: float(numpy.asarray(tab[c_(*k)])[1, 0]) for k in ALL_KEYS}
            sc = abs(v[(1, 1)]) + abs(v[(1, 2)])
            # shear components are built from ISOTHERMAL dependencies in both tables
            vi = {k: float(numpy.asarray(iso[c_(*k)])[1, 0]) for k in ALL_KEYS}
            want = {}
            for k in ALL_KEYS:
                if k in ((1, 1), (2, 2), (3, 3)):
                    want[k] = v[(1, 1)]
                elif k in ((1, 2), (1, 3), (2, 3)):
                    want[k] = v[(1, 2)]
                elif k in ((4, 4), (5, 5), (6, 6)):
                    want[k] = (vi[(1, 1)] - vi[(1, 2)]) / 2
                else:
                    want[k] = 0.0
            for k in ALL_KEYS:
                if abs(v[k] - want[k]) > 1e-9 * sc:
                    ctx.failure("isotropic-c%d%d" % k, "equal axial strains (%s table): c%d%d = %.10g, isotropy requires %.10g"
                                % (tname, k[0], k[1], v[k], want[k]), input=dict(spectrum=c["sp"].par, T=c["temps"][1]),
                                expected=want[k], observed=v[k])
        # relabelling
        strain = [[rng.uniform(0.15, 0.55) for _ in range(3)]]
        try:
            tl, iso, adi = run_tl(TK, c_, calc, strain, ALL_KEYS)
        except Exception as ex:
            ctx.failure("tasklist-raises", "PhononContributionTaskList raised %s: %s on all 21 keys"
                        % (type(ex).__name__, ex), input=dict(keys="all", strain=strain))
            break
        base = {k: float(numpy.asarray(iso[c_(*k)])[1, 0]) for k in ALL_KEYS}
        base_a = {k: float(numpy.asarray(adi[c_(*k)])[1, 0]) for k in ALL_KEYS}
        sc = max(abs(x) for x in base.values())
        for pi in AXES[1:]:
            s2 = [[0.0, 0.0, 0.0]]
            for a in range(3):
                s2[0][pi[a]] = strain[0][a]
            tl2, iso2, adi2 = run_tl(TK, c_, calc, s2, ALL_KEYS)
            ctx.case(dict(kind="relabel", pi=pi, strain=strain, par=c["sp"].par), nontrivial=True)
            ctx.count("axis-relabelling runs")
            for k in ALL_KEYS:
                k2 = relabel_key(k, pi)
                for tname, t2, b0 in (("isothermal", iso2, base), ("adiabatic", adi2, base_a)):
                    got = float(numpy.asarray(t2[c_(*k2)])[1, 0])
                    if abs(got - b0[k]) > 1e-8 * sc:
                        ctx.failure("relabel-c%d%d" % k, "relabelling axes %s (%s table): c%d%d of the relabelled crystal is "
                                    "%.10g, c%d%d of the original is %.10g" % (pi, tname, k2[0], k2[1], got, k[0], k[1], b0[k]),
                                    input=dict(pi=pi, strain=strain, spectrum=c["sp"].par), expected=b0[k], observed=got)

    # ---- targeted search: coinciding frames (equal axial strains) x many request orders -------------
    # (merged tasks are where a missing edge / wrong order can hide; each run is ~50 ms)
    c = H.make_case(rng, nq=1, na=1, nv=1, temps=[0.0, 700.0])
    calc = H.duck_calculator(c)
    nshuf = 6 if ctx.tier == "quick" else 150
    for strain in ([[1.0, 1.0, 1.0]], [[2.0, 1.0, 1.0]], [[1.0, 2.0, 2.0]], [[1.0, 2.0, 1.0]], [[0.3, 0.3, 0.4]]):
        orders = [list(ALL_KEYS), list(reversed(ALL_KEYS))]
        for _ in range(nshuf):
            o = list(ALL_KEYS)
            rng.shuffle(o)
            orders.append(o[:rng.randint(3, 21)])
        for keys in orders:
            ctx.case(dict(kind="coinciding-frames", strain=strain, keys=keys), nontrivial=True)
            ctx.count("coinciding-frame order runs")
            try:
                tl, iso, adi = run_tl(TK, c_, calc, strain, keys)
            except Exception as ex:
                ctx.failure("tasklist-hangs" if isinstance(ex, Hang) else "tasklist-raises",
                            "PhononContributionTaskList raised %s: %s" % (type(ex).__name__, ex),
                            input=dict(keys=keys, strain=strain))
                break
            bad = False
            for pos, t in enumerate(tl.data):
                for (ds, dk) in t.get_dependencies():
                    pp = TK.PhononContributionTaskParams.create(ds, dk)
                    if not any(x.task_params == pp for x in tl.data[:pos]):
                        ctx.failure("order-c%d%d" % tuple(t.key.v),
                                    "task c%d%d is evaluated before its dependency c%d%d"
                                    % (t.key.v[0], t.key.v[1], dk.v[0], dk.v[1]), input=dict(keys=keys, strain=strain))
                        bad = True
                        break
                if bad:
                    break
            if bad:
                break
    files = []
    per = 8
    for si in range(0, len(cases), per):
        txt = HEADER + "\nDefinition eigs0 := %s.\nDefinition cases : list case := [\n" % eig_txt + \
            ";\n".join(cases[si:si + per]) + "].\nLocal Close Scope float_scope.\n" + \
            "Eval vm_compute in (failing chk cases).\n"
        files.append(write(rd / ("cases_C04_%02d.v" % (si // per)), txt))
    res = ctx.run_shards(files, label="task-list tie")
    for fi, f in enumerate(files):
        ok, fl, out = res[f]
        for lst in fl:
            for i in lst:
                if 0 <= i and fi * per + i < len(meta):
                    ctx.extra.setdefault("tie_disagreements", []).append(meta[fi * per + i])
