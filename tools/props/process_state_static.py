"""C14 static obligation: no process-level state that could carry one calculation into the next.

Property C14 quantifies over "calculations performed earlier in the same process".  The memoisation theorems
(Memo.v, instantiated at the real producer graph by lazy_static) are about per-INSTANCE caches.  What they cannot see is
state that outlives an instance: a memoising decorator on a function (functools.lru_cache / cache, ...), or a
module-level mutable object that functions of the module write to.  This scan (Python `ast` only, nothing imported or
executed) fails closed on both; with it, "a fresh Calculator starts from the files and the packaged defaults only"
is a checked hypothesis instead of an assumption.  It never calls ctx.failure: the dynamic history matrix of c14.py
searches for concrete inputs; a broken obligation without one is reported as no-failing-input-found.
"""
import ast
import warnings

from vlib import REPO

MEMO_NAMES = {"lru_cache", "cache", "cached_property", "memoize", "memoized", "memoise", "cached"}
MUTATORS = {"append", "extend", "insert", "add", "update", "setdefault", "pop", "popitem", "clear", "remove", "discard",
            "sort", "reverse", "appendleft", "extendleft", "__setitem__", "__delitem__"}
MUTABLE_CALLS = {"dict", "list", "set", "defaultdict", "OrderedDict", "deque", "Counter", "bytearray", "WeakValueDictionary",
                 "WeakKeyDictionary"}


def _name_of(node):
    if isinstance(node, ast.Name):
        return node.id
    if isinstance(node, ast.Attribute):
        return node.attr
    if isinstance(node, ast.Call):
        return _name_of(node.func)
    return None


def _is_mutable_value(v):
    if isinstance(v, (ast.Dict, ast.List, ast.Set, ast.DictComp, ast.ListComp, ast.SetComp)):
        return True
    if isinstance(v, ast.Call) and _name_of(v.func) in MUTABLE_CALLS:
        return True
    return False


def _base_name(node):
    """x, x[...], x.attr[...] -> 'x' when the chain starts at a plain name"""
    while isinstance(node, (ast.Subscript, ast.Attribute)):
        node = node.value
    return node.id if isinstance(node, ast.Name) else None


def scan_module(path, rel):
    """returns (memo_findings, state_findings, stats)"""
    with warnings.catch_warnings():
        warnings.simplefilter("ignore")          # invalid escape sequences in the package's docstrings
        tree = ast.parse(path.read_text(), filename=str(path))
    memo, state = [], []
    # (a) memoising decorators / wrappers anywhere in the module
    for node in ast.walk(tree):
        if isinstance(node, (ast.FunctionDef, ast.AsyncFunctionDef, ast.ClassDef)):
            for d in node.decorator_list:
                if _name_of(d) in MEMO_NAMES:
                    memo.append("%s:%d: %s decorated with %s" % (rel, node.lineno, node.name, _name_of(d)))
        if isinstance(node, ast.Call) and _name_of(node.func) in MEMO_NAMES:
            # functools.lru_cache(maxsize=None)(f) style wrappers (decorators are Calls too: reported once above)
            memo.append("%s:%d: call of %s" % (rel, node.lineno, _name_of(node.func)))
    memo = sorted(set(memo))
    # (b) module-level mutable objects written to from inside functions
    mutable_globals = {}
    for st in tree.body:
        targets = []
        if isinstance(st, ast.Assign):
            targets, val = st.targets, st.value
        elif isinstance(st, ast.AnnAssign) and st.value is not None:
            targets, val = [st.target], st.value
        else:
            continue
        if _is_mutable_value(val):
            for t in targets:
                if isinstance(t, ast.Name):
                    mutable_globals[t.id] = st.lineno
    nfun = 0
    for fn in ast.walk(tree):
        if not isinstance(fn, (ast.FunctionDef, ast.AsyncFunctionDef, ast.Lambda)):
            continue
        nfun += 1
        body_nodes = list(ast.walk(fn))
        # names rebound locally (parameters, assignments to the bare name) shadow the global
        local = set()
        if not isinstance(fn, ast.Lambda):
            for a in fn.args.args + fn.args.kwonlyargs + fn.args.posonlyargs:
                local.add(a.arg)
            for n in body_nodes:
                if isinstance(n, ast.Global):
                    for g in n.names:
                        state.append("%s:%d: `global %s` in %s" % (rel, n.lineno, g, fn.name))
                if isinstance(n, (ast.Assign, ast.AnnAssign, ast.AugAssign)):
                    ts = n.targets if isinstance(n, ast.Assign) else [n.target]
                    for t in ts:
                        if isinstance(t, ast.Name):
                            local.add(t.id)
                if isinstance(n, (ast.For, ast.comprehension)) and isinstance(n.target, ast.Name):
                    local.add(n.target.id)
        declared_global = {g for n in body_nodes if isinstance(n, ast.Global) for g in n.names}
        local -= declared_global
        for n in body_nodes:
            hit = None
            if isinstance(n, (ast.Assign, ast.AugAssign, ast.AnnAssign, ast.Delete)):
                ts = n.targets if isinstance(n, (ast.Assign, ast.Delete)) else [n.target]
                for t in ts:
                    if isinstance(t, (ast.Subscript, ast.Attribute)):
                        b = _base_name(t)
                        if b in mutable_globals and b not in local:
                            hit = (b, "store")
                    if isinstance(n, ast.AugAssign) and isinstance(t, ast.Name) and t.id in mutable_globals \
                            and t.id in declared_global:
                        hit = (t.id, "augmented assignment")
            if isinstance(n, ast.Call) and isinstance(n.func, ast.Attribute) and n.func.attr in MUTATORS:
                b = _base_name(n.func.value)
                if b in mutable_globals and b not in local:
                    hit = (b, "." + n.func.attr + "()")
            if hit:
                state.append("%s:%d: module-level %s (defined line %d) is written by %s inside %s" % (
                    rel, n.lineno, hit[0], mutable_globals[hit[0]], hit[1],
                    getattr(fn, "name", "<lambda>")))
    return memo, sorted(set(state)), dict(functions=nfun, mutable_globals=len(mutable_globals))


def static_tie(ctx, rd):
    root = REPO / "cij"
    memo, state, nmod, nfun, nglob, errs = [], [], 0, 0, 0, []
    for path in sorted(root.rglob("*.py")):
        rel = str(path.relative_to(REPO))
        try:
            m, s, st = scan_module(path, rel)
        except SyntaxError as e:
            errs.append("%s: %s" % (rel, e))
            continue
        memo += m
        state += s
        nmod += 1
        nfun += st["functions"]
        nglob += st["mutable_globals"]
    ctx.obligation("process-state scan read the package (%d modules, %d functions, %d module-level mutable objects, all "
                   "read-only)" % (nmod, nfun, nglob) if not (errs or state) else
                   "process-state scan read the package (%d modules)" % nmod, "translator", not errs, "; ".join(errs))
    ctx.obligation("no memoising decorator / wrapper on package functions (lru_cache, cache, cached_property, ...)",
                   "translator-tie", not memo, "; ".join(memo[:8]))
    ctx.obligation("no module-level mutable object is written to from inside a function (no process-level cache)",
                   "translator-tie", not state, "; ".join(state[:8]))
    ctx.extra["process_state_scan"] = dict(modules=nmod, functions=nfun, module_level_mutable_objects=nglob,
                                           memo_findings=memo, state_findings=state)
    ctx.trusted += ["tools/props/process_state_static.py: syntactic scan (ast) for process-level state: memoising "
                    "decorators by name, module-level dict/list/set objects written through subscripts, mutating "
                    "methods or `global`; aliasing of such objects through other names and state kept in third-party "
                    "libraries (pint registry, numba caches) are NOT covered - the in-process history matrix measures those"]
    return dict(memo=memo, state=state)
