"""Static DATA-FLOW tie of cij/core/mode_gamma.py to the C11 models (PolyModel.v / InterpModel.v).

static_tie(ctx, rd) regenerates, from the CURRENT source tree, a Coq description of the data flow of every
interpolation helper and of the double loop of interpolate_modes (tools/translate_modegamma.py, fail-closed ast
symbolic evaluator), writes it with the hand-written vocabulary / lemma files of tools/tie_modegamma/ into the
per-run directory `rd` (logical path CijGen) and compiles one lemma file per group:

    spline lagrange krogh ppoly lsq_poly   generated helper flow = InterpModel.mode_fn at that method (any library,
                                           any number domain); for ANY library oracle the three returned arrays are
                                           exp / - / - of the nu = 0, 1, 2 evaluations of ONE object (or polyder m=1,2
                                           of ONE coefficient list) built from the right arrays, at log(v_array);
                                           consistent under the library contract (Interp.v / InterpMore.v theorems)
    loop                                   generated loop flow is well-formed (slot [:, j, k] of its own indices, column
                                           (j, k), all volumes, order=order), skip test = skipped, dispatch table = the
                                           model's; generated loop = InterpModel.interpolate_modes entry by entry
    (composition)                          loop + helper flows = interpolate_modes (mode_fn lib m order), only when all
                                           six groups hold

One obligation per group; the names of the groups that broke are returned.  Never calls ctx.failure: a broken static
obligation without a concrete failing input is reported by the driver as `no-failing-input-found` (C11's dynamic stages
search for failing inputs themselves).
"""
import re
import time
from pathlib import Path

import vlib
from vlib import REPO, VERIF, write
import translate_modegamma as T

TEMPLATES = VERIF / "tools" / "tie_modegamma"
GROUPS = list(T.GROUPS)
FILE_OF = {g: "Tie_modegamma_%s.v" % g for g in GROUPS}
WHAT = {
    "spline": "interpolate_mode_spline: ONE UnivariateSpline(flip(log V), flip(log w), k=order); (exp I(x), -I(x,nu=1), "
              "-I(x,nu=2)) at x = log(v_array) = InterpModel.mode_fn Spline",
    "lagrange": "interpolate_mode_lagrange: ONE poly1d lagrange(flip(log V[::i]), flip(log w[::i])), i = int(ceil(n/order)) "
                "for both; (exp p(x), -polyder(p,1)(x), -polyder(p,2)(x)) = mode_fn Lagrange (PolyModel.poly_triple)",
    "krogh": "interpolate_mode_krogh: ONE KroghInterpolator on the same sub-sampled flipped logs; (exp k(x), "
             "-k.derivative(x,1), -k.derivative(x,2)) = mode_fn Krogh",
    "ppoly": "interpolate_mode_ppoly: per method literal ONE Pchip/Akima1D/CubicHermite object on the sub-sampled flipped "
             "logs; nu = 0,1,2 all with extrapolate=True = mode_fn Pchip/Akima/Hermite",
    "lsq_poly": "interpolate_mode_lsq_poly + lstsq_polyfit: ONE coefficient list lstsq(vander(log V, order+1), log w)[0] "
                "(no flip, no sub-sampling); polyval of it / polyder 1 / polyder 2 at log(v_array) = mode_fn LsqPoly",
    "loop": "interpolate_modes: range(nq) x range(np), skip j == 0 and k < 3, column volume.q_points[j].modes[k], slots "
            "[:, j, k] of the three returned arrays, method -> helper table, order=order = InterpModel.interpolate_modes",
}
TRUSTED = (
    "translator tools/translate_modegamma.py (fail-closed ast symbolic evaluator of cij/core/mode_gamma.py; grammar in "
    "its docstring): numpy/scipy names are read at face value (numpy.log elementwise, flip = reverse, [::i] stride, "
    "vander/lstsq/poly1d/polyder/polyval conventions, lstsq's rcond ignored), the library objects are ORACLES "
    "(`cfamily`/`pfamily` of tools/tie_modegamma/MGFlowBase.v); only pattern-checked: the comprehension texts "
    "`volume.volume` / `volume.q_points[a].modes[b]` over `qha_input.volumes`, numpy.zeros shapes, qha_input.nq/np as "
    "loop bounds; helper default orders are recorded, not asserted; hand-written vocabulary and lemma files "
    "tools/tie_modegamma/*.v (MGLoopSem.wf_loop_sem is proved for every well-formed loop flow)"
)


def lemma_at(path: Path, out: str) -> str:
    m = re.search(r'File "[^"]*", line (\d+)', out)
    if not m:
        return ""
    for ln in reversed(path.read_text().splitlines()[:int(m.group(1))]):
        mm = re.match(r"\s*(Lemma|Theorem|Corollary|Example|Definition)\s+([\w']+)", ln)
        if mm:
            return mm.group(2)
    return ""


def compact(out: str, n=1100) -> str:
    """coqc output without the conda noise, head only (ctx.obligation keeps the LAST 2000 characters)"""
    out = "\n".join(l for l in out.splitlines() if "WARNING conda" not in l)
    return out if len(out) <= n else out[:n] + " ..."


def static_tie(ctx, rd: Path, groups=tuple(GROUPS)):
    t0 = time.time()
    groups = list(groups)
    ctx.trusted.append(TRUSTED)
    XQ = [(rd, "CijGen")]
    why = {}
    failed = []

    # ---- 1. translate ------------------------------------------------------------------------------------
    tr = None
    try:
        tr = T.Translator((REPO / T.SRC).read_text())
        for g, e in tr.errors.items():
            why[g] = str(e)
    except T.TranslateError as e:
        for g in groups:
            why[g] = str(e)
    except OSError as e:
        for g in groups:
            why[g] = "%s cannot be read: %r" % (T.SRC, e)
    if tr is not None:
        write(rd / "Gen_modegamma.v", T.emit(tr))
        ctx.extra["modegamma_static"] = dict(
            defaults=tr.defaults,
            dispatch=[dict(methods=b["methods"], helper=b["helper"], order=b["order"], passes_method=b["passes"])
                      for b in (tr.loop or {}).get("branches", [])],
            ppoly_literals=sorted((tr.flows.get("interpolate_mode_ppoly") or {}).keys())
            if isinstance(tr.flows.get("interpolate_mode_ppoly"), dict) else [])
    else:
        write(rd / "Gen_modegamma.v", T.GEN_HEADER % T.SRC)

    # ---- 2. vocabulary + generated definitions --------------------------------------------------------------
    for f in ("MGFlowBase.v", "MGFlowR.v", "MGLoopSem.v"):
        write(rd / f, (TEMPLATES / f).read_text())
    ok_base, out_base = vlib.coqc(rd / "MGFlowBase.v", extra_Q=XQ, timeout=300)
    pre = [rd / "Gen_modegamma.v", rd / "MGFlowR.v", rd / "MGLoopSem.v"]
    r = vlib.coqc_many(pre, extra_Q=XQ, timeout=300) if ok_base else {p: (False, out_base) for p in pre}
    ok_gen = ok_base and all(v[0] for v in r.values())
    ctx.obligation("static tie: tools/translate_modegamma.py -> Gen_modegamma.v (regenerated from %s) compiles" % T.SRC,
                   "translator", ok_gen, "" if ok_gen else (out_base if not ok_base else "\n".join(v[1] for v in r.values())))

    # ---- 3. one lemma file per group -----------------------------------------------------------------------
    todo = [write(rd / FILE_OF[g], (TEMPLATES / FILE_OF[g]).read_text()) for g in groups if g not in why and ok_gen]
    res = vlib.coqc_many(todo, extra_Q=XQ, timeout=300) if todo else {}
    for g in groups:
        name = "static tie [%s]: %s" % (g, WHAT[g])
        if g in why:
            ctx.obligation(name, "translator-tie", False, "TranslateError: " + why[g])
            failed.append(g)
            continue
        if not ok_gen:
            ctx.obligation(name, "translator-tie", False, "Gen_modegamma.v / MGFlowBase.v / MGFlowR.v / MGLoopSem.v do not compile")
            failed.append(g)
            continue
        ok, out = res[rd / FILE_OF[g]]
        detail = ""
        if not ok:
            lem = lemma_at(rd / FILE_OF[g], out)
            hint = T.diagnose(tr, g) if tr is not None else ""
            detail = ("lemma %s of %s does not hold for the regenerated data flow\n" % (lem, FILE_OF[g]) if lem else "") \
                + (hint + "\n" if hint else "") + compact(out)
            failed.append(g)
        ctx.obligation(name, "translator-tie", ok, detail)
        for closed, names in vlib.parse_assumptions(out):
            for n in names:
                ctx.axioms[n] = ctx.axioms.get(n, 0) + 1

    # ---- 4. composition (only when everything above holds) ---------------------------------------------------
    if not failed and set(groups) == set(GROUPS):
        f = write(rd / "Tie_modegamma_all.v", (TEMPLATES / "Tie_modegamma_all.v").read_text())
        ok, out = vlib.coqc(f, extra_Q=XQ, timeout=300)
        ctx.obligation("static tie [composition]: regenerated loop calling the regenerated helper flows = "
                       "InterpModel.interpolate_modes (mode_fn lib m order) for all seven methods", "translator-tie", ok,
                       "" if ok else out)
        if not ok:
            failed.append("composition")
    if failed:
        det = ctx.extra.setdefault("static_tie_details", {})
        for o in ctx.obligations:
            m = re.match(r"static tie \[([\w-]+)\]", o["name"])
            if m and not o["ok"]:
                det[m.group(1)] = o["detail"][:600]
    ctx.extra["static_tie_failed_groups"] = sorted(set(ctx.extra.get("static_tie_failed_groups", [])) | set(failed))
    ctx.extra["static_tie_seconds"] = round(time.time() - t0, 2)
    return failed
