"""C05 - total modulus = interpolated static table + phonon part, end to end from files."""
import copy
import random
import importlib
import math
import shutil
import time
from decimal import Decimal
from fractions import Fraction
from pathlib import Path

import numpy
import yaml

import synth
import nonshear_harness as H
from vlib import PROPS, write, fhex, flist, flist2, flist3, zlit
from props.c03 import voigt_tie, SHEAR, klit

SUFFICIENT = {
    "cubic": ["11", "12", "44"],
    "hexagonal": ["11", "12", "13", "33", "44"],
    "tetragonal6": ["11", "12", "13", "33", "44", "66"],
    "tetragonal7": ["11", "12", "13", "16", "33", "44", "66"],
    "trigonal6": ["11", "12", "13", "14", "33", "44"],
    "trigonal7": ["11", "12", "13", "14", "15", "33", "44"],
    "orthorhombic": list(synth.ORTHO),
    "monoclinic": list(synth.ORTHO) + ["15", "25", "35", "46"],
}
MIXED = [k for k in synth.ALL_KEYS if k not in synth.ORTHO]
INTERP = [("lsq_poly", 2), ("lagrange", 6), ("krogh", 6), ("spline", 3), ("pchip", 6), ("lsq_poly", 3)]

HEADER = r"""
From Coq Require Import ZArith List Bool Arith Uint63 PrimFloat.
From Cij Require Import Ops FOps Voigt NonShearModel ShearModel TasksModel TotalModel.
Import ListNotations.
Local Open Scope float_scope.

Record sample := { s_key : vkey; s_adi : bool; s_ti : nat; s_vi : nat; s_val : float }.
Record case := {
  FL : @files float; OR : @oracle float; scale : float;
  ob_keys : list vkey;                       (* calc.modulus_keys *)
  ob_static : list (vkey * list float);      (* _full_modulus.get_static_modulus(key) *)
  ob_axial : list (list float);              (* _full_modulus.get_axial_strains() *)
  ob_pst : list float;                       (* calc.static_p_array *)
  ob_freq : list (list (list float));        (* calc.freq_array *)
  ob_mg : list (list (list (list float)));   (* calc.mode_gamma *)
  ob_samples : list sample }.

Definition tolc : float := 0x1.12e0be826d695p-30.                              (* 1e-9: certificate *)
Definition vclose (sc a b : float) : bool := abs (a - b) <=? 0x1.5798ee2308c3ap-27 * sc.   (* 1e-8 * scale *)
Definition aclose := close 0x1.12e0be826d695p-30 0x1.b7cdfd9d7bdbbp-34.       (* 1e-9 rel + 1e-10 abs *)
Fixpoint all_close3 (c : float -> float -> bool) (a b : list (list (list float))) : bool :=
  match a, b with [], [] => true | x :: a', y :: b' => all_close2 c x y && all_close3 c a' b' | _, _ => false end.
Fixpoint keys_eqb (a b : list vkey) : bool :=
  match a, b with [], [] => true | x :: a', y :: b' => vkey_eqb x y && keys_eqb a' b' | _, _ => false end.

(* 0: unit constant against CODATA; key set of the (filled) table = modulus_keys *)
Definition chk_units (c : case) : bool :=
  close 0x1.ad7f29abcaf48p-24 0 (o_gpa (OR c)) gpa_codata &&                     (* 1e-7 *)
  keys_eqb (map fst (f_table (FL c))) (ob_keys c) && keys_eqb (map fst (ob_static c)) (ob_keys c).
(* 1: static part of every key *)
Definition chk_static (c : case) : bool :=
  forallb (fun kv => match static_part tolc (FL c) (OR c) (fst kv) with
                     | Some st => all_close (vclose (scale c)) st (snd kv)
                     | None => false end) (ob_static c).
(* 2: axial strains *)
Definition chk_axial (c : case) : bool :=
  match frame0 tolc (FL c) (OR c) with
  | Some fr => all_close2 aclose fr (ob_axial c)
  | None => false end.
(* 3: static pressure *)
Definition chk_pst (c : case) : bool :=
  match pstatic tolc (FL c) (OR c) with
  | Some p => all_close (vclose (scale c)) p (ob_pst c)
  | None => false end.
(* 4: mode_gamma layout and the spectrum on the grid *)
Definition chk_mg (c : case) : bool :=
  all_close3 aclose (o_freq (OR c)) (ob_freq c) &&
  match mode_gamma (o_vdr (OR c)) (o_gam (OR c)), ob_mg c with
  | [a0; a1; a2], [b0; b1; b2] => all_close3 aclose a0 b0 && all_close3 aclose a1 b1 && all_close3 aclose a2 b2
  | _, _ => false end.
(* 5: total moduli at the sampled grid points *)
Definition chk_total (c : case) : bool :=
  forallb (fun s => match total tolc (FL c) (OR c) (s_adi s) (s_ti s) (s_vi s) (s_key s) with
                    | Some x => vclose (scale c) x (s_val s)
                    | None => false end) (ob_samples c).
"""
PARTS = ["units/keys", "static part", "axial strains", "static pressure", "mode_gamma layout", "total modulus"]


# ---------------------------------------------------------------------------------------------
# data sets
# ---------------------------------------------------------------------------------------------

def gen_config(rng, i):
    nv = rng.choice([4, 5, 6, 7, 8])
    nq, na = rng.choice([(1, 2), (2, 1), (2, 2), (3, 1), (3, 2), (2, 2)])
    lattice = (i % 3 != 1)
    systems = sorted(SUFFICIENT)
    system = systems[(i // 2) % len(systems)] if i % 2 == 0 else "triclinic"
    if system == "triclinic":
        extra = rng.sample(MIXED, rng.choice([1, 2, 3, 5]))
        if i % 4 == 1:
            extra = sorted(set(extra + [rng.choice(["14", "15", "46"])]))
        keys = list(synth.ORTHO) + extra
        if i % 6 == 3:
            rng.shuffle(keys)
    else:
        keys = list(SUFFICIENT[system])
    method, order = INTERP[i % len(INTERP)]
    nt = rng.choice([1, 2, 3, 4])
    dt = rng.choice([100, 150, 250, 400])
    ntv = rng.choice([5, 6, 7, 8, 9, 10, 12])
    dp = rng.choice([1.0, 1.5, 2.0])
    if ntv * dp > 18:
        dp = 1.0
    return dict(nv=nv, nq=nq, na=na, lattice=lattice, system=system, keys=keys, method=method, order=order,
                NT=nt, DT=dt, NTV=ntv, DELTA_P=dp, spectrum="powerlaw" if i % 3 else "generic",
                # the static table on the phonon file's volumes, or on its own points (same / other count)
                table_volumes=["same", "shifted", "more", "fewer"][(i // 3) % 4] if i % 3 != 2 else "shifted")


def elast_text_exact(elast):
    """elast.dat writer that keeps every digit (repr) - used for rescaled / pre-filled tables"""
    lines = ["V_0 N cellmass synthetic", "%r %d %r" % (elast["vref"], elast["nv"], elast["cellmass"])]
    lines.append("V " + " ".join("c%s" % k for k in elast["keys"]))
    for v, row in zip(elast["volumes"], elast["rows"]):
        lines.append("%r " % v + " ".join("%r" % float(x) for x in row))
    if elast["lattice"]:
        lines.append("lattice_a lattice_b lattice_c")
        for abc in elast["lattice"]:
            lines.append(" ".join("%r" % float(x) for x in abc))
    return "\n".join(lines) + "\n"


def settings_of(cfg, dp=None):
    g = dict(NT=cfg["NT"], DT=cfg["DT"], DT_SAMPLE=cfg["DT"], NTV=cfg["NTV"], DELTA_P=dp or cfg["DELTA_P"],
             DELTA_P_SAMPLE=dp or cfg["DELTA_P"])
    return synth.default_settings(
        qha=dict(settings=g),
        elast=dict(settings=dict(mode_gamma=dict(interpolator=cfg["method"], order=cfg["order"]),
                                 symmetry=dict(system=cfg["system"]))))


def write_dir(d, ds, settings, exact=False):
    d.mkdir(parents=True, exist_ok=True)
    synth.write_qha(d / "input01", ds["qha"])
    (d / "elast.dat").write_text(elast_text_exact(ds["elast"]) if exact else synth.elast_text(ds["elast"]))
    (d / "settings.yaml").write_text(yaml.safe_dump(settings, sort_keys=False))
    return d / "settings.yaml"


class Precondition(Exception):
    pass


def run_calc(sp):
    import cij.core.calculator as CC
    with numpy.errstate(all="ignore"):
        try:
            return CC.Calculator(str(sp))
        except ValueError as ex:
            if "DESIRED PRESSURE" in str(ex):
                raise Precondition(str(ex))
            raise


def build(d, ds, cfg, exact=False):
    """Calculator for the data set; DELTA_P is lowered until the requested pressures are inside the range"""
    dp = cfg["DELTA_P"]
    for _ in range(4):
        sp = write_dir(d, ds, settings_of(cfg, dp), exact)
        try:
            return run_calc(sp), dp
        except Precondition:
            dp = dp / 2
    raise Precondition("requested pressures outside the computed range")


def vk(key):
    return tuple(int(x) for x in key.v)


def kstr(k):
    return "c%d%d" % k


# ---------------------------------------------------------------------------------------------
# export of one run
# ---------------------------------------------------------------------------------------------

def shear_frames():
    import cij.core.phonon_contribution.shear as S
    from cij.util import c_
    eigs = {}
    for k in SHEAR:
        o = S.ShearElasticModulusPhononContribution(numpy.ones((1, 3)), c_(*k))
        eigs[k] = (numpy.diag(o.fictitious_strain_rotated).tolist(), numpy.array(o.transformation_matrix).tolist())
    return eigs


def own_rows(path):
    """independent reading of the static file: [(volume, {key: value}, lattice row or None)] in file order;
    row i of the lattice block belongs to row i of the table"""
    ls = [ln.split() for ln in Path(path).read_text().splitlines()]
    n = int(ls[1][1])
    keys = [tuple(int(c) for c in k.lower().lstrip("c")) for k in ls[2][1:]]
    rows = [(float(r[0]), dict(zip(keys, map(float, r[1:])))) for r in ls[3:3 + n]]
    lat = [list(map(float, r)) for r in ls[4 + n:4 + 2 * n]] if len(ls) > 3 + n and ls[3 + n] else []
    return [(v, t, lat[j] if lat else None) for j, (v, t) in enumerate(rows)]


def rows_paired(d, evols, cols, lattice, values=True):
    """None when every row the implementation holds (volume, table values of the written components, lattice row) is a
    row of the file; a description of the first row that is not otherwise"""
    own = {v: (t, l) for v, t, l in own_rows(d / "elast.dat")}
    for j, v in enumerate(evols):
        if v not in own:
            return "volume %r of the parsed table is not a volume of the file" % v
        t, l = own[v]
        for k, x in (t.items() if values else ()):     # a crystal-system filling may move listed values: fill_glue
            kk = k if k in cols else (k[1], k[0])
            if kk in cols and abs(cols[kk][j] - x) > 1e-9 * max(1.0, abs(x)):      # the fill re-derives values
                return "c%d%d at V=%r is %r in the parsed table, %r in the file" % (k + (v, cols[kk][j], x))
        if l is not None and (j >= len(lattice) or list(lattice[j]) != l):
            return ("the lattice row held for V=%r is %s, the file lists %s beside that volume (row i of the lattice block "
                    "belongs to row i of the table)" % (v, lattice[j] if j < len(lattice) else None, l))
    return None


def fill_glue(d, cfg, keys, cols):
    """None when the table the calculation starts from is fill_cij (checked by C08/C09) of the table as WRITTEN in the
    file, component for component; a description of the first difference otherwise"""
    if cfg["system"] in (None, "triclinic"):
        return None
    import pandas
    from cij.util.fill import fill_cij
    rows = own_rows(d / "elast.dat")
    df = fill_cij(pandas.DataFrame([{"c%d%d" % k: x for k, x in t.items()} for _, t, _ in rows]), system=cfg["system"])
    want = {tuple(int(c) for c in name[1:]): [float(x) for x in df[name]] for name in df.columns}
    if sorted(want) != sorted(keys):
        return "components %s, fill_cij of the file's table gives %s" % (sorted(keys), sorted(want))
    for k in keys:
        for j, (a, b) in enumerate(zip(cols[k], want[k])):
            if abs(a - b) > 1e-9 * max(1.0, abs(b)):
                return ("c%d%d at row %d is %r, fill_cij(%s) of the table in the file gives %r"
                        % (k + (j, a, cfg["system"], b)))
    return None


def filled_table(d, cfg):
    """the table the property speaks about: parsed file, crystal-system filling applied first"""
    import cij.io.traditional
    from cij.io.traditional.elast_dat import apply_symetry_on_elast_data
    ed = cij.io.traditional.read_elast_data(d / "elast.dat")
    if cfg["system"] not in (None, "triclinic"):
        apply_symetry_on_elast_data(ed, dict(system=cfg["system"]))
    keys = [vk(k) for k in ed.volumes[0].static_elastic_modulus.keys()]
    cols = {vk(k): [float(v.static_elastic_modulus[k]) for v in ed.volumes]
            for k in ed.volumes[0].static_elastic_modulus.keys()}
    return keys, cols, [float(v.volume) for v in ed.volumes], [list(map(float, r)) for r in ed.lattice_parmeters]


def observe(calc, ds, cfg, d, rng, eigs, consts):
    """oracle inputs + observations of one Calculator"""
    from qha.grid_interpolation import calculate_eulerian_strain
    from cij.util import _from_gpa, _to_gpa
    from cij.core.mode_gamma import interpolate_modes
    import cij.io.traditional
    keys, cols, evols, lattice = filled_table(d, cfg)
    varr = numpy.array(calc.v_array, float)
    tarr = numpy.array(calc.t_array, float)
    ev = numpy.array(evols)
    strains = calculate_eulerian_strain(ev[0], ev)
    with numpy.errstate(all="ignore"):
        cstat = {k: numpy.polyfit(strains, ev * _from_gpa(numpy.array(cols[k])), 3).tolist() for k in keys}
        clat = [numpy.polyfit(strains, ev * numpy.array(lattice)[:, i], 3).tolist() for i in range(3)] if lattice else []
    qvols = numpy.array([v["volume"] for v in ds["qha"]["volumes"]], float)
    ens = numpy.array([v["energy"] for v in ds["qha"]["volumes"]], float)
    qs = calculate_eulerian_strain(qvols[0], qvols)
    cen = numpy.linalg.lstsq(numpy.vander(qs, 4, increasing=True), ens, rcond=None)[0][::-1].tolist()
    qin = cij.io.traditional.read_energy(str(d / "input01"))
    with numpy.errstate(all="ignore"):
        freq, gam, vdr = interpolate_modes(qin, varr, method=cfg["method"], order=cfg["order"])
    weights = [float(w) for _, w in ds["qha"]["weights"]]
    P = numpy.array(calc.volume_base.pressures, float)
    cv = numpy.array(calc.qha_calculator.volume_base.heat_capacity, float)
    mkeys = [vk(k) for k in calc.modulus_keys]
    fm = calc._full_modulus
    ob_static = {vk(k): numpy.array(fm.get_static_modulus(k), float) for k in calc.modulus_keys}
    iso = {vk(k): numpy.array(calc.modulus_isothermal[k], float) for k in calc.modulus_keys}
    adi = {vk(k): numpy.array(calc.modulus_adiabatic[k], float) for k in calc.modulus_keys}
    ph_iso = {vk(k): numpy.array(v, float) for k, v in fm._isothermal_phonon_contribution.items()}
    ph_adi = {vk(k): numpy.array(v, float) for k, v in fm._adiabatic_phonon_contribution.items()}
    axial = numpy.array(fm.get_axial_strains(), float)
    scale = max([1e-12] + [float(numpy.nanmax(numpy.abs(x))) for x in iso.values()])
    nt, ntv = len(tarr), len(varr)
    samples = []
    for k in mkeys:
        pts = {(0, 0), (0, ntv - 1), (nt - 1, 0), (rng.randrange(nt), ntv - 1)}
        while len(pts) < 6:
            pts.add((rng.randrange(nt), rng.randrange(ntv)))
        for ti, vi in sorted(pts):
            a = (ti + vi) % 2 == 0 and k[1] <= 3
            samples.append((k, False, ti, vi, float(iso[k][ti, vi])))
            if a or (ti, vi) in ((nt - 1, 0),):
                samples.append((k, True, ti, vi, float(adi[k][ti, vi])))
    hdk, h, kb = consts
    paired = rows_paired(d, evols, cols, lattice, values=cfg["system"] in (None, "triclinic"))
    glue = fill_glue(d, cfg, keys, cols)
    return dict(paired=paired, glue=glue, keys=keys, cols=cols, evols=evols, lattice=lattice, varr=varr, tarr=tarr, cstat=cstat, clat=clat,
                cen=cen, qvols=qvols, ens=ens, freq=freq, gam=gam, vdr=vdr, weights=weights, na=ds["qha"]["na"],
                P=P, cv=cv, mkeys=mkeys, ob_static=ob_static, iso=iso, adi=adi, ph_iso=ph_iso, ph_adi=ph_adi,
                axial=axial, scale=scale, samples=samples, gpa=float(_to_gpa(1.0)), consts=consts,
                pst=numpy.array(calc.static_p_array, float), ob_freq=numpy.array(calc.freq_array, float),
                ob_mg=[numpy.array(x, float) for x in calc.mode_gamma], eigs=eigs)


def kvlist(d, keys, f):
    return "[" + ";\n   ".join("(%s, %s)" % (klit(k), f(d[k])) for k in keys) + "]"


def coq_case(o):
    hdk, h, kb = o["consts"]
    fl = ("{| f_evols := %s;\n f_table := %s;\n f_lattice := %s;\n f_qvols := %s; f_energies := %s;\n"
          " f_weights := %s; f_na := %s |}") % (
        flist(o["evols"]), kvlist(o["cols"], o["keys"], flist), flist2(o["lattice"]), flist(o["qvols"]),
        flist(o["ens"]), flist(o["weights"]), zlit(o["na"]))
    eig = "[" + ";\n   ".join("(%s, (%s, %s))" % (klit(k), flist(l), flist2(T)) for k, (l, T) in o["eigs"].items()) + "]"
    orc = ("{| o_gpa := %s; o_K := {| c_hdk := %s; c_h := %s; c_k := %s |};\n o_varr := %s; o_tarr := %s;\n"
           " o_p := %s;\n o_cv := %s;\n o_freq := %s;\n o_gam := %s;\n o_vdr := %s;\n o_cstat := %s;\n"
           " o_clat := %s;\n o_cen := %s;\n o_eig := %s |}") % (
        fhex(o["gpa"]), fhex(hdk), fhex(h), fhex(kb), flist(o["varr"]), flist(o["tarr"]), flist2(o["P"]),
        flist2(o["cv"]), flist3(o["freq"]), flist3(o["gam"]), flist3(o["vdr"]),
        kvlist(o["cstat"], o["keys"], flist), flist2(o["clat"]), flist(o["cen"]), eig)
    smp = "[" + ";\n   ".join("{| s_key := %s; s_adi := %s; s_ti := %d%%nat; s_vi := %d%%nat; s_val := %s |}"
                              % (klit(k), "true" if a else "false", ti, vi, fhex(x))
                              for k, a, ti, vi, x in o["samples"]) + "]"
    return ("{| FL := %s;\n OR := %s;\n scale := %s;\n ob_keys := [%s];\n ob_static := %s;\n ob_axial := %s;\n"
            " ob_pst := %s;\n ob_freq := %s;\n ob_mg := [%s];\n ob_samples := %s |}") % (
        fl, orc, fhex(o["scale"]), "; ".join(klit(k) for k in o["mkeys"]),
        kvlist(o["ob_static"], o["mkeys"], flist), flist2(o["axial"]), flist(o["pst"]), flist3(o["ob_freq"]),
        ";\n ".join(flist3(x) for x in o["ob_mg"]), smp)


# ---------------------------------------------------------------------------------------------
# independent oracle (plain Python / fractions; written from the property statement)
# ---------------------------------------------------------------------------------------------

GPA_CODATA = H.CODATA["Ry_J"] / Decimal("5.29177210903e-11") ** 3 / Decimal("1e9")     # 1 Ry/bohr^3 in GPa


def py_strain(v0, v):
    return 0.5 * ((v0 / v) ** (2.0 / 3.0) - 1.0)


def frac_lsq_cubic(xs, ys):
    """exact least-squares cubic through (xs, ys): normal equations solved in Fraction; lowest degree first"""
    X = [Fraction(x) for x in xs]
    Y = [Fraction(y) for y in ys]
    n = 4
    A = [[sum(x ** (i + j) for x in X) for j in range(n)] + [sum(x ** i * y for x, y in zip(X, Y))] for i in range(n)]
    for c in range(n):
        p = next(r for r in range(c, n) if A[r][c] != 0)
        A[c], A[p] = A[p], A[c]
        A[c] = [a / A[c][c] for a in A[c]]
        for r in range(n):
            if r != c and A[r][c] != 0:
                A[r] = [a - A[r][c] * b for a, b in zip(A[r], A[c])]
    return [A[i][n] for i in range(n)]


def py_fit(vols, ys, varr):
    """cubic in Eulerian strain (reference vols[0]) fitted to V*y, divided by V, on varr"""
    c = frac_lsq_cubic([py_strain(vols[0], v) for v in vols], [Fraction(v) * Fraction(y) for v, y in zip(vols, ys)])
    out = []
    for v in varr:
        f = Fraction(py_strain(vols[0], float(v)))
        out.append(float((c[0] + c[1] * f + c[2] * f * f + c[3] * f ** 3) / Fraction(float(v))))
    return out


def py_static(o, k):
    g = float(GPA_CODATA)
    return py_fit(o["evols"], [x / g for x in o["cols"][k]], o["varr"])


def py_axial(o):
    ntv = len(o["varr"])
    if not o["lattice"]:
        return [[1.0 / 3] * 3 for _ in range(ntv)], True
    cols = []
    for i in range(3):
        p = py_fit(o["evols"], [r[i] for r in o["lattice"]], o["varr"])
        col = []
        for j in range(ntv):
            hi, lo = p[min(j + 1, ntv - 1)], p[max(j - 1, 0)]
            col.append((hi - lo) / (hi + lo))
        cols.append(col)
    return [[cols[i][j] / (cols[0][j] + cols[1][j] + cols[2][j]) for i in range(3)] for j in range(ntv)], False


def py_pstatic(o):
    qv = [float(x) for x in o["qvols"]]
    c = frac_lsq_cubic([py_strain(qv[0], v) for v in qv], [Fraction(float(e)) for e in o["ens"]])
    E = []
    for v in o["varr"]:
        f = Fraction(py_strain(qv[0], float(v)))
        E.append(c[0] + c[1] * f + c[2] * f * f + c[3] * f ** 3)
    V = [Fraction(float(v)) for v in o["varr"]]
    n = len(V)

    def grad(a, j):
        if j == 0:
            return a[1] - a[0]
        if j == n - 1:
            return a[n - 1] - a[n - 2]
        return (a[j + 1] - a[j - 1]) / 2
    return [float(-grad(E, j) / grad(V, j)) for j in range(n)]


def py_phonon(o, k, adi, ti, vi, axial, pst):
    """non-shear phonon part from the C01/C02 formulas (mode sums with weights, Gamma acoustic modes excluded)"""
    hdk, h, kb = (float(H.CODATA["hdk_cmK"]), float(H.CODATA["hc_Ry_cm"]), float(H.CODATA["k_Ry_K"]))
    i, j = k[0] - 1, k[1] - 1
    row = axial[vi]
    s = row[0] + row[1] + row[2]
    ei, ej = row[i] / s, row[j] / s
    lg = (i == j)
    T = float(o["tarr"][ti])
    V = float(o["varr"][vi])
    na = o["na"]
    w = o["weights"]
    nq, np_ = len(w), 3 * na
    zp = th = si = sj = 0.0
    for q in range(nq):
        a = b = ci = cj = 0.0
        for m in range(np_):
            if q == 0 and m < 3:
                continue
            f, g, gv = float(o["freq"][vi][q][m]), float(o["gam"][vi][q][m]), float(o["vdr"][vi][q][m])
            # d2 w / de_i de_j / w  with  gamma_i = gamma/(3 e_i):  (g^2 - V dg/dV)/(n e_i e_j) [+ g/(3 e_i)]
            n = 5.0 if lg else 15.0
            A = (g * g - gv) / (n * ei * ej) + (g / (3 * ei) if lg else 0.0)
            a += A * f
            if T > 0:
                Q = hdk * f / T
                x = math.exp(-Q)
                q1 = Q * x / (1 - x)
                q2 = Q * Q * x / (1 - x) ** 2
                b += -q2 * g * g / (n * ei * ej) + q1 * A
                ci += q2 * g / (3 * ei)
                cj += q2 * g / (3 * ej)
        zp += w[q] * a / np_
        th += w[q] * b / np_
        si += w[q] * ci / np_
        sj += w[q] * cj / np_
    sw = sum(w)
    val = h / 2 / V * (zp / sw) * 3 * na
    if T > 0:
        val += kb * T / V * (th / sw) * 3 * na
    if not lg:
        val += float(o["P"][ti][vi]) - pst[vi]
    if adi and T > 0:
        val += T / V / float(o["cv"][ti][vi]) * (si / sw) * (sj / sw) * (3 * kb * na) ** 2
    return val


def describe(cfg, d, dp):
    return dict(config=dict(cfg, DELTA_P=dp), dir=str(d), elast_dat=(d / "elast.dat").read_text(),
                settings=(d / "settings.yaml").read_text(),
                qha_input="written by synth.write_qha from the data set generated with this config (see dir)")


def oracle(ctx, o, cfg, desc):
    """returns number of failures reported"""
    nf0 = len(ctx.failures)
    sc = o["scale"]
    tol = 1e-8 * sc
    want_keys = o["keys"]
    if o["mkeys"] != want_keys:
        ctx.failure("fill-not-applied-first",
                    "components computed (%s) are not the components of the %s-filled table (%s)"
                    % (" ".join(map(kstr, o["mkeys"])), cfg["system"], " ".join(map(kstr, want_keys))),
                    input=desc, expected=want_keys, observed=o["mkeys"])
    if o.get("paired"):
        ctx.failure("static-rows-paired", "the static table the fit starts from is not the table of the file: " + o["paired"],
                    input=desc, observed=dict(volumes=o["evols"], lattice=o["lattice"]))
    if o.get("glue"):
        ctx.failure("fill-not-applied-first", "the table the fit starts from is not the crystal-system filling of the file's "
                    "table: " + o["glue"], input=desc)
    g = float(GPA_CODATA)
    if abs(o["gpa"] / g - 1) > 1e-7:
        ctx.failure("gpa-factor", "1 Ry/bohr^3 is converted to %r GPa, CODATA 2018 gives %r" % (o["gpa"], g),
                    input="cij.util._to_gpa(1.0)", expected=g, observed=o["gpa"])
    ax, thirds = py_axial(o)
    obs_ax = o["axial"]
    obs_norm = obs_ax / numpy.sum(obs_ax, axis=1, keepdims=True)
    if not numpy.all(numpy.isfinite(obs_norm)) or numpy.max(numpy.abs(obs_norm - numpy.array(ax))) > 1e-8:
        ctx.failure("axial-strains",
                    "strain fractions (%s lattice block) are %s at the first grid volume, expected %s"
                    % ("without" if thirds else "with", obs_norm[0].tolist(), ax[0]),
                    input=desc, expected=ax, observed=obs_norm.tolist())
    if not thirds and numpy.max(numpy.abs(obs_ax.sum(axis=1) - 1)) > 1e-9:
        ctx.failure("axial-strains", "rows of get_axial_strains() do not sum to 1", input=desc,
                    observed=obs_ax.tolist())
    # the spectrum on the grid is the one requested in settings.yaml, stored as [V dgamma/dV, gamma, gamma^2]
    want_mg = [numpy.array(o["vdr"]), numpy.array(o["gam"]), numpy.array(o["gam"]) ** 2]
    if not numpy.allclose(o["ob_freq"], o["freq"], rtol=1e-9, atol=1e-10):
        ctx.failure("spectrum-on-grid", "calc.freq_array is not interpolate_modes(method=%s, order=%s) of the phonon file"
                    % (cfg["method"], cfg["order"]), input=desc, expected=numpy.array(o["freq"])[0].tolist(),
                    observed=o["ob_freq"][0].tolist())
    elif len(o["ob_mg"]) != 3 or not all(a.shape == b.shape and numpy.allclose(a, b, rtol=1e-9, atol=1e-10)
                                        for a, b in zip(o["ob_mg"], want_mg)):
        ctx.failure("mode-gamma-layout", "calc.mode_gamma is not [V dgamma/dV, gamma, gamma^2] of the requested interpolant",
                    input=desc, expected=[x[0].tolist() for x in want_mg], observed=[x[0].tolist() for x in o["ob_mg"]])
    pst = py_pstatic(o)
    if numpy.max(numpy.abs(numpy.array(pst) - o["pst"])) > tol:
        ctx.failure("static-pressure", "static_p_array differs from -gradient(E_fit)/gradient(V)",
                    input=desc, expected=pst, observed=o["pst"].tolist())
    for k in o["mkeys"]:
        if k not in o["cols"]:
            continue
        st = numpy.array(py_static(o, k))
        got = o["ob_static"][k]
        if not numpy.all(numpy.isfinite(got)) or numpy.max(numpy.abs(st - got)) > tol:
            ctx.failure("static-part-" + kstr(k),
                        "static %s on the volume grid is %s..., least-squares cubic in Eulerian strain of V*c(V) "
                        "(GPa -> Ry/bohr^3) gives %s..." % (kstr(k), got[:2].tolist(), st[:2].tolist()),
                        input=desc, expected=st.tolist(), observed=got.tolist())
        for name, tot, ph in (("isothermal", o["iso"], o["ph_iso"]), ("adiabatic", o["adi"], o["ph_adi"])):
            # static part has no temperature dependence:  total(T, V) - phonon(T, V) is the same row for all T
            diff = tot[k] - ph[k]
            if numpy.nanmax(numpy.abs(diff - diff[0][None, :])) > tol or not numpy.all(numpy.isfinite(diff)):
                ctx.failure("static-depends-on-T", "%s %s minus its phonon part varies with temperature"
                            % (name, kstr(k)), input=desc, observed=diff.tolist())
            elif numpy.max(numpy.abs(diff[0] - got)) > tol:
                ctx.failure("total-not-static-plus-phonon-" + kstr(k),
                            "%s %s minus its phonon part is %s..., the static part is %s..."
                            % (name, kstr(k), diff[0][:2].tolist(), got[:2].tolist()),
                            input=desc, expected=got.tolist(), observed=diff[0].tolist())
    # phonon part of the non-shear components from the formulas, at the sampled points
    for k, adi, ti, vi, val in o["samples"]:
        if k[1] > 3 or k not in o["cols"]:
            continue
        want = py_static(o, k)[vi] + py_phonon(o, k, adi, ti, vi, ax, pst)
        if not abs(want - val) <= 2e-7 * sc:
            ctx.failure("phonon-part-" + kstr(k),
                        "%s %s at T=%g K, V=%.6f is %.12g; static + strain-derivative formulas give %.12g"
                        % ("adiabatic" if adi else "isothermal", kstr(k), o["tarr"][ti], o["varr"][vi], val, want),
                        input=dict(desc, T=float(o["tarr"][ti]), V=float(o["varr"][vi])), expected=want, observed=val)
    return len(ctx.failures) - nf0


def variant_checks(ctx, rd, idx, ds, cfg, o, dp, desc):
    """second / third Calculator on modified files: the phonon part ignores the tabulated values,
    the strain fractions follow the lattice columns"""
    sc = o["scale"]
    cfg2 = dict(cfg, DELTA_P=dp)
    # (1) scale (and, without symmetry constraints, shift) all tabulated values
    ds2 = copy.deepcopy(ds)
    shift = 11.0 if cfg["system"] == "triclinic" else 0.0
    ds2["elast"]["rows"] = [[1.37 * x + shift for x in row] for row in ds["elast"]["rows"]]
    try:
        c2, _ = build(rd / ("data%02d_scaled" % idx), ds2, cfg2, exact=True)
    except Precondition:
        c2 = None
    except Exception as ex:
        ctx.failure("calculator-raises", "Calculator raised %s: %s on the rescaled table" % (type(ex).__name__, ex),
                    input=desc)
        c2 = None
    if c2 is not None:
        ctx.count("runs with rescaled static table")
        g = float(GPA_CODATA)
        for key in c2.modulus_keys:
            k = vk(key)
            if k not in o["cols"]:
                continue
            st1 = numpy.array(py_static(o, k))
            st2 = numpy.array(py_fit(o["evols"], [(1.37 * x + shift) / g for x in o["cols"][k]], o["varr"]))
            for name, t2, t1 in (("isothermal", c2.modulus_isothermal[key], o["iso"][k]),
                                 ("adiabatic", c2.modulus_adiabatic[key], o["adi"][k])):
                ph1 = t1 - st1[None, :]
                ph2 = numpy.array(t2, float) - st2[None, :]
                if not numpy.nanmax(numpy.abs(ph1 - ph2)) <= 1e-8 * sc * 1.5:
                    ctx.failure("phonon-depends-on-static",
                                "phonon part (total - static) of %s %s changes when the tabulated values are replaced "
                                "by 1.37 x + %g: max difference %.3g" % (name, kstr(k), shift,
                                                                         float(numpy.nanmax(numpy.abs(ph1 - ph2)))),
                                input=desc, expected=ph1.tolist(), observed=ph2.tolist())
    # (2) swap two lattice columns: the strain columns swap
    if ds["elast"]["lattice"]:
        a, b = [(0, 1), (0, 2), (1, 2)][idx % 3]
        ds3 = copy.deepcopy(ds)
        lat = []
        for row in ds["elast"]["lattice"]:
            r = list(row)
            r[a], r[b] = r[b], r[a]
            lat.append(tuple(r))
        ds3["elast"]["lattice"] = lat
        try:
            c3, _ = build(rd / ("data%02d_swapped" % idx), ds3, cfg2)
        except Precondition:
            c3 = None
        except Exception as ex:
            ctx.failure("calculator-raises", "Calculator raised %s: %s with lattice columns swapped"
                        % (type(ex).__name__, ex), input=desc)
            c3 = None
        if c3 is not None:
            ctx.count("runs with swapped lattice columns")
            s3 = numpy.array(c3._full_modulus.get_axial_strains(), float)
            s1 = o["axial"].copy()
            s1[:, [a, b]] = s1[:, [b, a]]
            if not numpy.max(numpy.abs(s3 - s1)) <= 1e-9:
                ctx.failure("axial-strains", "swapping lattice columns %d and %d does not swap the strain fractions"
                            % (a + 1, b + 1), input=desc, expected=s1.tolist(), observed=s3.tolist())


def rerun_probe(ctx, rd, nprobe):
    """The SAME files run twice in one process with different symmetry settings: first with a crystal system
    whose filling changes the table (cubic-consistent orthotropic table with noise below the residual
    tolerance), then without symmetry.  The second run must interpolate the values tabulated in the file -
    nothing of the earlier run (its filling, cached parses) may leak into it."""
    rng = ctx.rng
    g = float(GPA_CODATA)
    for pi in range(nprobe):
        ds = synth.make_dataset(random.Random(rng.randrange(10 ** 6)), nv=6, nq=2, na=1, lattice=False, keys=list(synth.ORTHO))
        rows = []
        for r in ds["elast"]["rows"]:
            a, b, c = r[0], r[3], r[6]          # c11, c12, c44 as the cubic values at this volume
            n = lambda: round(rng.uniform(-0.08, 0.08), 3)
            rows.append([a + n(), a + n(), a + n(), b + n(), b + n(), b + n(), c + n(), c + n(), c + n()])
        ds["elast"]["rows"] = rows
        d0 = rd / ("rerun%02d" % pi)
        cfg = dict(NT=3, DT=300, NTV=8, DELTA_P=2.0, method="lsq_poly", order=2, system="cubic")
        desc = dict(probe="same files, system cubic then triclinic", directory=str(d0), table=rows,
                    volumes=ds["elast"]["volumes"])
        try:
            c1, dp = build(d0, ds, cfg, exact=True)
            (d0 / "settings.yaml").write_text(yaml.safe_dump(settings_of(dict(cfg, system="triclinic"), dp), sort_keys=False))
            c2 = run_calc(d0 / "settings.yaml")
        except Precondition:
            continue
        except Exception as ex:
            ctx.failure("calculator-raises", "Calculator raised %s: %s in the same-files re-run probe"
                        % (type(ex).__name__, ex), input=desc)
            continue
        ctx.case(dict(kind="rerun-probe", rows=rows), nontrivial=True)
        ctx.count("same-files re-run probes")
        evols = [float(v) for v in ds["elast"]["volumes"]]
        keys = [tuple(int(ch) for ch in k) for k in ds["elast"]["keys"]]
        sc = max(abs(x) for r in rows for x in r) / g
        for key in c2.modulus_keys:
            k = vk(key)
            if k not in keys:
                ctx.failure("static-part-leaks-earlier-run", "component %s appears in a run without symmetry although "
                            "the file does not tabulate it (filling of the earlier cubic run leaked)" % kstr(k), input=desc)
                break
            col = [row[keys.index(k)] for row in rows]
            want = numpy.array(py_fit(evols, [x / g for x in col], numpy.asarray(c2.v_array, float)))
            got = numpy.array(c2._full_modulus.get_static_modulus(key), float)
            if not numpy.max(numpy.abs(got - want)) <= 1e-8 * sc:
                ctx.failure("static-part-leaks-earlier-run",
                            "same files run again without symmetry after a cubic run: static %s is not the interpolated "
                            "tabulated column (max diff %.3g Ry/bohr^3; the earlier run's filled values are used)"
                            % (kstr(k), float(numpy.max(numpy.abs(got - want)))), input=desc,
                            expected=want.tolist(), observed=got.tolist())
                break


# ---------------------------------------------------------------------------------------------

def run(ctx):
    rd = ctx.fresh_run_dir()
    ctx.rule = ("real Calculator(settings.yaml) on synthetic-but-physical data sets written to files (synth.py: BM3 "
                "energies, power-law / generic spectra, 4-8 volumes, 1-3 q-points, 1-2 atoms, with/without lattice block; "
                "triclinic with the 9 orthotropic keys + 1-5 mixed shear keys, or one of the 8 other crystal systems with "
                "its sufficient key set so that filling is exercised; interpolators lsq_poly/lagrange/krogh/spline/pchip; "
                "NT<=4, NTV<=12); static part of every key, axial strains, static pressure, mode_gamma layout and total "
                "moduli at 6 grid points per key (always T=0, first and last volume) compared with the Coq model run on "
                "floats; non-trivial = data set with a lattice block or a crystal system or a mixed shear key")
    ctx.trusted += [
        "QHA layer (v_array, t_array, P(T,V), C_V(T,V)) is an oracle input read from the Calculator",
        "interpolate_modes (freq, gamma, V dgamma/dV on the grid) is an oracle input: the harness calls it with the "
        "method/order it wrote into settings.yaml (its correctness is C11); calc.freq_array / mode_gamma are compared with it",
        "numpy.polyfit / numpy.linalg.lstsq coefficients are oracle inputs recomputed by the harness with the same call; "
        "the model certifies them (normal equations A^T(Ac-y)=0 to 1e-9 relative) before using them",
        "LAPACK eigh frames of the fictitious strains are oracle inputs (their contract is C03's per-run check)",
        "parsers of the two data files (C17) and fill_cij (C08): the model is applied to the parsed, filled table; since "
        "round 5/6 the parse and the filling GLUE are no longer trusted: every (volume, table row, lattice row) the "
        "implementation holds is compared with the check's own reading of the static file (own_rows), and the table the fit "
        "starts from with fill_cij (still trusted, C08/C09) applied to that own reading (fill_glue)",
        "unit constants are read from the implementation and compared with CODATA 2018 (1e-7)",
    ]
    ctx.partial += ["QHA free energy / pressure / heat capacity and FITPACK splines are not modelled (oracle inputs)",
                    "shear components are covered by the Coq tie only; the Python oracle recomputes static part, axial "
                    "strains, static pressure and the non-shear phonon part",
                    "fill-first is checked through the key set, the static part of the filled columns and fill_glue "
                    "(over-specified tables: c22 listed beside c11, 0.05-0.2 GPa off)"]
    voigt_tie(ctx, rd)
    shutil.copy(PROPS / "Prop_C05.v", rd / "Prop_C05.v")
    ctx.prove(rd / "Prop_C05.v", "Prop_C05.v (static interpolation / composition / axial-strain theorems)",
              "theorem-file")
    # static tie: data flow of fit_modulus / get_static_modulus / _calculate_pressure_static re-translated over oracles
    from props import staticfit_static
    staticfit_static.static_tie(ctx, rd)

    import cij.core.calculator as CC
    import cij.core.full_modulus as FMod
    import cij.core.tasks as TK
    import cij.core.phonon_contribution.shear as S
    for m in (S, TK, FMod, CC):
        importlib.reload(m)
    H.reload_impl()
    consts = H.impl_constants()
    eigs = shear_frames()
    rng = ctx.rng
    n = 12 if ctx.tier == "quick" else 200
    nvar = 4 if ctx.tier == "quick" else 60
    cases, meta = [], []
    t_calc = 0.0
    for i in range(n):
        cfg = gen_config(rng, i)
        ds = synth.make_dataset(rng, nv=cfg["nv"], nq=cfg["nq"], na=cfg["na"], lattice=cfg["lattice"],
                                keys=cfg["keys"], spectrum=cfg["spectrum"], table_volumes=cfg["table_volumes"])
        ctx.count("static table volumes: " + cfg["table_volumes"])
        # the static file may list its rows (table and lattice block alike) in any volume order
        row_order = ["decreasing", "increasing", "shuffled", "decreasing"][i % 4]
        if row_order != "decreasing":
            el = ds["elast"]
            perm = list(range(len(el["volumes"])))
            if row_order == "increasing":
                perm.reverse()
            else:
                rng.shuffle(perm)
            el["volumes"] = [el["volumes"][k] for k in perm]
            el["rows"] = [el["rows"][k] for k in perm]
            if el["lattice"]:
                el["lattice"] = [el["lattice"][k] for k in perm]
        ctx.count("static table row order: " + row_order)
        # over-specified table: c22 listed beside c11 (equal by symmetry in these systems) a little off, inside the
        # fill's acceptance window - the filling then MOVES both listed values
        if cfg["system"] in ("cubic", "hexagonal", "tetragonal6", "tetragonal7", "trigonal6", "trigonal7") and i % 4 == 0 \
                and "22" not in ds["elast"]["keys"]:
            el = ds["elast"]
            j11 = el["keys"].index("11")
            el["keys"] = list(el["keys"]) + ["22"]
            el["rows"] = [list(r) + [round(r[j11] + rng.choice([-1, 1]) * rng.uniform(0.05, 0.2), 3)] for r in el["rows"]]
            ctx.count("over-specified static table (c22 beside c11, 0.05-0.2 GPa off)")
        d = rd / ("data%02d" % i)
        t0 = time.time()
        try:
            calc, dp = build(d, ds, cfg)
        except Precondition:
            ctx.count("skipped: requested pressures outside the range")
            continue
        except Exception as ex:
            write_dir(d, ds, settings_of(cfg))
            key = "calculator-raises"
            what = "Calculator raised %s: %s" % (type(ex).__name__, ex)
            if cfg["system"] != "triclinic":
                # does the same data set work when the table is filled beforehand?
                try:
                    keys, cols, evols, lattice = filled_table(d, cfg)
                    ds2 = copy.deepcopy(ds)
                    ds2["elast"]["keys"] = ["%d%d" % k for k in keys]
                    ds2["elast"]["rows"] = [[cols[k][j] for k in keys] for j in range(len(evols))]
                    build(rd / ("data%02d_prefilled" % i), ds2, dict(cfg, system="triclinic"), exact=True)
                    key = "fill-not-applied-first"
                    what += " - but the same data with the table filled for %s beforehand is accepted" % cfg["system"]
                except Exception:
                    pass
            ctx.failure(key, what, input=describe(cfg, d, cfg["DELTA_P"]))
            continue
        t_calc += time.time() - t0
        desc = describe(cfg, d, dp)
        try:
            o = observe(calc, ds, cfg, d, rng, eigs, consts)
        except Exception as ex:
            ctx.failure("calculator-raises", "reading the results raised %s: %s" % (type(ex).__name__, ex), input=desc)
            continue
        mixed = [k for k in o["mkeys"] if k[1] > 3 and k[0] != k[1]]
        ctx.case(dict(cfg=cfg, vols=o["evols"], rows=ds["elast"]["rows"]),
                 nontrivial=bool(cfg["lattice"] or cfg["system"] != "triclinic" or mixed))
        ctx.count("system=" + cfg["system"])
        ctx.count("interpolator=" + cfg["method"])
        ctx.count("lattice block" if cfg["lattice"] else "no lattice block")
        ctx.count("nv=%d" % cfg["nv"])
        ctx.count("nq=%d na=%d" % (cfg["nq"], cfg["na"]))
        ctx.count("grid points compared", len(o["samples"]))
        ctx.count("components", len(o["mkeys"]))
        ctx.count("mixed shear components", len(mixed))
        cases.append(coq_case(o))
        meta.append(dict(config=dict(cfg, DELTA_P=dp), dir=str(d), components=[kstr(k) for k in o["mkeys"]]))
        if len(ctx.samples) < 3:
            k0 = o["mkeys"][0]
            ctx.sample(dict(config=dict(cfg, DELTA_P=dp), v_array=o["varr"].tolist(), t_array=o["tarr"].tolist(),
                            axial_strains_first_row=o["axial"][0].tolist(),
                            static=[kstr(k0), o["ob_static"][k0].tolist()],
                            isothermal_T0=o["iso"][k0][0].tolist()))
        # ---- search stage ----------------------------------------------------------------
        oracle(ctx, o, cfg, desc)
        if i < nvar:
            variant_checks(ctx, rd, i, ds, cfg, o, dp, desc)
    rerun_probe(ctx, rd, 2 if ctx.tier == "quick" else 16)
    ctx.extra["calculator_seconds"] = round(t_calc, 2)

    per = 2
    files = []
    for si in range(0, len(cases), per):
        txt = HEADER + "\nDefinition cases : list case := [\n" + ";\n".join(cases[si:si + per]) + \
            "].\nLocal Close Scope float_scope.\n" + \
            "".join("Eval vm_compute in (failing %s cases).\n" % f for f in
                    ("chk_units", "chk_static", "chk_axial", "chk_pst", "chk_mg", "chk_total"))
        files.append(write(rd / ("cases_C05_%02d.v" % (si // per)), txt))
    res = ctx.run_shards(files, label="end-to-end tie")
    for fi, f in enumerate(files):
        ok, fl, out = res[f]
        for pi, lst in enumerate(fl):
            for i in lst:
                if 0 <= i and fi * per + i < len(meta):
                    ctx.extra.setdefault("tie_disagreements", []).append(
                        dict(meta[fi * per + i], part=PARTS[pi] if pi < len(PARTS) else "?"))
