"""C14 - deterministic and isolated: hash seed, working directory, process history.

Proof part: Prop_C14.v (models in MemoModel.v / JsonModel.v / VRHModel.v / RulesModel.v).
Ties compared inside Coq: the LazyProperty model against the installed lazy_property package on
random toy classes (values and call logs), the writer-registry world against the real ResultsWriter,
the relations-file lookup against the real fill_cij under prepared working directories.
Measurement (what a theorem cannot exhibit): `cij run` in subprocesses with different PYTHONHASHSEED
and working directories, byte comparison of every output file; in one process: interleaved
Calculators, random read orders, repeated reads and writes, repeated filling."""
import copy
import os
import shutil
import subprocess
import sys
import time
from concurrent.futures import ThreadPoolExecutor
from pathlib import Path

import numpy as np

from vlib import REPO, PROPS, RUN, write, zlit, blit, coq_string
import synth
import translate_rules

# sufficient supplied key sets per packaged crystal system (independent components)
SUFFICIENT = {
    "cubic": ["11", "12", "44"],
    "hexagonal": ["11", "12", "13", "33", "44"],
    "tetragonal6": ["11", "12", "13", "33", "44", "66"],
    "tetragonal7": ["11", "12", "13", "16", "33", "44", "66"],
    "trigonal6": ["11", "12", "13", "14", "33", "44"],
    "trigonal7": ["11", "12", "13", "14", "15", "33", "44"],
    "orthorhombic": ["11", "22", "33", "12", "13", "23", "44", "55", "66"],
    "monoclinic": ["11", "22", "33", "12", "13", "23", "44", "55", "66", "15", "25", "35", "46"],
}


def nlist(xs):
    return "[" + "; ".join("%d" % x for x in xs) + "]"


def zl(xs):
    return "[" + "; ".join(zlit(x) for x in xs) + "]%Z"


# ----------------------------------------------------------------------------------------------
# 1. LazyProperty model vs the installed package
# ----------------------------------------------------------------------------------------------

def make_toy(deps, consts, coefs):
    """class with len(deps) interdependent LazyProperties p0..; instances carry a completion log"""
    from lazy_property import LazyProperty
    ns = {}
    for n in range(len(deps)):
        def method(self, n=n):
            self.entered.append(n)
            vs = [getattr(self, "p%d" % m) for m in deps[n]]
            v = consts[n] + sum(c * x for c, x in zip(coefs[n], vs))
            self.log.append(n)
            return v
        method.__name__ = "p%d" % n
        ns["p%d" % n] = LazyProperty(method)

    def init(self):
        self.log = []
        self.entered = []
    ns["__init__"] = init
    return type("Toy", (object,), ns)


def rand_toy(rng):
    k = rng.choice([3, 3, 4, 5])
    deps = []
    for n in range(k):
        if n == 0:
            deps.append([])
        else:
            m = rng.randint(0, min(n, 3) + (1 if rng.random() < 0.2 else 0))
            deps.append([rng.randrange(n) for _ in range(m)])      # repeats allowed: a method may read twice
    if k == 3 and rng.random() < 0.6:
        deps = [[], [0], [0, 1]]
    consts = [rng.randint(-9, 9) for _ in range(k)]
    coefs = [[rng.randint(-3, 3) for _ in d] for d in deps]
    return deps, consts, coefs


def toy_coq(t):
    deps, consts, coefs = t
    return "%s, %s, %s" % ("[" + "; ".join(nlist(d) for d in deps) + "]", zl(consts),
                           "[" + "; ".join(zl(c) for c in coefs) + "]")


MEMO_HEADER = r"""
From Coq Require Import ZArith List Bool Arith.
From Cij Require Import RulesModel MemoModel.
Import ListNotations.

Fixpoint dotz (a b : list Z) : Z :=
  match a, b with x :: a', y :: b' => (x * y + dotz a' b')%Z | _, _ => 0%Z end.
Definition mk_deps (d : list (list nat)) (n : nat) : list nat := nth n d [].
Definition mk_body (cs : list Z) (co : list (list Z)) (n : nat) (vs : list Z) : Z :=
  (nth n cs 0 + dotz (nth n co []) vs)%Z.
Definition oz_eqb (a : option Z) (b : Z) : bool := match a with Some x => Z.eqb x b | None => false end.
Fixpoint all2 {A B : Type} (f : A -> B -> bool) (l1 : list A) (l2 : list B) : bool :=
  match l1, l2 with
  | [], [] => true
  | x :: r1, y :: r2 => f x y && all2 f r1 r2
  | _, _ => false
  end.
(* the hypothesis deps_lt of memo_refines_pure, checked on every toy *)
Fixpoint deps_ok_from (n : nat) (d : list (list nat)) : bool :=
  match d with [] => true | l :: r => forallb (fun m => m <? n) l && deps_ok_from (S n) r end.
Definition toy := (list (list nat) * list Z * list (list Z))%type.
Definition tdeps (t : toy) := mk_deps (fst (fst t)).
Definition tbody (t : toy) := mk_body (snd (fst t)) (snd t).
Definition tok (t : toy) := deps_ok_from 0 (fst (fst t)).

(* one instance: outputs, the cache-free values, the call log (each producer at most once) *)
Definition single_ok (c : toy * list nat * list Z * list nat) : bool :=
  let '(t, rs, outs, log) := c in
  let r := run Z (tdeps t) (tbody t) rs [] in
  tok t && all2 oz_eqb (fst r) outs && all2 oz_eqb (map (eval Z (tdeps t) (tbody t)) rs) outs &&
  all2 Nat.eqb (call_log Z (snd r)) log.
(* two instances interleaved *)
Definition two_ok (c : toy * toy * list (bool * nat) * list Z * list nat * list nat) : bool :=
  let '(ta, tb, h, outs, loga, logb) := c in
  let r := run2 Z (tdeps ta) (tdeps tb) (tbody ta) (tbody tb) h [] [] in
  tok ta && tok tb && all2 oz_eqb (fst r) outs &&
  all2 oz_eqb (map (eval2 Z (tdeps ta) (tdeps tb) (tbody ta) (tbody tb)) h) outs &&
  all2 Nat.eqb (call_log Z (fst (snd r))) loga && all2 Nat.eqb (call_log Z (snd (snd r))) logb.
(* a cached value over an assigned input:  f x = a x + b *)
Definition cell_ok (c : Z * Z * list Z * list Z) : bool :=
  let '(a, b, xs, outs) := c in
  all2 oz_eqb (fst (run_cell Z Z (fun x => a * x + b)%Z xs (cell0 Z Z))) outs.
"""


def memo_shard(ctx, rd):
    rng = ctx.rng
    n_single = 120 if ctx.tier == "quick" else 1000
    n_two = 60 if ctx.tier == "quick" else 500
    n_cell = 40 if ctx.tier == "quick" else 300
    singles, twos, cells = [], [], []
    py_bad = []
    for i in range(n_single):
        t = rand_toy(rng)
        k = len(t[0])
        obj = make_toy(*t)()
        rs = [rng.randrange(k) for _ in range(rng.randint(1, 12))]
        outs = [getattr(obj, "p%d" % n) for n in rs]
        singles.append((t, rs, outs, list(obj.log)))
        if sorted(obj.entered) != sorted(set(obj.entered)):
            py_bad.append(("single", i))
        ctx.case(["memo-single", t, rs], nontrivial=len(set(rs)) < len(rs) or any(t[0][n] for n in rs))
    for i in range(n_two):
        ta, tb = rand_toy(rng), rand_toy(rng)
        a, b = make_toy(*ta)(), make_toy(*tb)()
        h = []
        for _ in range(rng.randint(2, 14)):
            w = rng.random() < 0.5
            h.append((w, rng.randrange(len((ta if w else tb)[0]))))
        outs = [getattr(a if w else b, "p%d" % n) for w, n in h]
        twos.append((ta, tb, h, outs, list(a.log), list(b.log)))
        ctx.case(["memo-two", ta, tb, h])
    from lazy_property import LazyProperty

    class Cell:
        def __init__(self, a, b):
            self.a, self.b = a, b

        @LazyProperty
        def val(self):
            return self.a * self.inp + self.b

        @property
        def val2(self):
            return self.val
    for i in range(n_cell):
        a, b = rng.randint(-5, 5), rng.randint(-9, 9)
        xs = [rng.randint(-4, 4) for _ in range(rng.randint(1, 6))]
        if rng.random() < 0.3:
            xs = [xs[0]] * len(xs)
        c = Cell(a, b)
        outs = []
        for j, x in enumerate(xs):
            c.inp = x
            outs.append(c.val if j % 2 == 0 else c.val2)
        cells.append((a, b, xs, outs))
        ctx.case(["memo-cell", a, b, xs], nontrivial=len(set(xs)) > 1)
    ctx.count("LazyProperty toy histories (one instance)", n_single)
    ctx.count("LazyProperty toy histories (two instances interleaved)", n_two)
    ctx.count("assigned-input cell histories", n_cell)
    txt = [MEMO_HEADER]
    txt.append("Definition singles : list (toy * list nat * list Z * list nat) := [\n  " + ";\n  ".join(
        "((%s), %s, %s, %s)" % (toy_coq(t), nlist(rs), zl(outs), nlist(log)) for t, rs, outs, log in singles) + "].")
    txt.append("Definition twos : list (toy * toy * list (bool * nat) * list Z * list nat * list nat) := [\n  " + ";\n  ".join(
        "((%s), (%s), [%s], %s, %s, %s)" % (toy_coq(ta), toy_coq(tb),
                                             "; ".join("(%s, %d)" % (blit(w), n) for w, n in h), zl(outs),
                                             nlist(la), nlist(lb)) for ta, tb, h, outs, la, lb in twos) + "].")
    txt.append("Definition cells : list (Z * Z * list Z * list Z) := [\n  " + ";\n  ".join(
        "(%s%%Z, %s%%Z, %s, %s)" % (zlit(a), zlit(b), zl(xs), zl(outs)) for a, b, xs, outs in cells) + "].")
    txt.append("Eval vm_compute in (failing14 single_ok singles).\nEval vm_compute in (failing14 two_ok twos).\n"
               "Eval vm_compute in (failing14 cell_ok cells).\n")
    f = write(rd / "cases_memo.v", "\n".join(txt))
    res = ctx.run_shards([f], extra_Q=[(rd, "CijGen")], label="LazyProperty model vs lazy_property package")
    ok, fl, out = res[f]
    ctx.sample(dict(kind="memo-single", deps=singles[0][0][0], reads=singles[0][1], outputs=singles[0][2],
                    call_log=singles[0][3]))
    if fl and len(fl) >= 3:
        for i in fl[0][:3]:
            t, rs, outs, log = singles[i]
            ctx.failure("read-twice-differs", "lazy_property.LazyProperty deviates from the memo model on a toy class",
                        input=dict(deps=t[0], consts=t[1], coefs=t[2], reads=rs), observed=dict(outputs=outs, log=log),
                        expected="each read = cache-free value; each producer runs once")
        for i in fl[1][:3]:
            ta, tb, h, outs, la, lb = twos[i]
            ctx.failure("history-dependence", "two toy instances interleaved deviate from the model",
                        input=dict(a=ta, b=tb, history=h), observed=dict(outputs=outs, log_a=la, log_b=lb))
        for i in fl[2][:3]:
            ctx.failure("read-twice-differs", "assigned-input cell deviates from the model", input=cells[i])
    if py_bad:
        ctx.failure("read-twice-differs", "a LazyProperty producer was entered twice", input=py_bad[:3])


# ----------------------------------------------------------------------------------------------
# 2. writer registries
# ----------------------------------------------------------------------------------------------

WRITER_HEADER = r"""
From Coq Require Import ZArith List Bool Arith String.
From Cij Require Import RulesModel MemoModel.
From CijGen Require Import Gen_rules.
Import ListNotations.
Local Open Scope string_scope.

Definition dummy : rule := mkRule [] "" "" "" "" VValue.
Definition pick (idx : list nat) : list rule := map (fun i => nth i rules dummy) idx.
Inductive op := ONew (custom : option (list nat)) | OWrite (i : nat) (kw : string).
Definition to_wop (o : op) : wop :=
  match o with ONew None => WNew None | ONew (Some l) => WNew (Some (pick l)) | OWrite i kw => WWrite i kw end.
(* observed: index (in [rules]) of the rule a write resolved, None = KeyError / no write *)
Definition res_ok (m : option rule) (o : option nat) : bool :=
  match m, o with
  | None, None => true
  | Some r, Some i => rule_eqb r (nth i rules dummy)
  | _, _ => false
  end.
Fixpoint all2 {A B : Type} (f : A -> B -> bool) (l1 : list A) (l2 : list B) : bool :=
  match l1, l2 with [], [] => true | x :: r1, y :: r2 => f x y && all2 f r1 r2 | _, _ => false end.
Definition world_ok (c : list op * list (option nat)) : bool :=
  let '(ops, obs) := c in
  let r := wrun (mkWorld rules []) (map to_wop ops) in
  all2 res_ok (fst r) obs && (Nat.eqb (List.length (w_shared (snd r))) (List.length rules)).
"""


def rule_index(rules_yaml, r):
    for i, y in enumerate(rules_yaml):
        if (list(y["keywords"]) == list(r.keywords) and y["fname_pattern"] == r.fname_pattern and y["prop"] == r.prop
                and y["unit"] == r.unit and y["unit_internal"] == r.unit_internal and y["var_type"] == r.var_type):
            return i
    return None


def writers_tie(ctx, rd, snapshot_rules):
    import yaml
    import cij.io.output.results_writer as RW
    from cij.util import c_
    src = (REPO / "cij/data/output/writer_rules.yml").read_text()
    try:
        write(rd / "Gen_rules.v", translate_rules.translate(src))
    except translate_rules.Untranslatable as e:
        ctx.obligation("translate writer_rules.yml -> Gen_rules.v", "translator", False, str(e))
        return
    ok, out = ctx.prove(rd / "Gen_rules.v", "translate writer_rules.yml -> Gen_rules.v", "translator",
                        extra_Q=[(rd, "CijGen")])
    if not ok:
        return
    rules_yaml = yaml.safe_load(src)
    if RW.DEFAULT_WRITER_RULES != rules_yaml:
        ctx.failure("history-dependence", "DEFAULT_WRITER_RULES differs from writer_rules.yml right after import",
                    input="import cij.io.output.results_writer", expected="the packaged rule list")
    ij_props = {y["prop"] for y in rules_yaml if y["var_type"] == "ij_value"}
    all_kw = [k for y in rules_yaml for k in y["keywords"]]

    class Stub:
        _base_name = "tp"

        def __init__(self):
            self.written = []

        def __getattr__(self, name):
            if name.startswith("__"):
                raise AttributeError(name)
            if name in ij_props:
                return {c_(1, 1): np.ones((2, 2)), c_(4, 4): np.ones((2, 2))}
            return np.ones((2, 2))

        def write_table(self, fname, value):
            self.written.append(fname)

    rng = ctx.rng
    nworld = 40 if ctx.tier == "quick" else 500
    worlds = []
    for wi in range(nworld):
        ops, obs, writers = [], [], []
        for _ in range(rng.randint(3, 14)):
            if not writers or rng.random() < 0.3:
                if rng.random() < 0.4:
                    idx = [rng.randrange(len(rules_yaml)) for _ in range(rng.randint(0, 5))]
                    writers.append(RW.ResultsWriter(Stub(), [rules_yaml[i] for i in idx]))
                    ops.append("ONew (Some %s)" % nlist(idx))
                else:
                    writers.append(RW.ResultsWriter(Stub()))
                    ops.append("ONew None")
                obs.append("None")
            else:
                i = rng.randrange(len(writers))
                kw = rng.choice(all_kw) if rng.random() < 0.9 else "no_such_keyword"
                w = writers[i]
                try:
                    before = len(w.base.written)
                    w.write(kw)
                    r = w.registry[kw]
                    ri = rule_index(rules_yaml, r)
                    obs.append("Some %d" % ri if ri is not None and len(w.base.written) > before else "Some 9999")
                except KeyError:
                    obs.append("None")
                ops.append("OWrite %d %s" % (i, coq_string(kw)))
        # every writer resolves every keyword at the end as the model says (re-lookup after all activity)
        for i, w in enumerate(writers):
            kw = rng.choice(all_kw)
            ops.append("OWrite %d %s" % (i, coq_string(kw)))
            r = w.registry.get(kw)
            ri = rule_index(rules_yaml, r) if r is not None else None
            obs.append("None" if r is None else ("Some %d" % ri if ri is not None else "Some 9999"))
        worlds.append((ops, obs))
        ctx.case(["writers", ops])
    ctx.count("writer histories (create / write with default and custom rule lists)", nworld)
    txt = [WRITER_HEADER, "Definition worlds : list (list op * list (option nat)) := [\n  " + ";\n  ".join(
        "([%s], [%s])" % ("; ".join(o), "; ".join(b)) for o, b in worlds) + "].",
        "Eval vm_compute in (failing14 world_ok worlds)."]
    f = write(rd / "cases_writers.v", "\n".join(txt))
    res = ctx.run_shards([f], extra_Q=[(rd, "CijGen")], label="writer registry world vs ResultsWriter")
    ok, fl, out = res[f]
    if fl and fl[0]:
        for i in fl[0][:3]:
            ctx.failure("history-dependence", "ResultsWriter resolves a keyword differently from a fresh registry "
                        "of its own rule list", input=dict(ops=worlds[i][0]), observed=worlds[i][1])
    if RW.DEFAULT_WRITER_RULES != snapshot_rules or RW.DEFAULT_WRITER_RULES != rules_yaml:
        ctx.failure("history-dependence", "the shared module-level DEFAULT_WRITER_RULES changed while writers were used",
                    input="ResultsWriter(base).write(kw) histories (see sample)", expected="unchanged rule list",
                    observed="%d rules now, %d in writer_rules.yml" % (len(RW.DEFAULT_WRITER_RULES), len(rules_yaml)))


# ----------------------------------------------------------------------------------------------
# 3. relations-file lookup under prepared working directories
# ----------------------------------------------------------------------------------------------

LOOKUP_HEADER = r"""
From Coq Require Import List Bool String.
From Cij Require Import RulesModel MemoModel.
Import ListNotations.
Local Open Scope string_scope.
Definition case_ok (c : listing * string * located) : bool :=
  let '(l, s, obs) := c in located_eqb (locate l s) obs.
Definition old_ok (c : listing * string * located) : bool :=
  let '(l, s, obs) := c in located_eqb (locate_before_fix l s) obs.
"""


def rand_table(rng, keys, nv=3):
    import pandas
    cols = {"c%s" % k: [round(rng.uniform(40, 400) * (1 + 0.05 * i), 3) for i in range(nv)] for k in keys}
    for k in keys:
        if k[0] != k[1] and k not in ("12", "13", "23"):
            cols["c%s" % k] = [round(rng.uniform(5, 30) * (1 + 0.05 * i), 3) for i in range(nv)]
    return pandas.DataFrame(cols)


def tables_equal(a, b, tol=1e-9):
    if list(a.columns) != list(b.columns) or a.shape != b.shape:
        return False
    return bool(np.allclose(a.to_numpy(dtype=float), b.to_numpy(dtype=float), rtol=tol, atol=tol))


def lookup_tie(ctx, rd):
    import builtins
    import cij.data
    import cij.util.fill as FILL
    rng = ctx.rng
    systems = sorted(p.name for p in (REPO / "cij/data/constraints").iterdir() if p.is_file())
    packaged = {s: Path(cij.data.get_data_fname("constraints/" + s)).resolve() for s in systems}
    opened = []

    def rec_open(p, *a, **k):
        opened.append(str(p))
        return builtins.open(p, *a, **k)
    cases = []
    home = os.getcwd()
    FILL.open = rec_open          # module global shadowing the builtin: observation hook, /repo untouched
    try:
        for s in systems:
            keys = SUFFICIENT.get(s, synth.ALL_KEYS)
            df = rand_table(rng, keys)
            listings = [
                [],
                [("notes.txt", "F"), ("data", "D"), ("constraints", "D"), (s + ".txt", "F"), (s.upper(), "F")],
                [(s, "D")],
                [(s, "F")],
                [(s, "D"), ("elast.dat", "F"), ("input01", "F")],
                [("x" + s, "D"), ("settings.yaml", "F")],
            ]
            base = None
            for li, lst in enumerate(listings):
                cwd = rd / "cwd" / ("%s_%d" % (s, li))
                cwd.mkdir(parents=True)
                for name, kind in lst:
                    if kind == "D":
                        (cwd / name).mkdir()
                        (cwd / name / s).write_text("c11 = 0\n")       # decoy relations inside directories
                    elif name == s:
                        shutil.copy(packaged[s], cwd / name)             # a user-written relations file (valid)
                    else:
                        (cwd / name).write_text("c11 = -c22 = 0\n")
                os.chdir(cwd)
                del opened[:]
                try:
                    res = FILL.fill_cij(df.copy(), s)
                    err = None
                except UnboundLocalError as e:
                    res, err = None, "UnboundLocalError: %s" % e
                except BaseException as e:
                    res, err = None, "%s: %s" % (type(e).__name__, e)
                finally:
                    os.chdir(home)
                if err and err.startswith("UnboundLocalError"):
                    obs = "Unbound"
                elif opened and Path(opened[0]).is_absolute() and Path(opened[0]).resolve() == packaged[s]:
                    obs = "Packaged %s" % coq_string(s)
                elif opened and (cwd / opened[0]).resolve() == (cwd / s).resolve():
                    obs = "UserFile %s" % coq_string(s)
                else:
                    obs = "Packaged %s" % coq_string("?? " + (opened[0] if opened else "nothing opened")[:60].replace('"', "'"))
                cases.append((lst, s, obs, err))
                ctx.case(["lookup", s, lst], nontrivial=bool(lst))
                listing_desc = ["%s%s" % (n, "/" if k == "D" else "") for n, k in lst]
                if obs == "Unbound":
                    ctx.failure("fill-cwd-shadow-unbound",
                                "fill_cij raises UnboundLocalError when the working directory holds an entry named like the system",
                                input=dict(cwd_entries=listing_desc, call="fill_cij(df, %r)" % s, columns=list(df.columns)),
                                expected="packaged relations cij/data/constraints/%s are used" % s, observed=err)
                elif li == 0:
                    base = res
                    if err:
                        ctx.obligation("fill_cij(%s) on a sufficient table in a clean cwd" % s, "machinery", False, err)
                elif base is not None and not any(n == s and k == "F" for n, k in lst):
                    if res is None or not tables_equal(res, base, 0.0):
                        # separate the causes: the same call once more in the empty directory
                        os.chdir(rd / "cwd" / ("%s_0" % s))
                        try:
                            again = FILL.fill_cij(df.copy(), s)
                            again_err = None
                        except BaseException as e:
                            again, again_err = None, "%s: %s" % (type(e).__name__, e)
                        finally:
                            os.chdir(home)
                        if again is not None and tables_equal(again, base, 0.0):
                            ctx.failure("cwd-output-differs", "fill_cij result depends on unrelated working-directory entries",
                                        input=dict(cwd_entries=listing_desc, call="fill_cij(df, %r)" % s,
                                                   table=df.to_dict("list")),
                                        expected="same table as in an empty working directory",
                                        observed=err or res.to_dict("list"))
                        else:
                            ctx.failure("history-dependence", "fill_cij called again with the same table in the same (empty) "
                                        "working directory gives a different result",
                                        input=dict(steps=["fill_cij(df, %r)" % s] * 2, table=df.to_dict("list"),
                                                   earlier_calls="fill_cij on tables of the systems before %s" % s),
                                        expected=base.to_dict("list"),
                                        observed=again_err or again.to_dict("list"))
    finally:
        del FILL.open
        os.chdir(home)
    ctx.count("cwd listings x crystal systems (fill_cij lookup)", len(cases))
    lit = lambda lst: "[" + "; ".join("(%s, %s)" % (coq_string(n), "KDir" if k == "D" else "KFile") for n, k in lst) + "]"
    txt = [LOOKUP_HEADER, "Definition cases : list (listing * string * located) := [\n  " + ";\n  ".join(
        "(%s, %s, %s)" % (lit(l), coq_string(s), o) for l, s, o, _ in cases) + "].",
        "Eval vm_compute in (failing14 case_ok cases).",
        "(* informational: does the pre-ff7b5dd model describe the observations? (expected: no) *)",
        "Definition old_model_matches := forallb old_ok cases.", "Eval vm_compute in old_model_matches."]
    f = write(rd / "cases_lookup.v", "\n".join(txt))
    res = ctx.run_shards([f], extra_Q=[(rd, "CijGen")], label="relations-file lookup model vs fill_cij")
    ok, fl, out = res[f]
    ctx.extra["lookup_model"] = "locate (is_file ? user file : packaged)" if ok and fl and not fl[0] else "MISMATCH"
    ctx.sample(dict(kind="lookup", system=cases[2][1], cwd=cases[2][0], observed=cases[2][2]))
    return systems


# ----------------------------------------------------------------------------------------------
# 4. subprocess measurement
# ----------------------------------------------------------------------------------------------

def prepare_cwd(cwd, variant, system):
    """returns {relative name: bytes} of the files put there before the run"""
    cwd.mkdir(parents=True)
    if variant in ("extra", "both"):
        (cwd / "notes.txt").write_text("unrelated\n")
        (cwd / "settings.yaml").write_text("qha: {input: nowhere}\n")
        (cwd / "input01").write_text("not a phonon file\n")
        (cwd / "elast.dat").write_text("not a table\n")
        (cwd / "writer_rules.yml").write_text("[]\n")
        (cwd / "constraints").mkdir()
        (cwd / "constraints" / system).write_text("c11 = -c22\n")
        (cwd / "data").mkdir()
        (cwd / "data" / "settings.yaml").write_text("{}\n")
        (cwd / (system + ".bak")).write_text("c11 = 0\n")
    if variant in ("sysdir", "both"):
        (cwd / system).mkdir()
        (cwd / system / system).write_text("c11 = 0\n")
    return {str(p.relative_to(cwd)): p.read_bytes() for p in cwd.rglob("*") if p.is_file()}


def launch(job):
    tag, seed, variant, settings_path, system, root = job
    cwd = root / tag
    pre = prepare_cwd(cwd, variant, system)
    env = dict(os.environ)
    env["PYTHONHASHSEED"] = str(seed)
    env.setdefault("NUMBA_CACHE_DIR", str(RUN / ".numba"))
    cmd = ["timeout", "900", sys.executable, "-W", "ignore", "-m", "cij.cli.cij", "run", str(settings_path)]
    t0 = time.time()
    p = subprocess.run(cmd, cwd=str(cwd), env=env, stdout=subprocess.PIPE, stderr=subprocess.PIPE, text=True)
    after = {str(q.relative_to(cwd)): q.read_bytes() for q in cwd.rglob("*") if q.is_file()}
    files = {n: b for n, b in after.items() if n not in pre}
    touched = sorted(n for n, b in pre.items() if after.get(n) != b)
    return dict(tag=tag, seed=seed, variant=variant, rc=p.returncode, stderr=p.stderr[-1500:], files=files,
                touched=touched, wall=time.time() - t0,
                cmd="cd %s && PYTHONHASHSEED=%s python -m cij.cli.cij run %s" % (cwd, seed, settings_path),
                cwd_entries=sorted(pre))


def first_diff(a, b):
    names = sorted(set(a) | set(b))
    for n in names:
        if n not in a or n not in b:
            return dict(file=n, problem="only in %s" % ("reference" if n in a else "this run"))
        if a[n] != b[n]:
            la, lb = a[n].decode(errors="replace").splitlines(), b[n].decode(errors="replace").splitlines()
            for i, (x, y) in enumerate(zip(la, lb)):
                if x != y:
                    return dict(file=n, line=i + 1, reference=x[:200], this_run=y[:200])
            return dict(file=n, problem="length differs (%d vs %d lines)" % (len(la), len(lb)))
    return None


def subprocess_runs(ctx, rd, settings_path, system, describe):
    rng = ctx.rng
    seeds = [0, 1, rng.randrange(2, 2 ** 32 - 1), 4294967295]
    if ctx.tier == "quick":
        plan = [(seeds[0], "clean"), (seeds[1], "extra"), (seeds[2], "sysdir"), (seeds[3], "clean")]
    else:
        plan = [(s, v) for v in ("clean", "extra", "sysdir", "both") for s in seeds]
    root = rd / "sub"
    jobs = [("r%02d_seed%s_%s" % (i, s, v), s, v, settings_path, system, root) for i, (s, v) in enumerate(plan)]
    t0 = time.time()
    with ThreadPoolExecutor(max_workers=min(8, len(jobs))) as ex:
        runs = list(ex.map(launch, jobs))
    ctx.extra["subprocess_wall_s"] = round(time.time() - t0, 1)
    ctx.extra["subprocess_runs"] = [dict(tag=r["tag"], rc=r["rc"], files=len(r["files"]), wall=round(r["wall"], 1)) for r in runs]
    ref = runs[0]
    if ref["rc"] != 0 or not ref["files"]:
        ctx.obligation("reference `cij run` (seed %s, clean cwd) completes and writes files" % ref["seed"], "machinery",
                       False, ref["stderr"])
        return None
    ctx.obligation("reference `cij run` completes and writes %d files" % len(ref["files"]), "measurement", True)
    ctx.count("cij run subprocesses", len(runs))
    ctx.count("output files compared byte-wise", sum(len(r["files"]) for r in runs[1:]))
    nbad = 0
    for r in runs[1:]:
        ctx.case(["subprocess", r["seed"], r["variant"]])
        d = None if r["rc"] == 0 else dict(problem="exit status %d" % r["rc"], stderr=r["stderr"][-600:])
        if d is None:
            d = first_diff(ref["files"], r["files"])
        if d is None and r["touched"]:
            d = dict(problem="pre-existing files modified", files=r["touched"])
        if d is None:
            continue
        nbad += 1
        inp = dict(describe, command=r["cmd"], hash_seed=r["seed"], cwd_entries=r["cwd_entries"],
                   reference_command=ref["cmd"])
        if r["rc"] != 0 and "UnboundLocalError" in r["stderr"] and "constraints" in r["stderr"]:
            ctx.failure("fill-cwd-shadow-unbound", "cij run crashes when the working directory holds an entry named like the crystal system",
                        input=inp, expected="byte-identical output to the clean working directory", observed=d)
            continue
        if r["variant"] == ref["variant"]:
            key = "hashseed-output-differs"
        else:     # separate the two causes: same seed in a clean cwd
            diag = launch(("diag_%s" % r["tag"], r["seed"], "clean", settings_path, system, root))
            same = diag["rc"] == 0 and first_diff(ref["files"], diag["files"]) is None
            key = "cwd-output-differs" if same else "hashseed-output-differs"
        ctx.failure(key, "output of `cij run` differs from the reference run (%s)" %
                    ("hash seed" if key.startswith("hash") else "working directory contents"),
                    input=inp, expected="byte-identical files", observed=d)
    ctx.obligation("all %d subprocess runs byte-identical to the reference (%d files each)" % (len(runs) - 1, len(ref["files"])),
                   "measurement", nbad == 0)
    ctx.sample(dict(kind="subprocess", runs=[(r["seed"], r["variant"]) for r in runs], files=sorted(ref["files"])[:6]))
    return ref


# ----------------------------------------------------------------------------------------------
# 5. in-process measurement
# ----------------------------------------------------------------------------------------------

def flat(x):
    """result value -> list of arrays"""
    if isinstance(x, dict):
        return [a for k in x for a in flat(x[k])]
    if isinstance(x, (tuple, list)):
        return [a for y in x for a in flat(y)]
    return [np.array(x, copy=True)]


def same(a, b):
    a, b = flat(a), flat(b)
    return len(a) == len(b) and all(x.shape == y.shape and x.dtype == y.dtype and np.array_equal(x, y, equal_nan=True)
                                    for x, y in zip(a, b))


def result_getters(calc):
    g = []
    for k in list(calc.modulus_keys):
        s = "%d%d" % tuple(k.v)
        g.append(("modulus_adiabatic[%s]" % s, lambda k=k: calc.modulus_adiabatic[k]))
        g.append(("modulus_isothermal[%s]" % s, lambda k=k: calc.modulus_isothermal[k]))
        g.append(("pressure_base.modulus_adiabatic[%s]" % s, lambda k=k: calc.pressure_base.modulus_adiabatic[k]))
        g.append(("pressure_base.modulus_isothermal[%s]" % s, lambda k=k: calc.pressure_base.modulus_isothermal[k]))
        for base in ("volume_base", "pressure_base"):
            g.append(("%s.c%ss" % (base, s), lambda b=base, s=s: getattr(getattr(calc, b), "c%ss" % s)))
            g.append(("%s.c%st" % (base, s), lambda b=base, s=s: getattr(getattr(calc, b), "c%st" % s)))
    for k in list(calc._compliances):
        s = "%d%d" % tuple(k.v)
        g.append(("_compliances[%s]" % s, lambda k=k: calc._compliances[k]))
        g.append(("pressure_base.s%s" % s, lambda s=s: getattr(calc.pressure_base, "s%s" % s)))
    for base in ("volume_base", "pressure_base"):
        for p in ("bulk_modulus_voigt", "bulk_modulus_reuss", "bulk_modulus_voigt_reuss_hill", "shear_modulus_voigt",
                  "shear_modulus_reuss", "shear_modulus_voigt_reuss_hill", "primary_velocities", "secondary_velocities",
                  "t_array"):
            g.append(("%s.%s" % (base, p), lambda b=base, p=p: getattr(getattr(calc, b), p)))
    g.append(("volume_base.pressures", lambda: calc.volume_base.pressures))
    g.append(("volume_base.v_array", lambda: calc.volume_base.v_array))
    g.append(("pressure_base.volumes", lambda: calc.pressure_base.volumes))
    g.append(("pressure_base.p_array", lambda: calc.pressure_base.p_array))
    g.append(("static_p_array", lambda: calc.static_p_array))
    g.append(("modulus_keys", lambda: np.array([tuple(k.v) for k in calc.modulus_keys])))
    tl = calc._full_modulus._phonon_contribution_task_list
    for i, t in enumerate(tl.data):
        g.append(("task[%d].value_isothermal" % i, lambda t=t: t.calculator.value_isothermal))
        g.append(("task[%d].value_adiabatic" % i, lambda t=t: t.calculator.value_adiabatic))
        g.append(("task[%d].get_modulus_adiabatic()" % i, lambda t=t: t.get_modulus_adiabatic()))
        g.append(("task[%d].get_modulus_isothermal()" % i, lambda t=t: t.get_modulus_isothermal()))
        if not t.key.is_shear:
            g.append(("task[%d].zero_point_contribution" % i, lambda t=t: t.calculator.zero_point_contribution))
            g.append(("task[%d].thermal_contribution" % i, lambda t=t: t.calculator.thermal_contribution))
    return g


def read_all(calc, order=None):
    g = result_getters(calc)
    idx = list(range(len(g)))
    if order is not None:
        order.shuffle(idx)
    out = {}
    for i in idx:
        out[g[i][0]] = flat(g[i][1]())
    return out, [g[i][0] for i in idx]


def diff_names(a, b):
    return [n for n in sorted(set(a) | set(b)) if n not in a or n not in b or not same(a[n], b[n])]


def write_in(calc, d):
    home = os.getcwd()
    d.mkdir(parents=True, exist_ok=True)
    os.chdir(d)
    try:
        calc.write_output()
    finally:
        os.chdir(home)
    return {p.name: p.read_bytes() for p in d.iterdir() if p.is_file()}


NONSHEAR_PROPS = ["prefactors", "mode_gamma", "Q", "Q1", "Q2", "zero_point_contribution", "thermal_contribution",
                  "value_isothermal", "isothermal_to_adiabatic", "value_adiabatic"]
SHEAR_PROPS = ["fictitious_strain", "fictitious_strain_rotated", "transformation_matrix", "strain_rotated",
               "fictitious_strain_energy", "fictitious_strain_energy_rotated", "value_isothermal", "value_adiabatic"]


def fresh_contribution(task, calc):
    c = task.calculator
    if task.key.is_shear:
        n = type(c)(*task.params, calc)
        n.modulus = task.modulus_results
        n.modulus_rotated = task.modulus_results_rotated
        return n, SHEAR_PROPS
    return type(c)(calc, task.params), NONSHEAR_PROPS


def in_process(ctx, rd, spA, spB, describeA, describeB, ref):
    import cij.core.calculator as CC
    import cij.io.traditional
    from cij.io.traditional.elast_dat import apply_symetry_on_elast_data
    import random
    rng = ctx.rng
    norders = 3 if ctx.tier == "quick" else 30

    def hist(msg, inp, observed):
        ctx.failure("history-dependence", msg, input=inp, expected="results identical to a fresh calculation",
                    observed=observed)

    done = []

    class Stop(Exception):
        pass

    def mk(which):
        """Calculator(A|B); a crash after other calculations in this process is history dependence when the
        fresh-process run of the same data set completed"""
        try:
            c = CC.Calculator(str(spA if which == "A" else spB))
        except Exception as e:
            if which == "A" and ref is not None and done:
                hist("Calculator(A) raises in a process that ran other calculations before, while a fresh `cij run` of A completes",
                     dict(steps=done + ["Calculator(A)"], A=describeA, B=describeB, reference=ref["cmd"]),
                     "%s: %s" % (type(e).__name__, e))
                raise Stop()
            raise
        done.append("Calculator(%s)" % which)
        return c

    # B first, then A: A after B must reproduce the fresh-process reference byte for byte
    B0 = mk("B")
    RB0, _ = read_all(B0)
    A0 = mk("A")
    RA0, canon_order = read_all(A0)
    ctx.count("results read per Calculator", len(RA0))
    filesA0 = write_in(A0, rd / "inproc" / "A0")
    if ref is not None:
        d = first_diff(ref["files"], filesA0)
        ctx.case(["inproc-vs-subprocess"])
        if d is not None:
            hist("Calculator(A).write_output() in a process that ran data set B first differs from a fresh `cij run` of A",
                 dict(steps=["Calculator(B)", "read all results of B", "Calculator(A)", "A.write_output()"], A=describeA,
                      B=describeB, reference=ref["cmd"]), d)
        ctx.obligation("in-process A (after B) writes the %d files of the fresh-process reference byte-identically"
                       % len(ref["files"]), "measurement", d is None)
    # A, B, A again / random read orders / read twice
    nb = 0
    for j in range(norders):
        seed = rng.randrange(10 ** 9)
        Bj = mk("B")
        Aj = mk("A")
        orderA, orderB = random.Random(seed), random.Random(seed + 1)
        if j % 2 == 0:      # interleave reads of the two calculators
            ga, gb = result_getters(Aj), result_getters(Bj)
            items = [("A", i) for i in range(len(ga))] + [("B", i) for i in range(len(gb))]
            orderA.shuffle(items)
            RA, RB = {}, {}
            for w, i in items:
                if w == "A":
                    RA[ga[i][0]] = flat(ga[i][1]())
                else:
                    RB[gb[i][0]] = flat(gb[i][1]())
            how = "reads of A and B interleaved in random order (random.Random(%d).shuffle)" % seed
        else:
            RA, namesA = read_all(Aj, orderA)
            RB, namesB = read_all(Bj, orderB)
            how = "all results of A read in random order (random.Random(%d)), then B (random.Random(%d))" % (seed, seed + 1)
        da, db = diff_names(RA0, RA), diff_names(RB0, RB)
        ctx.case(["orders", j, seed])
        if da or db:
            nb += 1
            hist("results depend on the order of property access / on the other Calculator",
                 dict(steps=["Calculator(B)", "Calculator(A)", how], A=describeA, B=describeB),
                 dict(differing_results_A=da[:8], differing_results_B=db[:8]))
        # read everything a second time on the same objects
        RA2, _ = read_all(Aj, orderB)
        d2 = diff_names(RA, RA2)
        if d2:
            nb += 1
            ctx.failure("read-twice-differs", "reading a result twice returns different arrays",
                        input=dict(steps=["Calculator(A)", how, "read all results of A again"], A=describeA),
                        expected="array_equal", observed=dict(differing_results=d2[:8]))
    # the very first calculators, read again after everything above
    RA0b, _ = read_all(A0, random.Random(rng.randrange(10 ** 9)))
    RB0b, _ = read_all(B0)
    d2 = diff_names(RA0, RA0b) + diff_names(RB0, RB0b)
    ctx.case(["reread-first"])
    if d2:
        nb += 1
        ctx.failure("read-twice-differs", "results of a Calculator change while other Calculators are created and used",
                    input=dict(steps=["Calculator(B)=B0", "Calculator(A)=A0", "read all", "%d more Calculator pairs" % norders,
                                      "read all results of A0, B0 again"], A=describeA, B=describeB),
                    expected="array_equal with the first read", observed=dict(differing_results=d2[:8]))
    ctx.obligation("%d interleavings / read orders of two Calculators reproduce the first results; re-reads array_equal"
                   % norders, "measurement", nb == 0)

    # write_output twice (with reads in between), and a third time from a fresh A
    w1 = write_in(A0, rd / "inproc" / "A0_again")
    read_all(A0, random.Random(7))
    w2 = write_in(A0, rd / "inproc" / "A0_third")
    wf = write_in(mk("A"), rd / "inproc" / "A_fresh")
    ctx.case(["write-twice"])
    bad = None
    for label, w in (("second write_output()", w1), ("third write_output() after re-reading everything", w2),
                     ("write_output() of a later fresh Calculator(A)", wf)):
        d = first_diff(filesA0, w)
        if d is not None:
            bad = (label, d)
            break
    if bad:
        ctx.failure("write-twice-differs", "write_output() called again writes different files",
                    input=dict(steps=["Calculator(A)", "write_output()", bad[0]], A=describeA),
                    expected="byte-identical files", observed=bad[1])
    ctx.obligation("write_output() x3 and a later fresh Calculator write byte-identical files (%d files)" % len(filesA0),
                   "measurement", bad is None)
    ctx.count("files compared byte-wise in-process", 4 * len(filesA0))

    # lazy chains of the contribution objects in different read orders; assigned shear inputs
    tl = A0._full_modulus._phonon_contribution_task_list
    picks = []
    for pred in (lambda t: t.key.is_longitudinal, lambda t: t.key.is_off_diagonal, lambda t: t.key.is_shear):
        picks += [t for t in tl.data if pred(t)][:2]
    nb = 0
    for t in picks:
        c0, props = fresh_contribution(t, A0)
        canon = {p: flat(getattr(c0, p)) for p in props}
        if not same(canon["value_isothermal"], flat(t.calculator.value_isothermal)) or \
                not same(canon["value_adiabatic"], flat(t.calculator.value_adiabatic)):
            nb += 1
            hist("a fresh contribution object gives values different from the task's",
                 dict(task_key=str(t.key), A=describeA), "value_isothermal / value_adiabatic differ")
        for j in range(norders):
            seed = rng.randrange(10 ** 9)
            order = list(props) + [random.Random(seed).choice(props) for _ in range(4)]
            random.Random(seed).shuffle(order)
            cj, _ = fresh_contribution(t, A0)
            got = {}
            badp = []
            for p in order:
                v = flat(getattr(cj, p))
                if not same(v, canon[p]):
                    badp.append(p)
            ctx.case(["lazy-order", str(t.key), seed])
            if badp:
                nb += 1
                hist("lazily cached properties of %s depend on the order of access" % type(cj).__name__,
                     dict(task_key=str(t.key), read_order=order, A=describeA), dict(differing=badp))
                break
    ctx.count("contribution objects x read orders", len(picks) * norders)
    ctx.obligation("lazy property chains of %d contribution objects give the same values in %d random read orders"
                   % (len(picks), norders), "measurement", nb == 0)
    sh = [t for t in tl.data if t.key.is_shear]
    if sh:
        t = sh[0]
        c1, _ = fresh_contribution(t, A0)
        v1 = flat(c1.value_isothermal)
        c1.modulus = {k: v * 2.0 for k, v in t.modulus_results.items()}
        c1.modulus_rotated = {k: v * 3.0 for k, v in t.modulus_results_rotated.items()}
        v2 = flat(c1.value_adiabatic)
        c2, _ = fresh_contribution(t, A0)
        c2.modulus, c2.modulus_rotated = c1.modulus, c1.modulus_rotated
        vpure = flat(c2.value_adiabatic)
        ctx.case(["shear-cell"])
        ctx.obligation("shear contribution behaves as the assigned-input cell model: second read = first read "
                       "(stale w.r.t. different inputs assigned in between: %s)" % (not same(v2, vpure)),
                       "correspondence", same(v1, v2))
        ctx.extra["shear_stale_hazard_observed"] = bool(not same(v2, vpure))
        # tasks.py assigns the SAME dicts in both getters: inputs equal, so the reads are the cache-free values
        eq_inputs = all(t.calculator.modulus is t.modulus_results and t.calculator.modulus_rotated is t.modulus_results_rotated
                        for t in sh)
        ctx.obligation("every shear task assigns its own modulus_results (inputs equal at every read)", "measurement",
                       eq_inputs)

    # symmetry filling of the elast data twice
    ed = cij.io.traditional.read_elast_data(str(Path(spA).parent / "elast.dat"))
    sym = copy.deepcopy(A0.config["elast"]["settings"]["symmetry"])
    sym0 = copy.deepcopy(sym)
    apply_symetry_on_elast_data(ed, sym)
    snap1 = [(v.volume, [(tuple(k.v), float(x)) for k, x in v.static_elastic_modulus.items()]) for v in ed.volumes]
    apply_symetry_on_elast_data(ed, sym)
    snap2 = [(v.volume, [(tuple(k.v), float(x)) for k, x in v.static_elastic_modulus.items()]) for v in ed.volumes]
    ctx.case(["apply-symmetry-twice"])
    okk = [[k for k, _ in r] for _, r in snap1] == [[k for k, _ in r] for _, r in snap2] and \
        np.allclose([[x for _, x in r] for _, r in snap1], [[x for _, x in r] for _, r in snap2], rtol=1e-9, atol=1e-9)
    keys_used = [tuple(k.v) for k in A0.elast_data.volumes[0].static_elastic_modulus]
    if not okk or sym != sym0 or [k for k, _ in snap1[0][1]] != keys_used:
        ctx.failure("fill-not-idempotent", "apply_symetry_on_elast_data applied twice changes the table (or its argument)",
                    input=dict(A=describeA, symmetry=sym0), expected=snap1[0][1], observed=snap2[0][1])
    ctx.obligation("apply_symetry_on_elast_data twice = once (keys, order, values to 1e-9)", "measurement",
                   okk and sym == sym0)


def fill_measure(ctx, systems):
    import cij.util.fill as FILL
    rng = ctx.rng
    nrep = 3 if ctx.tier == "quick" else 30
    nb = 0
    first = {}
    tested = 0
    for rep in range(nrep):
        order = [s for s in systems if s in SUFFICIENT]
        rng.shuffle(order)
        for s in order:
            df = rand_table(rng, SUFFICIENT[s], nv=rng.randint(2, 4))
            desc = dict(system=s, table=df.to_dict("list"))
            try:
                t1 = FILL.fill_cij(df.copy(), s)
            except BaseException as e:
                ctx.obligation("fill_cij accepts a sufficient consistent %s table" % s, "machinery", False, repr(e))
                continue
            tested += 1
            ctx.case(["fill-twice", s, desc["table"]])
            t1c = t1.copy()
            try:
                t2 = FILL.fill_cij(t1.copy(), s)
                t3 = FILL.fill_cij(t2.copy(), s)
                err = None
            except BaseException as e:
                t2 = t3 = None
                err = "%s: %s" % (type(e).__name__, e)
            if err or not tables_equal(t1c, t2) or not tables_equal(t1c, t3):
                nb += 1
                ctx.failure("fill-not-idempotent", "fill_cij applied to an already filled table changes it",
                            input=desc, expected=t1c.to_dict("list"), observed=err or t2.to_dict("list"))
            if rep == 0:
                first[s] = (df.copy(), t1c)
        # the first tables again after all the other systems were filled (history)
        for s, (df, t1c) in first.items():
            again = FILL.fill_cij(df.copy(), s)
            if not tables_equal(t1c, again, 0.0):
                nb += 1
                ctx.failure("history-dependence", "fill_cij gives a different result after other tables were filled",
                            input=dict(system=s, table=df.to_dict("list"),
                                       steps="fill_cij on tables of all systems, then this table again"),
                            expected=t1c.to_dict("list"), observed=again.to_dict("list"))
    ctx.count("fill_cij twice/thrice on filled tables", tested)
    ctx.obligation("fill_cij(fill_cij(t)) = fill_cij(t) on %d tables over %d crystal systems (same columns, values to 1e-9)"
                   % (tested, len(first)), "measurement", nb == 0 and tested > 0)


# ----------------------------------------------------------------------------------------------

def defaults_history(ctx, n):
    """Earlier calculations must not leak into later ones through the packaged defaults: a configuration
    that relies on defaults gets the SAME effective configuration whatever was merged before, and an
    effective configuration already handed out is not changed by later merges (no aliasing)."""
    import yaml
    import importlib
    import cij.data
    import cij.io.config.config as CFG
    importlib.reload(CFG)

    def fresh_defaults():
        with open(cij.data.get_data_fname("default/settings.yaml")) as fp:
            return yaml.safe_load(fp)

    def oracle_merge(u, d):
        out = {}
        for k in set(u) | set(d):
            if k not in u:
                out[k] = copy.deepcopy(d[k])
            elif k not in d:
                out[k] = copy.deepcopy(u[k])
            elif isinstance(u[k], dict) and isinstance(d[k], dict):
                out[k] = oracle_merge(u[k], d[k])
            else:
                out[k] = copy.deepcopy(u[k])
        return out

    rng = ctx.rng
    interps = ["spline", "lagrange", "krogh", "pchip", "akima"]
    systems = ["cubic", "hexagonal", "orthorhombic", "trigonal7", "monoclinic"]

    def explicit_user():
        return dict(
            qha=dict(input="in_%d" % rng.randrange(100), settings=dict(T_MIN=rng.choice([0, 10]), DT=rng.choice([10, 50, 200]),
                     NT=rng.randrange(2, 9), NTV=rng.randrange(5, 40), DELTA_P=rng.choice([0.5, 2, 5]),
                     DELTA_P_SAMPLE=5, order=rng.choice([3, 4]), volume_ratio=rng.choice([1.1, 1.3]))),
            elast=dict(input="el_%d" % rng.randrange(100), settings=dict(
                mode_gamma=dict(interpolator=rng.choice(interps), order=rng.randrange(2, 6)),
                symmetry=dict(system=rng.choice(systems), ignore_rank=True, drop_atol=rng.choice([0, 1e-3])))),
            output=dict(pressure_base=rng.sample(["cij", "cij_t", "bm_V", "G_R", "vs"], 2), volume_base=["p", "cij"]))

    def minimal_user():
        u = dict(qha=dict(input="input01"), elast=dict(input="elast.dat"))
        r = rng.random()
        if r < 0.3:
            u["qha"]["settings"] = dict(NT=rng.randrange(2, 9))
        elif r < 0.6:
            u["elast"]["settings"] = dict(mode_gamma=dict(order=rng.randrange(2, 5)))
        return u

    for i in range(n):
        seq = [explicit_user() if rng.random() < 0.6 else minimal_user() for _ in range(rng.randrange(2, 5))] + [minimal_user()]
        handed = []
        for j, u in enumerate(seq):
            u_before = copy.deepcopy(u)
            try:
                got = CFG.apply_default_config(u)
            except Exception as ex:
                ctx.failure("history-dependence", "apply_default_config raised %s: %s in a sequence of calculations"
                            % (type(ex).__name__, ex), input=dict(sequence=seq[:j + 1]))
                return
            want = oracle_merge(u_before, fresh_defaults())
            ctx.case(dict(kind="defaults-history", seq=seq[:j + 1]), nontrivial=(j > 0))
            ctx.count("defaults-history merges")
            if got != want:
                ctx.failure("history-dependence",
                            "effective configuration #%d of a sequence differs from the one a fresh process computes "
                            "(settings of an earlier calculation leaked through the defaults)" % (j + 1),
                            input=dict(sequence=seq[:j + 1]), expected=want, observed=got)
                return
            if u != u_before:
                ctx.failure("history-dependence", "apply_default_config modified the user configuration",
                            input=dict(sequence=seq[:j + 1]))
                return
            handed.append((got, copy.deepcopy(got), j))
            for g, snap, jj in handed:
                if g != snap:
                    ctx.failure("history-dependence",
                                "the effective configuration handed out for calculation #%d changed when calculation "
                                "#%d was configured (shared nested dictionaries)" % (jj + 1, j + 1),
                                input=dict(sequence=seq[:j + 1]), expected=snap, observed=g)
                    return


def run(ctx):
    rd = ctx.fresh_run_dir()
    quick = ctx.tier == "quick"
    ctx.rule = ("(1) random toy classes with 3-5 interdependent LazyProperties (random dependency DAG, repeated reads "
                "inside a method allowed), random read histories of length 1-14 on one and on two interleaved instances, "
                "assigned-input cells: values and producer call logs compared inside Coq with the memo model; "
                "(2) random histories of creating ResultsWriters (default / custom rule lists) and writing with them; "
                "(3) fill_cij under 6 prepared working directories x all packaged crystal systems; "
                "(4) `python -m cij.cli.cij run` on one synthetic hexagonal data set (5 supplied moduli, filled to 9) in "
                "%d subprocesses: PYTHONHASHSEED in {0, 1, random, 2^32-1} x cwd in {clean, unrelated extra files incl. decoy "
                "inputs, directory named like the crystal system%s}: all output files byte-compared; (5) in one process: "
                "Calculator B then A vs the fresh-process files, %d interleavings/read orders over ~200 results each, "
                "write_output x3, lazy chains of contribution objects in random orders, fill_cij twice on random tables of "
                "8 systems, apply_symetry_on_elast_data twice.  A case is non-trivial if it repeats a read / has a "
                "non-empty cwd / differs in seed or cwd from the reference."
                % (4 if quick else 16, "" if quick else ", both", 3 if quick else 10))
    ctx.trusted += [
        "hand-written models theories/MemoModel.v (LazyProperty, assigned shear inputs, writer world, cwd lookup); tied "
        "by correspondence shards on every run, not by a translator",
        "JsonModel.v / VRHModel.v / RulesModel.v models (tied by C16 / C07 / C15)",
        "observation hook: module attribute cij.util.fill.open set during the lookup tie to record which file is opened",
    ]
    ctx.partial += [
        "byte-identical output across interpreter runs, hash seeds, working directories and process histories is "
        "MEASURED on one synthetic data set per run (subprocess matrix + in-process interleavings), not proved: "
        "CPython, numpy/BLAS, numba, pint and the file system are not modelled",
        "the real Calculator's ~60 LazyProperty producers are not translated into the memo model; the model is "
        "generic (any acyclic producer family) and tied to the installed lazy_property package on toy classes",
        "fill_idempotent is proved relative to the named contract fill_contract; that numpy lstsq-based fill_cij "
        "satisfies it is measured here (fill twice on random sufficient tables) and modelled in C08/C09",
        "the shared pint UnitRegistry (cij/util/units.py) is not modelled; covered by the A-B-A measurements only",
        "cwd independence holds except for a regular file named exactly like the system argument (documented feature: "
        "path to a relations file) - cwd_independence_full_refuted",
    ]
    ctx.assumptions += [
        "producers are pure functions of the values they read and form an acyclic dependency order (deps_lt)",
        "OMP_NUM_THREADS=1 / OPENBLAS_NUM_THREADS=1 as set by ./check (thread-count dependent BLAS reductions are out of scope)",
    ]

    import cij.io.output.results_writer as RW
    snapshot_rules = copy.deepcopy(RW.DEFAULT_WRITER_RULES)

    # -- proofs ----------------------------------------------------------------------------------
    shutil.copy(PROPS / "Prop_C14.v", rd / "Prop_C14.v")
    ctx.prove(rd / "Prop_C14.v", "Prop_C14.v (19 theorems: memo_refines_pure, instances_isolated, shear cell, "
              "fill_idempotent, registry_fresh, cwd_independence, merge/assemble order independence)", "theorem-file",
              extra_Q=[(rd, "CijGen")])
    # the hypotheses of those theorems (acyclic dependency order, pure producers) checked on the real classes
    from props import lazy_static
    lazy_static.static_tie(ctx, rd)
    from props import process_state_static
    process_state_static.static_tie(ctx, rd)

    # -- model ties ------------------------------------------------------------------------------
    defaults_history(ctx, 20 if quick else 500)
    memo_shard(ctx, rd)
    systems = lookup_tie(ctx, rd)

    # -- data sets -------------------------------------------------------------------------------
    rng = ctx.rng
    out = dict(pressure_base=["cij", "cij_t", "bm_VRH", "G_VRH", "v", "vs", "vp",
                              dict(keyword="cij_t", fname="last_component_tp.txt"),
                              dict(keyword="bm_VRH", fname="bulk_modulus.txt")],
               # one file name requested from BOTH sections: which table survives must not depend on anything but the settings
               volume_base=["p", "cij", "bm_R", "G_V", dict(keyword="cij", fname="last_component_tv.txt"),
                            dict(keyword="bm_VRH", fname="bulk_modulus.txt")])
    dsA = synth.make_dataset(rng, nv=5, nq=2, na=2, keys=SUFFICIENT["hexagonal"])
    gA = dict(NT=3, DT=150, DT_SAMPLE=150, NTV=7, DELTA_P=2, DELTA_P_SAMPLE=2)
    sA = synth.default_settings(qha=dict(settings=gA), elast=dict(settings=dict(symmetry=dict(system="hexagonal"))),
                                output=out)
    spA = synth.write_case(rd / "dataA", dsA, sA)
    dsB = synth.make_dataset(rng, nv=6, nq=3, na=2, keys=SUFFICIENT["cubic"])
    gB = dict(NT=2, DT=200, DT_SAMPLE=200, NTV=6, DELTA_P=3, DELTA_P_SAMPLE=3)
    sB = synth.default_settings(qha=dict(settings=gB), elast=dict(settings=dict(symmetry=dict(system="cubic"))),
                                output=dict(pressure_base=["cij", "bm_VRH", "vs"], volume_base=["p"]))
    spB = synth.write_case(rd / "dataB", dsB, sB)
    describeA = dict(settings=sA, elast_dat=(rd / "dataA" / "elast.dat").read_text(), qha_input=(rd / "dataA" / "input01").read_text(),
                     generator="synth.make_dataset(Random('C14-%d'), nv=5, nq=2, na=2, keys=%s)" % (ctx.seed, SUFFICIENT["hexagonal"]))
    describeB = dict(settings=sB, elast_dat=(rd / "dataB" / "elast.dat").read_text(), qha_input=(rd / "dataB" / "input01").read_text())

    # -- subprocess matrix -----------------------------------------------------------------------
    ref = subprocess_runs(ctx, rd, spA, "hexagonal", describeA)

    # -- in-process ------------------------------------------------------------------------------
    t0 = time.time()
    try:
        in_process(ctx, rd, spA, spB, describeA, describeB, ref)
    except Exception as e:
        import traceback
        if type(e).__name__ == "Stop":
            ctx.obligation("in-process measurement completes", "measurement", False, "stopped after a history-dependent crash")
        else:
            ctx.obligation("in-process measurement completes", "machinery", False, traceback.format_exc())
    fill_measure(ctx, systems)
    writers_tie(ctx, rd, snapshot_rules)
    ctx.extra["inprocess_wall_s"] = round(time.time() - t0, 1)
    # keep the run directory small: the per-run cwd trees are only needed on failure
    if not ctx.failures:
        for d in ("sub", "inproc", "cwd"):
            shutil.rmtree(rd / d, ignore_errors=True)
