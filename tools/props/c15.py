"""C15 - output files carry the in-memory results on the requested grids, units and names.

Tie: writer_rules.yml -> Gen_rules.v (translate_rules, fail-closed), Prop_C15.v re-proved against it,
and a correspondence run: ResultsWriter(base).write(...) for every keyword/alias on both real interface
classes over a stub calculator and Calculator.write_output() on synthetic data sets; the produced file
set, labels and values are compared with the model's prediction inside Coq.  Search stage: an oracle
written from the property statement (own pattern substitution, Fraction unit factors).
"""
import copy
import os
import shutil
from fractions import Fraction as Fr
from pathlib import Path

import numpy as np

from vlib import REPO, PROPS, write, fhex, flist, flist2, coq_string
import translate_rules

ORTHO = [(1, 1), (2, 2), (3, 3), (1, 2), (1, 3), (2, 3), (4, 4), (5, 5), (6, 6)]
ALL21 = [(i, j) for i in range(1, 7) for j in range(i, 7)]
PROPS_ALL = ["modulus_adiabatic", "modulus_isothermal", "bulk_modulus_voigt", "bulk_modulus_reuss",
             "bulk_modulus_voigt_reuss_hill", "shear_modulus_voigt", "shear_modulus_reuss",
             "shear_modulus_voigt_reuss_hill", "primary_velocities", "secondary_velocities", "volumes", "pressures"]

# ---- independent constants for the oracle (CODATA 2022, typed in here, not taken from the Coq model) ----
RY_J = Fr("2.1798723611030e-18")
BOHR_M = Fr("5.29177210544e-11")
SI = {  # unit -> (dimension, SI scale)
    "rydberg/bohr^3": ("p", RY_J / BOHR_M ** 3), "GPa": ("p", Fr(10) ** 9), "kbar": ("p", Fr(10) ** 8),
    "MPa": ("p", Fr(10) ** 6), "Pa": ("p", Fr(1)),
    "bohr^3": ("v", BOHR_M ** 3), "angstrom^3": ("v", Fr(10) ** -30), "nm^3": ("v", Fr(10) ** -27),
    "km/s": ("c", Fr(1000)), "m/s": ("c", Fr(1)),
}
ADIABATIC = {"cij_s", "cij", "adiabatic_elastic_moduli"}
ISOTHERMAL = {"cij_t", "isothermal_elastic_moduli"}


def doc_units(prop):
    """(internal unit, documented unit) per the property statement: GPa, A^3, km/s"""
    if prop == "volumes":
        return "bohr^3", "angstrom^3"
    if prop in ("primary_velocities", "secondary_velocities"):
        return "km/s", "km/s"
    return "rydberg/bohr^3", "GPa"


def oracle_factor(ufrom, uto):
    a, b = SI[ufrom.replace(" ", "")], SI[uto.replace(" ", "")]
    assert a[0] == b[0]
    return a[1] / b[1]


# ------------------------------------------------------------------------------------------------
# stub calculator under the REAL interface classes
# ------------------------------------------------------------------------------------------------
class _NS:
    pass


def make_stub(rng, grid, keys):
    from cij.core.calculator import CijVolumeBaseInterface, CijPressureBaseInterface
    from cij.util import c_
    from qha.unit_conversion import gpa_to_ry_b3
    import qha.tools
    nt, tmin, dt, ntv, pmin, dp, nvol = (grid[k] for k in ("NT", "T_MIN", "DT", "NTV", "P_MIN", "DELTA_P", "nvol"))
    nprng = np.random.default_rng(rng.randrange(2 ** 32))
    t_array = qha.tools.arange(tmin, nt + 4, dt)                   # as Calculator.temperature_array
    p_gpa = qha.tools.arange(pmin, ntv, dp)                        # as Calculator.desired_pressures_gpa
    p_array = gpa_to_ry_b3(np.asarray(p_gpa, dtype=float))         # as Calculator.desired_pressures
    v_array = np.linspace(rng.uniform(420, 520), rng.uniform(250, 330), nvol)
    pmax = pmin + dp * (ntv - 1)
    lo, hi = gpa_to_ry_b3(pmin - 3.0 - 0.2 * abs(dp) * ntv), gpa_to_ry_b3(pmax + 3.0 + 0.2 * abs(dp) * ntv)
    x = np.linspace(0, 1, nvol)
    p_tv = np.array([lo + (hi - lo) * (x + 0.15 * x * (1 - x) * (1 + 0.1 * i)) + 1e-5 * i for i in range(nt + 4)])
    shape = (nt + 4, nvol)

    def smooth(scale):
        a, b, c, d = nprng.uniform(0.5, 1.5), nprng.uniform(-0.3, 0.3), nprng.uniform(-0.3, 0.3), nprng.uniform(-.1, .1)
        ti = np.linspace(0, 1, nt + 4)[:, None]
        return scale * (a + b * ti + c * x[None, :] + d * ti * x[None, :] + 0.01 * nprng.standard_normal(shape))

    calc = _NS()
    q = _NS()
    q.volume_base, q.pressure_base = _NS(), _NS()
    q.volume_base.v_array, q.volume_base.t_array, q.volume_base.pressures = v_array, t_array, p_tv
    q.pressure_base.p_array, q.pressure_base.t_array = p_array, t_array
    q.pressure_base.volumes = smooth(300.0)[:, :1] * (1.0 - 0.03 * np.arange(ntv))[None, :]
    calc.qha_calculator = q
    calc.modulus_adiabatic = {c_(*k): smooth(0.02) for k in keys}
    calc.modulus_isothermal = {c_(*k): smooth(0.019) for k in keys}
    calc.modulus_keys = [c_(*k) for k in keys]
    calc._compliances = {c_(*k): smooth(40.0) * (1.0 if k[0] == k[1] else 0.2) for k in ORTHO}
    calc.elast_data = _NS()
    calc.elast_data.cellmass = rng.uniform(40, 200)
    calc.volume_based_result = CijVolumeBaseInterface(calc)
    calc.pressure_based_result = CijPressureBaseInterface(calc)
    calc.volume_base, calc.pressure_base = calc.volume_based_result, calc.pressure_based_result
    return calc


def snapshot(base):
    """in-memory results: {prop: array | {key: array}}; props the base does not have are absent"""
    mem = {}
    for prop in PROPS_ALL:
        try:
            v = getattr(base, prop)
            if prop.startswith("modulus_"):
                v = {tuple(k.v): np.array(a, dtype=float) for k, a in v.items()}
            else:
                v = np.array(v, dtype=float)
        except AttributeError:
            continue
        mem[prop] = v
    return mem


def run_entries(action, workdir):
    """run the implementation in a fresh directory; returns (files {name: bytes}, error or None)"""
    workdir = Path(workdir)
    if workdir.exists():
        shutil.rmtree(workdir)
    workdir.mkdir(parents=True)
    cwd = os.getcwd()
    os.chdir(workdir)
    err = None
    try:
        action()
    except Exception as e:  # noqa
        err = "%s: %s" % (type(e).__name__, e)
    finally:
        os.chdir(cwd)
    files = {p.name: p.read_bytes() for p in sorted(workdir.iterdir()) if p.is_file()}
    return files, err


def parse_table(path_or_bytes):
    import io
    import pandas
    df = pandas.read_table(io.BytesIO(path_or_bytes), sep=r"\s+", index_col=0)
    rows = [float(x) for x in df.index]
    cols = [float(c) for c in df.columns]
    return rows, cols, df.to_numpy(dtype=float)


# ------------------------------------------------------------------------------------------------
# Coq side
# ------------------------------------------------------------------------------------------------
HEADER = r"""
From Coq Require Import String List Bool ZArith QArith Qabs PrimFloat SpecFloat FloatOps.
From Cij Require Import Ops FOps RulesModel GridModel.
From CijGen Require Import Gen_rules.
Import ListNotations.
Local Open Scope string_scope.

Definition arr := list (list float).
Definition memt := list ((string * option key) * arr).
Fixpoint mem_get (p : string) (k : option key) (m : memt) : option arr :=
  match m with
  | [] => None
  | ((p', k'), a) :: r => if (p =? p') && okey_eqb k k' then Some a else mem_get p k r
  end.
Definition pft := list ((string * string) * float).
Fixpoint pf_get (a b : string) (m : pft) : option float :=
  match m with
  | [] => None
  | ((a', b'), f) :: r => if (a =? a') && (b =? b') then Some f else pf_get a b r
  end.
Definition obsfile := (string * (list float * list float * arr))%type.
Fixpoint file_get (n : string) (l : list obsfile) :=
  match l with [] => None | (n', c) :: r => if n =? n' then Some c else file_get n r end.

(* exact rational value of a finite float *)
Definition Qof_float (x : float) : option Q :=
  match Prim2SF x with
  | S754_zero _ => Some 0%Q
  | S754_finite s m e =>
      let v := (if (0 <=? e)%Z then inject_Z (Zpos m * 2 ^ e) else (Zpos m # Pos.pow 2 (Z.to_pos (- e))))%Q in
      Some (if s then Qopp v else v)
  | _ => None
  end.
(* |f - q| <= 1e-9 * |q| *)
Definition q_close (f : float) (q : Q) : bool :=
  match Qof_float f with
  | Some x => Qle_bool (Qabs (x - q) * (1000000000 # 1)) (Qabs q)
  | None => false
  end.
(* 1e-14 relative ("%.15e"); an in-memory NaN must be re-read as NaN *)
Definition close14 (a b : float) : bool :=
  if is_nan b then is_nan a else close 0x1.6849b86a12b9bp-47 0%float a b.
Definition close_lab := close 0x1.12e0be826d695p-30 0x1.421f5f40d8376p-21.  (* pandas prints labels with 6 decimals: 6e-7 abs *)
Definition close_in := close 0x1.6849b86a12b9bp-47 0x1.0p-1000.

Record env := mkEnv {
  e_base : string; e_keys : list key; e_t : list float; e_c : list float; e_colf : float; e_mem : memt }.

Definition model_table (e : env) (f : float) (a : arr) : @table float :=
  if e_base e =? "tp" then written_tp (e_colf e) (e_t e) (e_c e) (convert f a)
  else written_tv (e_colf e) (e_t e) (e_c e) (convert f a).

Definition check_file (pf : pft) (e : env) (o : out) (files : list obsfile) : bool :=
  match file_get (o_fname o) files, mem_get (o_prop o) (o_key o) (e_mem e),
        pf_get (o_from o) (o_to o) pf, unit_factor (o_from o) (o_to o) with
  | Some (rl, cl, vals), Some a, Some f, Some q =>
      let tb := model_table e f a in
      q_close f q && all_close close_lab rl (t_rows tb) && all_close close_lab cl (t_cols tb) &&
      all_close2 close14 vals (t_vals tb)
  | _, _, _, _ => false
  end.

(* one run of write_variables in a fresh directory: the file set is exactly the model's, each file checked *)
Definition check_case (pf : pft) (c : env * list (string * config) * option (list obsfile)) : bool :=
  let '(e, entries, obs) := c in
  match write_all rules (e_base e) (e_keys e) entries, obs with
  | None, None => true
  | Some outs, None =>        (* getattr(base, prop) raises AttributeError: "available only in ... base" *)
      existsb (fun o => match mem_get (o_prop o) (o_key o) (e_mem e) with None => true | Some _ => false end) outs
  | Some outs, Some files =>
      let fa := files_after outs in
      Nat.eqb (length fa) (length files) && forallb (fun p => check_file pf e (snd p) files) fa
  | None, Some _ => false
  end.

(* the arrays the interface hands to the writer are the requested grid *)
Definition check_grid (g : env * (float * nat * float) * option (float * float * nat * float)) : bool :=
  let '(e, (tmin, nt, dt), po) := g in
  all_close close_in (e_t e) (temperature_array tmin nt dt) &&
  match po with
  | Some (b, pmin, ntv, dp) =>
      all_close close_in (e_c e) (desired_pressures b pmin ntv dp) &&
      close 0x1.12e0be826d695p-30 0%float (e_colf e * b) 1 &&
      all_close close_lab (p_labels (e_colf e) b pmin ntv dp) (desired_pressures_gpa pmin ntv dp)
  | None => true
  end.
"""


def coq_keys(keys):
    return "[" + "; ".join("(%d, %d)" % k for k in keys) + "]%Z"


def coq_opt_str(s):
    return "None" if s is None else "(Some %s)" % coq_string(s)


def coq_entry(e):
    if isinstance(e, str):
        return "(%s, no_cfg)" % coq_string(e)
    return "(%s, mkCfg %s %s %s)" % (coq_string(e["keyword"]), coq_opt_str(e.get("fname")),
                                      coq_opt_str(e.get("unit")), coq_opt_str(e.get("unit_internal")))


def coq_env(name, base_name, keys, t, c, colf, mem):
    rows = []
    for prop, v in mem.items():
        if isinstance(v, dict):
            for k, a in v.items():
                rows.append("((%s, Some (%d, %d)%%Z), %s)" % (coq_string(prop), k[0], k[1], flist2(a)))
        else:
            rows.append("((%s, None), %s)" % (coq_string(prop), flist2(v)))
    return ("Definition %s : env := mkEnv %s %s\n %s\n %s\n %s\n [%s]%%float.\n" % (
        name, coq_string(base_name), coq_keys(keys), flist(t), flist(c), fhex(colf), ";\n  ".join(rows)))


def coq_obs(files_parsed):
    if files_parsed is None:
        return "None"
    return "(Some [" + ";\n   ".join(
        "(%s, (%s, %s, %s))" % (coq_string(n), flist(r), flist(c), flist2(v)) for n, (r, c, v) in files_parsed.items()
    ) + "])"


# ------------------------------------------------------------------------------------------------
# oracle, straight from the property statement
# ------------------------------------------------------------------------------------------------
def lab_eq(a, b):
    return len(a) == len(b) and all(abs(x - y) <= 6e-7 + 1e-9 * abs(y) for x, y in zip(a, b))


class Oracle:
    def __init__(self, ctx, yaml_rules):
        self.ctx = ctx
        self.rules = yaml_rules
        self.kw2rule = {}
        for r in yaml_rules:
            for k in r.get("keywords", []):
                self.kw2rule.setdefault(k, []).append(r)
        self.seen_names = {}     # (tag) -> {fname: (kw-rule-id, base, key)}

    def doc_name(self, rule, base, key):
        s = rule["fname_pattern"].replace("{base}", base)
        if key is not None:
            s = s.replace("{ij}", "%d%d" % key)
        return s

    def check(self, tag, base_name, entry, keys, grid, colvals, mem, files, err):
        """one ResultsWriter.write(entry) in a fresh directory"""
        ctx = self.ctx
        kw = entry if isinstance(entry, str) else entry["keyword"]
        cfg = {} if isinstance(entry, str) else entry
        where = "%s/%s/%s" % (tag, kw, base_name)
        inp = dict(keyword=entry, base=base_name, grid=grid, keys=["%d%d" % k for k in keys])
        cands = self.kw2rule.get(kw, [])
        if len(cands) != 1:
            ctx.failure("keyword-in-%d-rules-%s" % (len(cands), kw),
                        "keyword %r is listed by %d rules (%s): which file it selects depends on rule order"
                        % (kw, len(cands), [r["prop"] for r in cands]), input=inp)
            if not cands:
                return
        # the documented meaning of the keyword: first rule whose description/keywords list it
        rule = cands[0]
        prop = rule["prop"]
        if kw in ADIABATIC:
            prop = "modulus_adiabatic"
        if kw in ISOTHERMAL:
            prop = "modulus_isothermal"
        if prop not in mem:
            if files:
                ctx.failure("unavailable-wrote-%s-%s" % (kw, base_name), "property unavailable on this base but files written",
                            input=inp, observed=sorted(files))
            return
        is_ij = prop.startswith("modulus_")
        comps = list(keys) if is_ij else [None]
        ufrom, udoc = doc_units(prop)
        uto = cfg.get("unit", udoc)
        if "unit" not in cfg and rule["unit"].replace(" ", "") != udoc:
            pass  # the values check below reports the concrete consequence
        factor = oracle_factor(cfg.get("unit_internal", ufrom), uto)
        if err is not None:
            ctx.failure("raised-%s-%s" % (kw, base_name), "write raised %s" % err, input=inp)
            return
        expected = {}
        for k in comps:
            name = cfg["fname"] if "fname" in cfg else self.doc_name(rule, base_name, k)
            expected.setdefault(name, []).append(k)
        # stems documented for the two tensors
        if "fname" not in cfg and is_ij:
            stem = "s" if prop == "modulus_adiabatic" else "t"
            for name, ks in expected.items():
                want = "c%d%d%s_%s_gpa.txt" % (ks[0][0], ks[0][1], stem, base_name)
                if name != want:
                    ctx.failure("stem-%s-%s" % (kw, base_name), "documented pattern gives %r, property says %r" % (name, want),
                                input=inp)
                    break
        if len(expected) != len(comps):
            if "fname" in cfg:
                ctx.failure("ij-fname-override-single-file",
                            "with an fname override a component-wise keyword writes all %d components to the one "
                            "file %r; only the last component (%s) survives - not one file per available component"
                            % (len(comps), cfg["fname"], "c%d%d" % comps[-1]),
                            input=inp, expected="%d files" % len(comps), observed=sorted(files))
                # what survives must at least be a component of the requested tensor
                expected = {cfg["fname"]: [comps[-1]]}
            else:
                ctx.failure("collision-%s-%s" % (kw, base_name), "two components map to one file name", input=inp,
                            observed=sorted(expected))
                return
        if set(files) != set(expected):
            ctx.failure("fileset-%s-%s" % (kw, base_name), "files written differ from the documented names",
                        input=inp, expected=sorted(expected), observed=sorted(files))
            return
        tl = [float(Fr(grid["T_MIN"]) + Fr(grid["DT"]) * k) for k in range(grid["NT"])]
        for name, ks in expected.items():
            k = ks[-1]
            try:
                rows, cols, vals = parse_table(files[name])
            except Exception as e:
                ctx.failure("unreadable-%s-%s" % (kw, base_name), "file %r cannot be re-read as a table (%s: %s)"
                            % (name, type(e).__name__, e), input=inp, observed=files[name][:300].decode("ascii", "replace"))
                return
            a = mem[prop][k] if is_ij else mem[prop]
            if not lab_eq(rows, tl):
                ctx.failure("rows-%s-%s" % (kw, base_name), "row labels are not T_MIN + k*DT, k < NT", input=inp,
                            expected=tl, observed=rows, file=name)
                return
            if not lab_eq(cols, colvals):
                ctx.failure("cols-%s-%s" % (kw, base_name), "column labels are not the requested pressures (GPa) / grid volumes (A^3)",
                            input=inp, expected=list(colvals), observed=cols, file=name)
                return
            want = a[:grid["NT"], :] * float(factor)
            if vals.shape != want.shape or not np.allclose(vals, want, rtol=1e-9, atol=0.0, equal_nan=True):
                other = "modulus_isothermal" if prop == "modulus_adiabatic" else "modulus_adiabatic"
                hint = ""
                if is_ij and other in mem and vals.shape == want.shape and \
                        np.allclose(vals, mem[other][k][:grid["NT"], :] * float(factor), rtol=1e-9):
                    hint = " (the file holds %s instead)" % other
                key = ("tensor-%s-%s" if hint else "values-%s-%s") % (kw, base_name)
                if "unit" in cfg:
                    key = "override-unit-%s-%s-%s" % (kw, base_name, cfg["unit"])
                ctx.failure(key, "re-read values differ from in-memory %s x factor(%s -> %s)%s" % (prop, ufrom, uto, hint),
                            input=inp, file=name, expected=want[0, :3].tolist(), observed=vals[0, :3].tolist()
                            if vals.size else [])
                return

    def aliases(self, tag, base_name, per_kw_files, grid):
        """aliases of one keyword produce identical content"""
        groups = {}
        for r in self.rules:
            groups[id(r)] = [k for k in r["keywords"]]
        for kws in [sorted(ADIABATIC), sorted(ISOTHERMAL)] + list(groups.values()):
            have = [k for k in kws if k in per_kw_files]
            for k in have[1:]:
                if per_kw_files[k] != per_kw_files[have[0]]:
                    self.ctx.failure("alias-%s-%s-%s" % (have[0], k, base_name),
                                     "aliases %r and %r do not produce byte-identical files" % (have[0], k),
                                     input=dict(keywords=[have[0], k], base=base_name, grid=grid),
                                     expected=sorted(per_kw_files[have[0]]), observed=sorted(per_kw_files[k]))

    def cross(self, tag, base_files):
        """no overwriting between keywords or bases: distinct (rule, base, component) -> distinct names"""
        owner = {}
        for (rule_id, base_name, kw), files in base_files.items():
            for name in files:
                o = owner.setdefault(name, (rule_id, base_name, kw))
                if (o[0], o[1]) != (rule_id, base_name):
                    self.ctx.failure("overwrite-%s" % name, "file %r is written by keyword %r on %s and by keyword %r on %s"
                                     % (name, o[2], o[1], kw, base_name),
                                     input=dict(keywords=[o[2], kw], bases=[o[1], base_name]))


# ------------------------------------------------------------------------------------------------
def run(ctx):
    rd = ctx.fresh_run_dir()
    quick = ctx.tier == "quick"
    ctx.rule = ("every keyword and alias of writer_rules.yml x both real interface classes "
                "(CijVolumeBaseInterface, CijPressureBaseInterface) over a stub calculator, on %d random grids "
                "(NT 1..6, T_MIN, DT, NTV 4..9, P_MIN, DELTA_P integer and fractional, 6..10 volumes, component sets = "
                "the 9 orthotropic keys plus a random subset of the other 12; extra ij-only runs with 1, random and all "
                "21 components); dict entries with fname / unit / unit_internal overrides; Calculator.write_output() on "
                "%d synthetic data set(s).  Every run in a fresh directory so the file SET is compared.  A case is "
                "non-trivial if it is a distinct (grid, base, entry, component set)" % ((2, 1) if quick else (6, 2)))
    ctx.trusted += [
        "translator tools/translate_rules.py (yaml.safe_load + field/grammar whitelist, fail-closed)",
        "pandas/QHA text formatting and parsing (save_x_tp / save_x_tv, read_table) are exercised, not modelled",
        "duck-typed stub calculator: only the attributes the two interface classes read; the real Calculator is "
        "covered by the write_output() cases",
        "CODATA 2022 values of R_inf*h*c and a0 typed into RulesModel.v and (independently) into tools/props/c15.py",
    ]
    ctx.partial += [
        "printed precision: values are compared at 1e-14 relative (\"%.15e\"), labels at 6e-7 absolute (pandas prints "
        "index/column labels with 6 decimals) - a measurement of the formatter, not a theorem",
        "the pint factor vs the CODATA rational (|pint/CODATA - 1| < 1e-9) and pint x qha (|a*b - 1| < 1e-9) are "
        "measured on every run inside Coq",
        "grid volumes (tv column labels) are taken from QHA's refined grid as given; only their conversion to A^3 is checked",
    ]
    ctx.assumptions += ["component keys are Voigt pairs with entries 1..6 (property C10)"]

    # 1. regenerate the rule table
    src = (REPO / "cij/data/output/writer_rules.yml").read_text()
    gen_ok = False
    try:
        gen = translate_rules.translate(src)
        write(rd / "Gen_rules.v", gen)
        gen_ok, _ = ctx.prove(rd / "Gen_rules.v", "translate cij/data/output/writer_rules.yml -> Gen_rules.v",
                              "translator", extra_Q=[(rd, "CijGen")])
    except translate_rules.Untranslatable as e:
        ctx.obligation("translate cij/data/output/writer_rules.yml -> Gen_rules.v", "translator", False, str(e))
    # 2. re-prove
    if gen_ok:
        shutil.copy(PROPS / "Prop_C15.v", rd / "Prop_C15.v")
        ctx.prove(rd / "Prop_C15.v", "Prop_C15.v (11 theorems re-proved against Gen_rules.v)", "theorem-file",
                  extra_Q=[(rd, "CijGen")])

    # 3. run the implementation
    import yaml
    import importlib
    import cij.io.output.results_writer as RW
    importlib.reload(RW)
    import cij.io.output
    importlib.reload(cij.io.output)
    import cij.core.calculator as CC
    importlib.reload(CC)
    from cij.util import convert_unit
    from qha.unit_conversion import gpa_to_ry_b3
    try:
        yaml_rules = yaml.safe_load(src)
        assert isinstance(yaml_rules, list)
    except Exception:
        yaml_rules = []
    oracle = Oracle(ctx, [r for r in yaml_rules if isinstance(r, dict)])
    keywords = [k for r in oracle.rules for k in r.get("keywords", [])]
    rule_of = {}
    for i, r in enumerate(oracle.rules):
        for k in r.get("keywords", []):
            rule_of[k] = i

    qha_b = float(gpa_to_ry_b3(1.0))
    pint_cache = {}

    def pint_factor(a, b):
        if (a, b) not in pint_cache:
            try:
                pint_cache[(a, b)] = float(convert_unit(a, b, 1.0))
            except Exception:
                pint_cache[(a, b)] = None
        return pint_cache[(a, b)]

    a_gpa = pint_factor("rydberg / bohr ** 3", "GPa")
    c_ang = pint_factor("bohr ** 3", "angstrom ** 3")

    shards = []
    work = rd / "work"

    def observe_cases(tag, calc, grid, keys, entry_lists, has_pgrid=True):
        """entry_lists: {base_name: [list of entries-lists]}; returns coq text for one shard"""
        txt = [HEADER, "Local Open Scope float_scope."]
        cases, grids = [], []
        asked_lists = copy.deepcopy(entry_lists)      # taken before any writer has seen the entries
        for base_name, base in (("tp", calc.pressure_base), ("tv", calc.volume_base)):
            mem = snapshot(base)
            t = np.asarray(base.t_array, dtype=float)
            if base_name == "tp":
                c = np.asarray(base.p_array, dtype=float)
                colf = a_gpa
                colvals = [float(Fr(grid["P_MIN"]) + Fr(grid["DELTA_P"]) * j) for j in range(grid["NTV"])]
            else:
                c = np.asarray(base.v_array, dtype=float)
                colf = c_ang
                colvals = [float(Fr(float(x)) * BOHR_M ** 3 * Fr(10) ** 30) for x in c]
            mkeys = keys
            env = "env_%s" % base_name
            txt.append(coq_env(env, base_name, mkeys, t, c, colf, mem))
            grids.append("(%s, (%s, %d%%nat, %s), %s)" % (
                env, fhex(grid["T_MIN"]), grid["NT"], fhex(grid["DT"]),
                "Some (%s, %s, %d%%nat, %s)" % (fhex(qha_b), fhex(grid["P_MIN"]), grid["NTV"], fhex(grid["DELTA_P"]))
                if base_name == "tp" else "None"))
            per_kw = {}
            for n, entries in enumerate(entry_lists[base_name]):
                wd = work / ("%s_%s_%03d" % (tag, base_name, n))
                writer_base = base

                def action(entries=entries, writer_base=writer_base):
                    writer_base.write_variables(entries)
                asked = asked_lists[base_name][n]   # expectations come from the request as made, not as left behind
                files, err = run_entries(action, wd)
                if entries != asked:
                    ctx.count("writer modified the caller's entry")
                entries = asked
                parsed = None
                if err is None:
                    parsed = {}
                    for name, data in files.items():
                        try:
                            parsed[name] = parse_table(data)
                        except Exception as e:  # unreadable table
                            parsed[name] = ([], [], [])
                cases.append((env, entries, parsed, err, base_name))
                ctx.case([tag, base_name, entries, keys, grid])
                ctx.count("%s %s" % (base_name, "dict entry" if any(isinstance(e, dict) for e in entries) else "keyword"))
                if len(entries) == 1:
                    e0 = entries[0]
                    oracle.check(tag, base_name, e0, keys, grid, colvals, mem, files, err)
                    if isinstance(e0, str):
                        per_kw[e0] = files
                        cross_files[(rule_of.get(e0), base_name, e0)] = files
                shutil.rmtree(wd, ignore_errors=True)
            oracle.aliases(tag, base_name, per_kw, grid)
        pf_rows = []
        for (a, b), f in sorted(pint_cache.items()):
            if f is not None and all(32 <= ord(ch) < 127 for ch in a + b):
                pf_rows.append("((%s, %s), %s)" % (coq_string(a), coq_string(b), fhex(f)))
        # pint factors are requested lazily below, so emit the table after the cases have been rendered
        body = []
        for env, entries, parsed, err, base_name in cases:
            for e in entries:
                r = oracle.kw2rule.get(e if isinstance(e, str) else e["keyword"], [None])[-1]
                if r is not None:
                    uf = (e.get("unit_internal") if isinstance(e, dict) else None) or r["unit_internal"]
                    ut = (e.get("unit") if isinstance(e, dict) else None) or r["unit"]
                    pint_factor(uf, ut)
            body.append("(%s, [%s], %s)" % (env, "; ".join(coq_entry(e) for e in entries), coq_obs(parsed)))
        pf_rows = ["((%s, %s), %s)" % (coq_string(a), coq_string(b), fhex(f))
                   for (a, b), f in sorted(pint_cache.items()) if f is not None]
        txt.append("Definition pf : pft := [%s]%%float." % ";\n  ".join(pf_rows))
        txt.append("Definition grids := [%s]." % ";\n  ".join(grids))
        txt.append("Definition cases : list (env * list (string * config) * option (list obsfile)) := [\n %s]%%float."
                   % ";\n ".join(body))
        txt.append("Eval vm_compute in (failing (check_case pf) cases).")
        if has_pgrid:
            txt.append("Eval vm_compute in (failing check_grid grids).")
        f = write(rd / ("cases_%s.v" % tag), "\n".join(txt))
        shards.append((f, cases))
        return cases

    ngrids = 2 if quick else 20
    GRIDS = [dict(NT=5, T_MIN=0, DT=100, NTV=6, P_MIN=0, DELTA_P=10, nvol=8),
             dict(NT=3, T_MIN=10.5, DT=12.5, NTV=7, P_MIN=1.125, DELTA_P=2.625, nvol=7)]   # labels need 3 decimals
    while len(GRIDS) < ngrids:
        GRIDS.append(dict(NT=ctx.rng.randint(1, 6), T_MIN=ctx.rng.choice([0, 0.5, 300, 273.15]),
                          DT=ctx.rng.choice([1, 10, 25.5, 200, 0.1]), NTV=ctx.rng.randint(4, 9),
                          P_MIN=ctx.rng.choice([0, 5, 0.25, 20, 0.125, 0.005]), DELTA_P=ctx.rng.choice([1, 0.5, 3.3, 20, 0.125, 0.075]),
                          nvol=ctx.rng.randint(6, 10)))
    cross_files = {}
    for gi, grid in enumerate(GRIDS[:ngrids]):
        extra = [k for k in ALL21 if k not in ORTHO]
        keys = ORTHO + ctx.rng.sample(extra, ctx.rng.randint(0, 6))
        ctx.rng.shuffle(keys)
        calc = make_stub(ctx.rng, grid, keys)
        lists = {}
        for b in ("tp", "tv"):
            el = [[kw] for kw in keywords]
            # overrides through the dict form
            el += [[dict(keyword="bm_V", fname="my_bulk.dat")],
                   [dict(keyword="G_VRH", unit="kbar")],
                   [dict(keyword="vp", unit="m/s", fname="vp_si.txt")],
                   [dict(keyword="p", unit="MPa")],
                   [dict(keyword="cij_t", unit="kbar")],
                   [dict(keyword="cij", fname="all_cij.txt")],
                   [dict(keyword="isothermal_elastic_moduli", fname="iso.txt", unit="Pa")]]
            if b == "tp":
                el += [[dict(keyword="v", unit="nm^3")], [dict(keyword="V", unit="bohr^3", fname="v_au.txt")]]
            # several entries in one write_variables call (as the output section does)
            el += [["cij", "cij_t", "bm_VRH", dict(keyword="G_V", fname="g.txt"), "vs", "p"]]
            lists[b] = el
        # ONE entry object requested from both bases (a YAML anchor shared by output.pressure_base and
        # output.volume_base parses to exactly this): each base must still write its own file
        for shared in (dict(keyword="bm_VRH", unit="kbar"), dict(keyword="vs")):
            lists["tp"].append([shared])
            lists["tv"].append([shared])
        ctx.count("entry object shared by both bases", 2)
        cross_files.clear()
        observe_cases("stub%d" % gi, calc, grid, keys, lists)
        oracle.cross("stub%d" % gi, cross_files)
        ctx.sample(dict(kind="stub", grid=grid, keys=["%d%d" % k for k in keys], entries=len(lists["tp"]) + len(lists["tv"])))
        # component sets: ij keywords only (averages need the nine orthotropic keys)
        for si, ks in enumerate([[(ctx.rng.randint(1, 6),) * 2], ALL21, sorted(ctx.rng.sample(ALL21, 5))]
                                [: (2 if quick and gi else 3)]):
            calc2 = make_stub(ctx.rng, grid, ks)
            ij = [[kw] for kw in keywords if kw in ADIABATIC | ISOTHERMAL] + [[dict(keyword="cij_s", fname="one.txt")]]
            observe_cases("stub%d_keys%d" % (gi, si), calc2, grid, ks, {"tp": ij + [["p"], ["v"]], "tv": ij + [["p"]]})
            ctx.count("component-set runs")

    # real Calculator.write_output()
    import synth
    nreal = 1 if quick else 4
    for ri in range(nreal):
        g = [dict(NT=4, T_MIN=0, DT=100, NTV=6, P_MIN=0, DELTA_P=2),
             dict(NT=6, T_MIN=20, DT=37.5, NTV=9, P_MIN=1, DELTA_P=1.5),
             dict(NT=3, T_MIN=300, DT=250, NTV=5, P_MIN=2.5, DELTA_P=0.375),
             dict(NT=8, T_MIN=0, DT=12.5, NTV=12, P_MIN=0.005, DELTA_P=0.625)][ri % 4]
        out = dict(pressure_base=["cij", "isothermal_elastic_moduli", "bm_VRH", "B_V", "G_R", "G_VRH", "v", "vs", "vp",
                                  dict(keyword="bm_R", fname="reuss_kbar.txt", unit="kbar")],
                   volume_base=["p", "cij_t", "adiabatic_elastic_moduli", "shear_modulus_voigt", "v_s"])
        ds = synth.make_dataset(ctx.rng, keys=(None if ri == 0 else
                                                  ["11", "22", "33", "12", "13", "23", "44", "55", "66", "15", "25", "35", "46"]))
        settings = synth.default_settings(qha=dict(settings=dict(
            NT=g["NT"], T_MIN=g["T_MIN"], DT=g["DT"], DT_SAMPLE=g["DT"], NTV=g["NTV"], P_MIN=g["P_MIN"],
            DELTA_P=g["DELTA_P"], DELTA_P_SAMPLE=g["DELTA_P"])), output=out)
        try:
            sp = synth.write_case(rd / ("real%d" % ri), ds, settings)
            calc = CC.Calculator(str(sp))
        except Exception as e:
            ctx.obligation("Calculator on synthetic data set %d" % ri, "machinery", False, "%s: %s" % (type(e).__name__, e))
            continue
        # "the adiabatic and isothermal keywords select the corresponding tensors": the (T,P) tables the writer reads
        # must be the conversion of their OWN (T,V) tensor, in whichever order the two families are read
        pb = calc.pressure_base
        order = [("modulus_isothermal", calc.modulus_isothermal), ("modulus_adiabatic", calc.modulus_adiabatic)]
        if ri % 2:
            order.reverse()
        for rep in range(2):
            for prop, tv in order:
                for key, arr in tv.items():
                    want = np.asarray(pb.v2p(np.array(arr, dtype=float)), dtype=float)
                    got = np.asarray(getattr(pb, prop)[key], dtype=float)
                    if got.shape != want.shape or not np.allclose(got, want, rtol=1e-12, atol=0.0, equal_nan=True):
                        ctx.failure("tp-%s-not-own-tensor" % prop,
                                    "pressure_base.%s[c%d%d] is not the (T,P) conversion of Calculator.%s[c%d%d] (read order %s, "
                                    "pass %d): max |diff| = %.6g" % (prop, key.v[0], key.v[1], prop, key.v[0], key.v[1],
                                                                    [o[0] for o in order], rep,
                                                                    float(np.nanmax(np.abs(got - want))) if got.shape == want.shape else -1),
                                    input=dict(grid=g, read_order=[o[0] for o in order], key="c%d%d" % key.v))
                        break
        ctx.count("real Calculator: (T,P) modulus tables checked against their own (T,V) tensor in both families")
        keys = [tuple(k.v) for k in calc.modulus_keys]
        grid = dict(g, nvol=len(calc.volume_base.v_array))
        # (a) exactly what `cij run` does: write_output() with the whole output section, one directory
        txt_cases = observe_cases("real%d" % ri, calc, grid, keys,
                                  {"tp": [out["pressure_base"]] + [[e] for e in out["pressure_base"]],
                                   "tv": [out["volume_base"]] + [[e] for e in out["volume_base"]]})

        def action(calc=calc):
            calc.write_output()
        files, err = run_entries(action, work / ("real%d_all" % ri))
        # write_output = pressure_base entries then volume_base entries; compare with the union of the two runs above
        want = {}
        for env, entries, parsed, e2, bn in txt_cases:
            if entries in (out["pressure_base"], out["volume_base"]) and parsed is not None:
                want.update({n: bn for n in parsed})
        ok = err is None and set(files) == set(want)
        ctx.obligation("real%d: Calculator.write_output() writes pressure_base then volume_base entries "
                       "(file set = union of the two write_variables runs)" % ri, "correspondence", ok,
                       "" if ok else "err=%s files=%s want=%s" % (err, sorted(files), sorted(want)))
        if not ok:
            ctx.failure("write_output-fileset-real%d" % ri, "write_output() file set differs from the output section",
                        input=dict(output=out, grid=grid), expected=sorted(want), observed=sorted(files), error=err)
        ctx.case(["write_output", ri, out, grid])
        ctx.sample(dict(kind="Calculator.write_output", grid=grid, keys=["%d%d" % k for k in keys], files=len(files)))
        shutil.rmtree(work / ("real%d_all" % ri), ignore_errors=True)
    shutil.rmtree(work, ignore_errors=True)

    # 4. compare inside Coq
    if gen_ok:
        res = ctx.run_shards([f for f, _ in shards], extra_Q=[(rd, "CijGen")], label="tie")
        bad = {}
        for f, cases in shards:
            ok, fl, out_txt = res[f]
            if fl and fl[0]:
                bad[f.name] = [dict(base=cases[i][4], entries=cases[i][1], error=cases[i][3]) for i in fl[0][:10]]
        if bad:
            ctx.extra["tie_failing"] = bad
    ctx.extra["pint_factors"] = {"%s -> %s" % k: v for k, v in pint_cache.items()}
    ctx.extra["qha_gpa_to_ry_b3"] = qha_b
    ctx.extra["pint_times_qha_minus_1"] = a_gpa * qha_b - 1.0
