"""Static (translator) tie of C06's range check to the current text of cij/core/qha_adapter.py.

static_tie(ctx, rd) regenerates Gen_prange.v (tools/translate_prange.py, fail-closed ast translator: the raise
condition of QHACalculator.desired_pressure_status with explicit array semantics) and compiles
tools/tie_prange/Tie_prange.v against it in the per-run directory `rd` (logical path CijGen):

    range-check   raises  <->  not V2PModel.pressure_status  for every field with non-empty rows and every requested
                  grid (over R); the exception class is ValueError

One obligation for the group; never calls ctx.failure.  Returns the failed group ids.
"""
from vlib import REPO, VERIF
import translate_prange as T
import tie_common

TEMPLATES = VERIF / "tools" / "tie_prange"
GROUPS = [("range-check", "Tie_prange.v",
           "desired_pressure_status raises <-> min over all T of p_tv_gpa[:, -1] < max of the requested grid "
           "(= not V2PModel.pressure_status, all inputs, over R); exception ValueError")]

TRUSTED = (
    "translator tools/translate_prange.py (fail-closed ast whitelist: A[:, j] / A[i, :] / A[i, j] / v[i] with integer "
    "literals, .min()/.max()/numpy.min/numpy.max/builtin min/max, < > <= >= not, single-assignment locals incl. tuple "
    "assignment) and its reading of numpy indexing/reductions (tools/tie_prange/PRangeTieBase.v: negative indices, "
    "column = one element of every row, reductions raise on empty arrays, builtin max keeps the first maximum); "
    "`<` read as V2PModel.flt (equal on non-NaN data); only pattern-checked (glue): class QHACalculator does not "
    "redefine p_tv_gpa / desired_pressures_gpa, _load_qha_calculator calls desired_pressure_status() unconditionally "
    "after refine_grid(), logging statements and the diagnostic assignments of the raising branch are not modelled; "
    "lemma file tools/tie_prange/Tie_prange.v (hand-written statement, proof over R by case analysis + lra)"
)


def static_tie(ctx, rd):
    ctx.trusted.append(TRUSTED)
    why = {}
    gen = T.HEADER % T.FILE
    try:
        gen = T.emit(T.translate((REPO / T.FILE).read_text()))
    except T.TranslateError as e:
        why["range-check"] = str(e)
    except (SyntaxError, OSError) as e:
        why["range-check"] = "%s cannot be read/parsed: %r" % (T.FILE, e)
    return tie_common.run_groups(ctx, rd, "prange", T.FILE, "Gen_prange.v", gen, TEMPLATES, ["PRangeTieBase.v"], GROUPS,
                                 why, "prange")
