"""C10 - Voigt/standard index algebra: regenerated model, re-proved theorems, exhaustive tie."""
import importlib
import itertools
import shutil

from vlib import REPO, PROPS, write, zlit, blit
import translate_voigt


def observe(fn, *args):
    try:
        k = fn(*args)
    except BaseException as e:  # RecursionError included
        return None, type(e).__name__
    return k, None


def desc_mod(k):
    cls = 0 if k.is_longitudinal else (1 if k.is_off_diagonal else 2)
    n = sum([k.is_longitudinal, k.is_off_diagonal, k.is_shear])
    ct = {"LONGITUDINAL": 0, "OFF_DIAGONAL": 1, "SHEAR": 2}.get(getattr(k.calc_type, "name", None), 9)
    return (tuple(k.voigt), tuple(k.standard), int(k.multiplicity), cls, n, ct)


def coq_mod_obs(d):
    if d is None:
        return "None"
    v, s, m, cls, n, ct = d
    return "Some ((%s, %s), (%s, %s, %s, %s), %s, %s, %s, %s)" % (
        zlit(v[0]), zlit(v[1]), zlit(s[0]), zlit(s[1]), zlit(s[2]), zlit(s[3]), zlit(m), zlit(cls), zlit(n), zlit(ct))


def coq_strain_obs(k):
    if k is None:
        return "None"
    return "Some ((%s, %s), %s)" % (zlit(k[0]), zlit(k[1]), zlit(k.voigt))


HEADER = r"""
From Coq Require Import ZArith List Bool.
From Cij Require Import VoigtBase FOps.
From CijGen Require Import Gen_voigt.
Import ListNotations.
Local Open Scope Z_scope.

Definition obs := (Z * Z * (Z * Z * Z * Z) * Z * Z * Z * Z)%type.
Definition class_of (k : modkey) : Z := if is_longitudinal k then 0 else if is_off_diagonal k then 1 else 2.
Definition nclass (k : modkey) : Z := b2z (is_longitudinal k) + b2z (is_off_diagonal k) + b2z (is_shear k).
(* calc_type: first of longitudinal / off-diagonal / shear that holds *)
Definition calc_type (k : modkey) : Z :=
  if is_longitudinal k then 0 else if is_off_diagonal k then 1 else if is_shear k then 2 else 9.
Definition agree (model : option modkey) (o : option obs) : bool :=
  match model, o with
  | None, None => true
  | Some k, Some (v, s, m, c, n, ct) =>
      let '(a, b) := mod_voigt k in let '(i, j, p, q) := mod_standard k in
      let '(va, vb) := v in let '(si, sj, sp, sq) := s in
      (a =? va) && (b =? vb) && (i =? si) && (j =? sj) && (p =? sp) && (q =? sq) &&
      (multiplicity k =? m) && (class_of k =? c) && (nclass k =? n) && (calc_type k =? ct)
  | _, _ => false
  end.
Definition agree_s (model : option strain) (o : option (Z * Z * Z)) : bool :=
  match model, o with
  | None, None => true
  | Some s, Some (i, j, v) => (fst s =? i) && (snd s =? j) && (sv s =? v)
  | _, _ => false
  end.
"""


def run(ctx):
    rd = ctx.fresh_run_dir()
    ctx.rule = ("exhaustive enumeration of the finite domain: 81 four-index tuples, 36 Voigt pairs, their "
                "string and integer spellings, 9+6 strain spellings, plus out-of-range neighbours "
                "(indices 0,4,7,-1,10 in every position); a case is non-trivial if it is a distinct spelling; "
                "equality/hash matrix over all valid spellings")
    ctx.extra["exhaustive"] = True
    ctx.trusted += [
        "translator tools/translate_voigt.py (fail-closed symbolic evaluator of a small Python subset, listed in its "
        "docstring; sort keys are translated, not matched) - validated by the exhaustive run below",
        "CPython hash() of NamedTuples of ints: covered by the exhaustive equality/hash matrix, not by a theorem",
    ]
    # 1. regenerate the model from the current source
    src = (REPO / "cij/util/voigt.py").read_text()
    gen_ok = True
    try:
        gen = translate_voigt.translate(src)
        write(rd / "Gen_voigt.v", gen)
        ok, out = ctx.prove(rd / "Gen_voigt.v", "translate cij/util/voigt.py -> Gen_voigt.v", "translator",
                            extra_Q=[(rd, "CijGen")])
        gen_ok = ok
    except translate_voigt.Untranslatable as e:
        ctx.obligation("translate cij/util/voigt.py -> Gen_voigt.v", "translator", False, str(e))
        gen_ok = False

    # 2. re-prove the theorems against the regenerated model
    if gen_ok:
        shutil.copy(PROPS / "Prop_C10.v", rd / "Prop_C10.v")
        ctx.prove(rd / "Prop_C10.v", "Prop_C10.v (14 theorems re-proved against Gen_voigt.v)", "theorem-file",
                  extra_Q=[(rd, "CijGen")])

    # 3. exhaustive observation of the implementation
    import cij.util.voigt as V
    importlib.reload(V)
    C, E = V.ModulusRepresentation, V.StrainRepresentation
    # the public entry points (cij.util.c_ / e_ / s_) are what callers use; they must be the class factories
    import cij.util as U
    importlib.reload(U)
    c_, e_ = U.c_, U.e_
    helper_stage(ctx, U, C, E)

    cases_mod = []   # (model_call, observed, description)
    valid = []       # (description, key) for equality matrix
    R3 = [1, 2, 3]
    for t in itertools.product(R3, repeat=4):
        for how in ("args", "str", "int"):
            if how == "args":
                k, err = observe(c_, *t)
                call = "mod_create [%s]" % "; ".join(map(str, t))
            elif how == "str":
                k, err = observe(c_, "%d%d%d%d" % t)
                call = "mod_create [%s]" % "; ".join(map(str, t))
            else:
                k, err = observe(c_, int("%d%d%d%d" % t))
                call = "mod_create_int %d" % int("%d%d%d%d" % t)
            d = desc_mod(k) if k is not None else None
            cases_mod.append((call, d, "c_%s(%s)" % (how, t)))
            ctx.case(["mod", how, t])
            if k is not None and how == "args":
                valid.append((("s",) + t, k))
    for a, b in itertools.product(range(1, 7), repeat=2):
        for how in ("args", "str", "int"):
            if how == "args":
                k, err = observe(c_, a, b)
                call = "mod_create [%d; %d]" % (a, b)
            elif how == "str":
                k, err = observe(c_, "%d%d" % (a, b))
                call = "mod_create [%d; %d]" % (a, b)
            else:
                k, err = observe(c_, 10 * a + b)
                call = "mod_create_int %d" % (10 * a + b)
            d = desc_mod(k) if k is not None else None
            cases_mod.append((call, d, "c_%s(%d,%d)" % (how, a, b)))
            ctx.case(["modv", how, a, b])
            if k is not None and how == "args":
                valid.append((("v", a, b), k))
    # out-of-range neighbours
    bad_vals = [0, 4, 7, -1, 10]
    n_oor = 0
    for pos in range(4):
        for bv in bad_vals:
            for base in [(1, 1, 1, 1), (1, 2, 3, 3), (2, 3, 1, 2)]:
                t = list(base)
                t[pos] = bv
                k, err = observe(c_, *t)
                cases_mod.append(("mod_create [%s]" % "; ".join(zlit(x) for x in t),
                                  desc_mod(k) if k is not None else None, "c_%s" % (tuple(t),)))
                ctx.case(["oor4", t])
                n_oor += 1
    for pos in range(2):
        for bv in [0, 7, -1, 10, 11, 66 + 1]:
            for base in [(1, 1), (4, 6), (2, 5)]:
                t = list(base)
                t[pos] = bv
                k, err = observe(c_, *t)
                cases_mod.append(("mod_create [%s]" % "; ".join(zlit(x) for x in t),
                                  desc_mod(k) if k is not None else None, "c_%s" % (tuple(t),)))
                ctx.case(["oor2", t])
                n_oor += 1
    for n in [0, 5, 7, 17, 70, 77, 100, 123, 1114, 4111, 1141, 10000, 11111]:
        k, err = observe(c_, n)
        cases_mod.append(("mod_create_int %d" % n, desc_mod(k) if k is not None else None, "c_(%d)" % n))
        ctx.case(["oorint", n])
        n_oor += 1
    for nargs in [(), (1,), (1, 2, 3), (1, 1, 1, 1, 1)]:
        if len(nargs) == 1:
            continue  # one int is the integer spelling, covered above
        k, err = observe(c_, *nargs)
        cases_mod.append(("mod_create [%s]" % "; ".join(map(str, nargs)),
                          desc_mod(k) if k is not None else None, "c_%s" % (nargs,)))
        ctx.case(["arity", nargs])

    cases_str = []
    for i in list(range(-1, 12)) + [12, 13, 21, 23, 31, 32, 33, 22, 11, 34, 40, 44, 99, 100, 123]:
        k, err = observe(e_, i)
        cases_str.append(("strain_create [%s]" % zlit(i), k, "e_(%d)" % i))
        ctx.case(["e1", i])
    for i, j in itertools.product(range(0, 5), repeat=2):
        k, err = observe(e_, i, j)
        cases_str.append(("strain_create [%d; %d]" % (i, j), k, "e_(%d,%d)" % (i, j)))
        ctx.case(["e2", i, j])
        if 1 <= i <= 3 and 1 <= j <= 3:
            k2, err = observe(e_, "%d%d" % (i, j))
            cases_str.append(("strain_create [%d; %d]" % (i, j), k2, "e_('%d%d')" % (i, j)))
            ctx.case(["e2s", i, j])
    for i in range(1, 7):
        k, err = observe(e_, str(i))
        cases_str.append(("strain_create [%d]" % i, k, "e_('%d')" % i))
        ctx.case(["e1s", i])

    ctx.count("modulus spellings", len(cases_mod))
    ctx.count("strain spellings", len(cases_str))
    ctx.count("out-of-range spellings", n_oor)
    ctx.count("valid spellings in equality matrix", len(valid))

    # equality / hash matrix
    eq_rows = []
    for (da, ka) in valid:
        eq_rows.append([(ka == kb, hash(ka) == hash(kb)) for (db, kb) in valid])

    def model_of(d):
        if d[0] == "s":
            return "mod_create [%d; %d; %d; %d]" % d[1:]
        return "mod_create [%d; %d]" % d[1:]

    if gen_ok:
        txt = [HEADER]
        txt.append("Definition cases_mod : list (option modkey * option obs) := [\n  " + ";\n  ".join(
            "(%s, %s)" % (call, coq_mod_obs(d)) for call, d, _ in cases_mod) + "].")
        txt.append("Definition cases_str : list (option strain * option (Z * Z * Z)) := [\n  " + ";\n  ".join(
            "(%s, %s)" % (call, coq_strain_obs(k)) for call, k, _ in cases_str) + "].")
        txt.append("Definition valid : list (option modkey) := [\n  " + ";\n  ".join(
            model_of(d) for d, _ in valid) + "].")
        txt.append("Definition eqm : list (list (bool * bool)) := [\n  " + ";\n  ".join(
            "[" + "; ".join("(%s, %s)" % (blit(a), blit(b)) for a, b in row) + "]" for row in eq_rows) + "].")
        txt.append(r"""
Definition row_ok (a : option modkey) (row : list (bool * bool)) : bool :=
  forallb (fun p => let '(b, (e, h)) := p in
     let m := option_eqb modkey_eqb a b in Bool.eqb m e && Bool.eqb m h) (combine valid row).
Definition eq_bad : list nat := failing (fun p => row_ok (fst p) (snd p)) (combine valid eqm).
Eval vm_compute in (failing (fun c => agree (fst c) (snd c)) cases_mod).
Eval vm_compute in (failing (fun c => agree_s (fst c) (snd c)) cases_str).
Eval vm_compute in eq_bad.
Goal (length eqm = length valid)%nat. vm_compute. reflexivity. Qed.
""")
        f = write(rd / "cases_C10.v", "\n".join(txt))
        res = ctx.run_shards([f], extra_Q=[(rd, "CijGen")], label="exhaustive tie")
        ok, fl, out = res[f]
        if fl and len(fl) >= 3:
            for i in fl[0]:
                call, d, descr = cases_mod[i]
                ctx.sample(dict(spelling=descr, observed=d))
            ctx.extra["tie_failing"] = dict(modulus=[cases_mod[i][2] for i in fl[0]][:20],
                                            strain=[cases_str[i][2] for i in fl[1]][:20],
                                            eq_rows=[valid[i][0] for i in fl[2]][:20])

    for call, d, descr in cases_mod[:2] + cases_mod[243:245] + cases_mod[-3:]:
        ctx.sample(dict(spelling=descr, observed=d, model_term=call), limit=8)

    # 4. search stage / independent oracle straight from the property statement
    oracle(ctx, c_, e_)


def orbit(t):
    i, j, k, l = t
    return {(i, j, k, l), (j, i, k, l), (i, j, l, k), (j, i, l, k),
            (k, l, i, j), (l, k, i, j), (k, l, j, i), (l, k, j, i)}


DOC = {1: (1, 1), 2: (2, 2), 3: (3, 3), 4: (2, 3), 5: (1, 3), 6: (1, 2)}


def helper_stage(ctx, U, C, E):
    """cij.util.c_ / s_ / e_ against the class factories, in interleaved call orders (a result must not depend on
    which helper was called before with the same arguments)"""
    def same(a, b):
        return type(a) is type(b) and a == b and repr(a) == repr(b)
    spell = []
    for a in range(1, 7):
        for b in range(1, 7):
            spell += [(a, b), ("%d%d" % (a, b),), (10 * a + b,)]
    for i in range(1, 4):
        for j in range(1, 4):
            spell += [(i, j), ("%d%d" % (i, j),)]
    spell += [(v,) for v in range(1, 7)] + [(str(v),) for v in range(1, 7)]
    n = 0
    for order in (("c_", "e_", "s_", "e_", "c_"), ("e_", "s_", "c_", "e_")):
        for args in spell:
            for h in order:
                want, werr = observe(C._ if h in ("c_", "s_") else E._, *args)
                got, gerr = observe(getattr(U, h), *args)
                n += 1
                if (want is None) != (got is None) or (want is not None and not same(want, got)):
                    ctx.failure("helper-%s-after-%s" % (h, "-".join(order)),
                                "cij.util.%s%r returns %r (%s) but %s._%r is %r when the helpers are called in the order %s "
                                "with the same arguments" % (h, args, got, type(got).__name__,
                                                             "ModulusRepresentation" if h != "e_" else "StrainRepresentation",
                                                             args, want, list(order)),
                                input=dict(helper=h, args=list(args), call_order=list(order)),
                                expected=repr(want), observed=repr(got))
                    return
    ctx.count("helper calls (c_/s_/e_ interleaved on identical arguments)", n)


def oracle(ctx, c_, e_):
    tuples = list(itertools.product([1, 2, 3], repeat=4))
    keys = {}
    for t in tuples:
        k, err = observe(c_, *t)
        if k is None:
            ctx.failure("tuple-rejected-%s" % (t,), "valid tuple %s rejected (%s)" % (t, err), input=t)
            return
        keys[t] = k
    for t in tuples:
        for u in tuples:
            same = u in orbit(t)
            if (keys[t] == keys[u]) != same:
                ctx.failure("eq-%s-%s" % (t, u), "c_%s == c_%s is %s but symmetry relation says %s"
                            % (t, u, keys[t] == keys[u], same), input=[t, u])
                return
            if same and hash(keys[t]) != hash(keys[u]):
                ctx.failure("hash-%s-%s" % (t, u), "equal keys hash differently", input=[t, u])
                return
    distinct = set(keys.values())
    if len(distinct) != 21:
        ctx.failure("count-%d" % len(distinct), "number of canonical keys is %d, not 21" % len(distinct),
                    input=len(distinct))
    tot = 0
    for k in distinct:
        size = sum(1 for t in tuples if keys[t] == k)
        tot += k.multiplicity
        if k.multiplicity != size:
            ctx.failure("mult-%s" % (k.standard,), "multiplicity of %r is %d, class has %d tuples"
                        % (k, k.multiplicity, size), input=list(k.standard))
        n = sum([k.is_longitudinal, k.is_off_diagonal, k.is_shear])
        if n != 1:
            ctx.failure("class-%s" % (k.standard,), "%r satisfies %d of the three predicates" % (k, n),
                        input=list(k.standard))
    cnt = (sum(k.is_longitudinal for k in distinct), sum(k.is_off_diagonal for k in distinct),
           sum(k.is_shear for k in distinct))
    if cnt != (3, 3, 15):
        ctx.failure("partition-%s" % (cnt,), "classification counts %s, expected (3,3,15)" % (cnt,), input=cnt)
    for a in range(1, 7):
        for b in range(1, 7):
            k, err = observe(c_, a, b)
            want = keys.get(DOC[a] + DOC[b])
            if k is None or k != want or observe(c_, b, a)[0] != k:
                ctx.failure("voigt-%d%d" % (a, b), "Voigt pair (%d,%d) gives %r, expected %r" % (a, b, k, want),
                            input=[a, b])
                continue
            for sp, kk in (("str", observe(c_, "%d%d" % (a, b))[0]), ("int", observe(c_, 10 * a + b)[0]),
                           ("voigt-view", observe(c_, *k.voigt)[0]), ("standard-view", observe(c_, *k.standard)[0])):
                if kk != k:
                    ctx.failure("spell-%s-%d%d" % (sp, a, b), "%s spelling of c%d%d gives %r not %r"
                                % (sp, a, b, kk, k), input=[a, b, sp])
            if sorted(k.voigt) != sorted((a, b)):
                ctx.failure("view-%d%d" % (a, b), ".voigt of c%d%d is %s" % (a, b, k.voigt), input=[a, b])
    for bad in [(0, 1), (7, 1), (1, 7), (-1, 2), (10, 1), (1, 0)]:
        k, err = observe(c_, *bad)
        if k is not None:
            ctx.failure("oor-%s" % (bad,), "out-of-range Voigt pair %s accepted as %r" % (bad, k), input=bad)
    for bad in [(0, 1, 1, 1), (1, 4, 1, 1), (1, 1, 4, 1), (1, 1, 1, 0), (4, 4, 4, 4)]:
        k, err = observe(c_, *bad)
        if k is not None:
            ctx.failure("oor-%s" % (bad,), "out-of-range tuple %s accepted as %r" % (bad, k), input=bad)
    # every index pair with an entry outside 1..3 (all neighbours -1..5), alone and inside a 4-tuple
    rngv = range(-1, 6)
    for i in rngv:
        for j in rngv:
            if 1 <= i <= 3 and 1 <= j <= 3:
                continue
            if observe(e_, i, j)[0] is not None:
                ctx.failure("strain-oor-pair", "out-of-range strain index pair (%d,%d) accepted as %r"
                            % (i, j, observe(e_, i, j)[0]), input=[i, j])
            for other in ((1, 1), (2, 3), (1, 3)):
                for t in ((i, j) + other, other + (i, j)):
                    k, err = observe(c_, *t)
                    if k is not None:
                        ctx.failure("oor-4tuple", "out-of-range tuple %s accepted as %r" % (t, k), input=list(t))
    for a in rngv:
        for b in range(-1, 9):
            if 1 <= a <= 6 and 1 <= b <= 6:
                continue
            for t in ((a, b), (b, a)):
                k, err = observe(c_, *t)
                if k is not None:
                    ctx.failure("oor-voigt-pair", "out-of-range Voigt pair %s accepted as %r" % (t, k), input=list(t))
    for v, s in DOC.items():
        k, err = observe(e_, v)
        if k is None or tuple(k) != s or k.voigt != v or observe(e_, *s)[0] != k or observe(e_, s[1], s[0])[0] != k:
            ctx.failure("strain-%d" % v, "strain index %d does not map to %s" % (v, s), input=v)
    # strain spellings: the integer ij, the pair (i, j), the string "ij" and the pair (j, i) name one strain index
    for i in (1, 2, 3):
        for j in (1, 2, 3):
            want = observe(e_, i, j)[0]
            for sp, args in (("int", (10 * i + j,)), ("str", ("%d%d" % (i, j),)), ("swapped", (j, i))):
                got = observe(e_, *args)[0]
                if want is None or got != want or tuple(got) != tuple(sorted((i, j))):
                    ctx.failure("strain-spelling-%s-%d%d" % (sp, i, j),
                                "e_%r is %r but e_(%d,%d) is %r (documented: the symmetric pair (%d,%d))"
                                % (args, got, i, j, want, min(i, j), max(i, j)), input=list(args), expected=repr(want),
                                observed=repr(got))
    for bad in [0, 7, -1]:
        if observe(e_, bad)[0] is not None:
            ctx.failure("strain-oor-%d" % bad, "out-of-range strain index %d accepted" % bad, input=bad)
