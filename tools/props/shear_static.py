"""Static (translator) tie of theories/ShearModel.v to the current text of cij/core/phonon_contribution/shear.py
(shared by C03 - all groups - and C02 - group `adiabatic` only).

static_tie(ctx, rd, groups=GROUPS):
  1. tools/translate_shear.py (fail-closed ast translator) regenerates  rd/Gen_shear.v  from vlib.REPO
  2. the hand-written vocabulary / lemma files of tools/tie_shear/ are copied into rd (logical path CijGen) and compiled
     against the regenerated definitions, one file per lemma group:

       wiring      pattern checks only (module / class layout, imports, c_ = C_._ = create, __init__)
       keyobj      C_ objects read as Voigt pairs: faithful w.r.t. the regenerated Gen_voigt.v (81 x 81 tuples, 21 keys)
       energy      gen_energy = ShearModel.energy   (all zero tests / strains / resolvers / targets)
       keys        gen_energy_keys = ShearModel.energy_keys (same list, same order); get_modulus_keys[_rotated]
       fict        gen_fictitious_strain = fict (21 keys, all i j); eigh component 0 -> diag, component 1 -> T
       strain_rot  gen_strain_rotated = strain_rot (all T, e, i)
       target      gen_get_target_elastic_modulus = solve (21 keys); gen_solver_exact (C03's theorem about the
                   generated function); value_isothermal = get_target_elastic_modulus()
       adiabatic   gen_value_adiabatic = the memoised value_isothermal, for every state of the instance

     stages: ShearTieBase -> Gen_shear (ShearTieLemmas next to them) -> the group files in parallel -> Tie_shear_target.v
     (imports energy, keys, fict) with the index of all proved groups under one Print Assumptions; Tie_shear_frame.v
     (non-vacuity, nothing imports it) runs next to all of them
  3. one obligation per requested group (+ translator accepted, Gen_shear.v compiles, index).  Never calls ctx.failure.
Returns {group: reason} for the requested groups that are not proved.
"""
import re
import time
from pathlib import Path

import vlib
from vlib import write
import translate_shear as TS
import translate_voigt

TEMPLATES = vlib.VERIF / "tools" / "tie_shear"
GROUPS = tuple(TS.GROUPS)
FILE_OF = {"keyobj": "Tie_shear_keyobj.v", "energy": "Tie_shear_energy.v", "keys": "Tie_shear_keys.v",
           "fict": "Tie_shear_fict.v", "strain_rot": "Tie_shear_strain_rot.v", "adiabatic": "Tie_shear_adiabatic.v",
           "target": "Tie_shear_target.v"}
TARGET_DEPS = ("energy", "keys", "fict")          # Tie_shear_target.v imports their lemma files (and Tie_shear_frame.v)
NO_REALS = ("adiabatic", "keyobj", "wiring")       # groups that do not need ShearTieLemmas.v
WHAT = {
    "wiring": "module / class layout, imports, c_ = C_._ = ModulusRepresentation.create, __init__ (pattern checks)",
    "keyobj": "C_ objects read as Voigt pairs are faithful w.r.t. the regenerated voigt model (81x81 tuples, 21 keys)",
    "energy": "calculate_fictitious_strain_energy (fold over the 81 guarded tuples) = ShearModel.energy, all inputs over R",
    "keys": "get_fictitious_strain_energy_keys = ShearModel.energy_keys (same list, same order); get_modulus_keys[_rotated]",
    "fict": "fictitious_strain = fict (21 keys, all i j); fictitious_strain_rotated = diag(eigh[0]); transformation_matrix = eigh[1]",
    "strain_rot": "strain_rotated = ShearModel.strain_rot (sum_a T[a][i] e[a] T[a][i]), all T e i",
    "target": "get_target_elastic_modulus = ShearModel.solve (21 keys); gen_solver_exact: shear_solver_exact holds of the "
              "generated function; value_isothermal = get_target_elastic_modulus()",
    "adiabatic": "value_adiabatic = memoised value_isothermal, whatever is bound to modulus / modulus_rotated",
}
TRUSTED = (
    "static tie: tools/translate_shear.py (fail-closed ast whitelist; 3x3 arrays as index functions, leading axes of the "
    "strain array pointwise, C_ objects as Voigt pairs rebuilt from the regenerated Gen_voigt.v, the loop over "
    "itertools.product(argwhere(not isclose(e,0)))^2 as a left fold over the 81 tuples guarded by the two tests, `+=` on the "
    "LOCAL accumulator as acc + term, numpy.linalg.eigh as an oracle pair of which only the component used is translated, "
    "self.modulus[key] as function application, @LazyProperty value_isothermal as a memoised value, negative array indices "
    "not modelled); only pattern-checked: imports, __init__, c_ = C_._, the argwhere/isclose/product/einsum/zeros/diagonal "
    "call shapes, decorators of the members, purity of logger.debug arguments; lemma files tools/tie_shear/*.v "
    "(hand-written statements; proofs by induction over the fold, ring/field over R, vm_compute for index combinatorics)")


def lemma_at(path: Path, out: str) -> str:
    m = re.search(r'File "[^"]*", line (\d+)', out)
    if not m:
        return ""
    for ln in reversed(path.read_text().splitlines()[:int(m.group(1))]):
        mm = re.match(r"\s*(Lemma|Theorem|Corollary|Example|Definition)\s+([\w']+)", ln)
        if mm:
            return mm.group(2)
    return ""


def static_tie(ctx, rd, groups=GROUPS):
    t0 = time.time()
    rd = Path(rd)
    XQ = [(rd, "CijGen")]
    tag = "static tie (shear): "
    want = [g for g in TS.GROUPS if g in groups]
    ctx.trusted.append(TRUSTED)
    failed = {}

    def done():
        ctx.extra.setdefault("static_tie_shear", {}).update(
            groups=want, failed=failed, proved_groups=[g for g in want if g not in failed], wall_s=round(time.time() - t0, 2))
        return failed

    # ---- 1. translate ------------------------------------------------------------------------------------------
    try:
        r = TS.translate_repo(vlib.REPO)
    except Exception as ex:       # TranslateError / SyntaxError / OSError, and any defect of the translator: fail closed
        if not isinstance(ex, (TS.TranslateError, SyntaxError, OSError)):
            import traceback
            ex = "translator crashed (treated as not accepted): %s" % traceback.format_exc()[-900:]
        ctx.obligation(tag + "translator accepts %s" % TS.SRC, "translator", False, str(ex))
        for g in want:
            failed[g] = "translator: %s" % ex
            ctx.obligation(tag + "[%s] %s" % (g, WHAT[g]), "static-tie", False, "TranslateError: %s" % ex)
        return done()
    write(rd / "Gen_shear.v", r["gen"])
    need = [g for g in TS.GROUPS if g in want or ("target" in want and g in TARGET_DEPS)]
    rel = [g for g in need if g in r["group_errors"]]
    ctx.obligation(tag + "translator accepts %s (%s)" % (TS.SRC, ", ".join(want)), "translator", not rel,
                   "\n".join("[%s] %s" % (g, m) for g in rel for m in r["group_errors"][g]))

    bad = ["%s: %s" % (name, m.group(0)) for name, txt in
           [(f.name, f.read_text()) for f in sorted(TEMPLATES.glob("*.v"))] + [("Gen_shear.v", r["gen"])]
           for m in vlib.FORBIDDEN.finditer(vlib.strip_comments(txt))]
    ctx.obligation(tag + "grep-gate: no Admitted/Axiom/Parameter/unset checks in tools/tie_shear/*.v and Gen_shear.v", "gate",
                   not bad, "; ".join(bad))

    # ---- 2. vocabulary, regenerated definitions, general lemmas --------------------------------------------------
    why_all = None
    if not (rd / "Gen_voigt.vo").exists():
        try:
            write(rd / "Gen_voigt.v", translate_voigt.translate((vlib.REPO / TS.SRC_VOIGT).read_text()))
            ok, out = vlib.coqc(rd / "Gen_voigt.v", extra_Q=XQ, timeout=120)
            if not ok:
                why_all = "Gen_voigt.v does not compile: " + out[-300:]
        except (translate_voigt.Untranslatable, SyntaxError, OSError) as ex:
            why_all = "%s: %s" % (TS.SRC_VOIGT, ex)
    for f in ("ShearTieBase.v", "ShearTieLemmas.v"):
        write(rd / f, (TEMPLATES / f).read_text())
    ok_gen, out_gen = False, ""
    # ShearTieLemmas.v does not depend on the generated files: it compiles next to ShearTieBase.v -> Gen_shear.v
    from concurrent.futures import ThreadPoolExecutor
    with ThreadPoolExecutor(max_workers=1) as ex:
        lem = ex.submit(vlib.coqc, rd / "ShearTieLemmas.v", XQ, 180) if any(g not in NO_REALS for g in need) else None
        if why_all is None:
            ok, out = vlib.coqc(rd / "ShearTieBase.v", extra_Q=XQ, timeout=120)
            if not ok:
                why_all = "ShearTieBase.v does not compile: " + out[-300:]
        if why_all is None:
            ok_gen, out_gen = vlib.coqc(rd / "Gen_shear.v", extra_Q=XQ, timeout=180)
        if lem is not None and not lem.result()[0] and why_all is None:
            why_all = "ShearTieLemmas.v does not compile: " + lem.result()[1][-300:]
    ctx.obligation(tag + "Gen_shear.v (regenerated definitions, %d) compiles" % len(r["defined"]), "translator",
                   ok_gen and why_all is None, why_all or out_gen)

    # ---- 3. the group files ----------------------------------------------------------------------------------------
    why = {}
    for g in need:
        if g in r["group_errors"]:
            why[g] = "not translated: " + "; ".join(r["group_errors"][g])
        elif g != "wiring" and (why_all or not ok_gen):
            why[g] = why_all or "Gen_shear.v does not compile"
    stage2 = {}
    target_planned = "target" in need and "target" not in why
    for g in need:
        if g in why or g in ("wiring", "target"):
            continue
        # without a final target stage every group file prints its own assumptions (they compile in parallel)
        pa = "" if target_planned else "\nPrint Assumptions tie_group_%s.\n" % g
        stage2[g] = write(rd / FILE_OF[g], (TEMPLATES / FILE_OF[g]).read_text() + pa)
    # Tie_shear_frame.v (non-vacuity of the solver hypotheses, independent of the generated files) belongs to the target
    # group but nothing imports it: it compiles next to the other files and is only awaited at the end
    from concurrent.futures import ThreadPoolExecutor
    pool = ThreadPoolExecutor(max_workers=16)
    frame = None
    if target_planned:
        frame = pool.submit(vlib.coqc, write(rd / "Tie_shear_frame.v", (TEMPLATES / "Tie_shear_frame.v").read_text() +
                                             "\nPrint Assumptions tie_group_frame.\n"), XQ, 300)
    futs = {g: pool.submit(vlib.coqc, f, XQ, 300) for g, f in stage2.items()}
    outs = {}
    for g, f in stage2.items():
        ok, out = futs[g].result()
        outs[g] = out
        if not ok:
            lem = lemma_at(f, out)
            why[g] = ("lemma %s of %s does not hold for the regenerated definitions: " % (lem, f.name) if lem else "") + \
                " ".join(out.split())[-500:]
    proved = [g for g in stage2 if g not in why]

    # ---- 4. final stage: target (imports energy, keys, fict, frame) + index of everything proved -------------------
    final = None
    if "target" in need and "target" not in why:
        bad = [d for d in TARGET_DEPS if d in why]
        if bad:
            why["target"] = "depends on group(s) %s which failed" % ", ".join(bad)
        else:
            final = "target"
    idx_groups = list(proved) + ([final] if final else [])
    index = ""
    if idx_groups:
        imp = [g for g in proved if not (final and g in TARGET_DEPS)]
        index = "\n(* ---- index of the lemma groups proved in this run (appended by tools/props/shear_static.py) ---- *)\n" + \
            ("From CijGen Require Import %s.\n" % " ".join(FILE_OF[g][:-2] for g in imp) if imp else "") + \
            "Definition tie_shear_all :=\n  (%s).\nPrint Assumptions tie_shear_all.\n" % ", ".join("tie_group_" + g for g in idx_groups)
    out_final = ""
    if final:
        f = write(rd / FILE_OF["target"], (TEMPLATES / FILE_OF["target"]).read_text() + index)
        ok, out_final = vlib.coqc(f, extra_Q=XQ, timeout=300)
        if not ok:
            lem = lemma_at(f, out_final)
            why["target"] = ("lemma %s of %s does not hold for the regenerated definitions: " % (lem, f.name) if lem else "") + \
                " ".join(out_final.split())[-500:]
            final = None
            idx_groups = list(proved)
    if not target_planned:
        out_final = "\n".join(outs[g] for g in proved)
    elif not final and proved:
        hdr = "(* GENERATED index of the static shear tie *)\nFrom CijGen Require Import %s.\n" % " ".join(FILE_OF[g][:-2] for g in proved)
        body = "Definition tie_shear_all :=\n  (%s).\nPrint Assumptions tie_shear_all.\n" % ", ".join("tie_group_" + g for g in proved)
        ok, out_final = vlib.coqc(write(rd / "Tie_shear_index.v", hdr + body), extra_Q=XQ, timeout=300)
        ctx.obligation(tag + "Tie_shear_index.v (index of the proved groups, axioms)", "static-tie", ok, "" if ok else out_final)
    if frame is not None:
        okf, outf = frame.result()
        out_final += "\n" + outf
        if not okf and "target" not in why:
            why["target"] = "Tie_shear_frame.v (non-vacuity of the solver hypotheses) does not compile: " + " ".join(outf.split())[-400:]
    pool.shutdown()
    for closed, names in vlib.parse_assumptions(out_final):
        for n in names:
            ctx.axioms[n] = ctx.axioms.get(n, 0) + 1

    # ---- 5. obligations ------------------------------------------------------------------------------------------------
    for g in want:
        ctx.obligation(tag + "[%s] %s" % (g, WHAT[g]), "static-tie" if g != "wiring" else "translator", g not in why, why.get(g, ""))
        if g in why:
            failed[g] = why[g]
    if failed:
        ctx.extra.setdefault("static_tie_shear", {})["details"] = {g: str(v)[:700] for g, v in failed.items()}
    ctx.extra.setdefault("static_tie_shear", {})["generated_definitions"] = r["defined"]
    return done()
