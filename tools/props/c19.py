"""C19 - extract and extract-geotherm return table values faithfully.

Tie: `cij extract` / `cij extract-geotherm` are run through click's CliRunner in directories of tables
written by the real CijPressureBaseInterface.write_table -> qha save_x_tp path; the files are parsed
independently (plain split) and handed, with the request, to the Coq model (ExtractModel.v), which
predicts the printed table; the comparison with the parsed stdout happens inside Coq.
Search stage: oracle from the property statement (nearest row by exact Fraction distances, analytic
function for the geotherm).
"""
import math
import os
import shutil
from fractions import Fraction as Fr
from pathlib import Path

import numpy as np

from vlib import PROPS, write, fhex, flist, flist2, coq_string

HEADER = r"""
From Coq Require Import String List Bool ZArith PrimFloat.
From Cij Require Import Ops FOps ExtractModel.
Import ListNotations.
Local Open Scope string_scope.

Definition tbl := @table float.
Fixpoint assoc {A} (k : string) (l : list (string * A)) : option A :=
  match l with [] => None | (k', v) :: r => if k =? k' then Some v else assoc k r end.
(* load_data(var): the first file of the listing that matches {var}_tp_*, parsed *)
Definition load (listing : list string) (files : list (string * tbl)) (var : string) : option tbl :=
  match choose_file var listing with Some f => assoc f files | None => None end.
Fixpoint load_all (listing : list string) (files : list (string * tbl)) (vars : list string)
  : option (list (string * tbl)) :=
  match vars with
  | [] => Some []
  | v :: r => match load listing files v, load_all listing files r with
              | Some t, Some ts => Some ((v, t) :: ts)
              | _, _ => None
              end
  end.

(* printed numbers: pandas prints 6 decimals (fixed) or 7 significant digits (scientific) *)
Definition close_pr := close 0x1.421f5f40d8376p-21 0x1.421f5f40d8376p-21.     (* 6e-7 rel + 6e-7 abs *)
Definition cell_ok (o : float) (m : option float) : bool :=
  match m with
  | Some v => if is_nan v then is_nan o else close_pr o v
  | None => is_nan o            (* label missing after alignment: NaN *)
  end.
Fixpoint cells_ok (o : list float) (m : list (option float)) : bool :=
  match o, m with
  | [], [] => true
  | a :: o', b :: m' => cell_ok a b && cells_ok o' m'
  | _, _ => false
  end.
Fixpoint cols_ok (o : list (string * list float)) (m : list (string * list (option float))) : bool :=
  match o, m with
  | [], [] => true
  | (n, a) :: o', (n', b) :: m' => (n =? n') && cells_ok a b && cols_ok o' m'
  | _, _ => false
  end.

(* one `cij extract` run: (is_P, y, vars, listing, files, observed labels, observed columns or None if it raised) *)
Definition xcase := (bool * float * list string * list string * list (string * tbl) *
                     option (list float * list (string * list float)))%type.
Definition check_extract (c : xcase) : bool :=
  let '(isp, y, vars, listing, files, obs) := c in
  match load_all listing files vars, obs with
  | None, None => true
  | Some tabs, Some (labels, cols) =>
      let '(x, m) := @extract float FOps (if isp then AtP y else AtT y) tabs in
      all_close close_pr labels x && cols_ok cols m
  | _, _ => false
  end.

(* stand-in for the spline inside Coq: the table entry at grid nodes, NaN (= "not checked here") elsewhere *)
Definition node_spline : @spline_t float := fun xs ys z x y =>
  match @node_value float FOps (mkTable xs ys z) x y with Some v => v | None => nan end.
Definition gcell_ok (o m : float) : bool := if is_nan m then true else close_pr o m.
Fixpoint gcells_ok (o m : list float) : bool :=
  match o, m with
  | [], [] => true
  | a :: o', b :: m' => gcell_ok a b && gcells_ok o' m'
  | _, _ => false
  end.
Fixpoint frame_ok (o m : list (string * list float)) : bool :=
  match o, m with
  | [], [] => true
  | (n, a) :: o', (n', b) :: m' => (n =? n') && gcells_ok a b && frame_ok o' m'
  | _, _ => false
  end.
(* one `cij extract-geotherm` run *)
Definition gcase := (string * string * list (string * list float) * list string * list string *
                     list (string * tbl) * option (list (string * list float)))%type.
Definition check_geotherm (c : gcase) : bool :=
  let '(tc, pc, geo, vars, listing, files, obs) := c in
  match load_all listing files vars with
  | None => match obs with None => true | Some _ => false end
  | Some tabs =>
      match @geotherm float node_spline tc pc geo tabs, obs with
      | None, None => true
      | Some m, Some o => frame_ok o m
      | _, _ => false
      end
  end.
Local Open Scope float_scope.
"""


class _NS:
    pass


def make_base(t_full, p_gpa):
    """real CijPressureBaseInterface over the two arrays it reads"""
    from cij.core.calculator import CijPressureBaseInterface
    from qha.unit_conversion import gpa_to_ry_b3
    c = _NS()
    c.qha_calculator = _NS()
    c.qha_calculator.pressure_base = _NS()
    c.qha_calculator.pressure_base.p_array = gpa_to_ry_b3(np.asarray(p_gpa, dtype=float))
    c.qha_calculator.pressure_base.t_array = np.asarray(t_full, dtype=float)
    return CijPressureBaseInterface(c)


def parse_file(path):
    """independent parser of a QHA-format table (no pandas)"""
    lines = [ln for ln in Path(path).read_text().splitlines() if ln.strip()]
    cols = [float(x) for x in lines[0].split()[1:]]
    idx, vals = [], []
    for ln in lines[1:]:
        tk = ln.split()
        idx.append(float(tk[0]))
        vals.append([float(x) for x in tk[1:]])
    return idx, cols, vals


def parse_extract_stdout(out, hide_header, nvars):
    lines = [ln for ln in out.splitlines() if ln.strip()]
    if hide_header:
        names = None
    else:
        names = lines[0].split()
        lines = lines[1:]
    labels, cols = [], [[] for _ in range(nvars)]
    for ln in lines:
        tk = ln.split()
        labels.append(float(tk[0]))
        for k in range(nvars):
            cols[k].append(float(tk[1 + k]))
    return names, labels, cols


def parse_frame_stdout(out):
    lines = [ln for ln in out.splitlines() if ln.strip()]
    names = lines[0].split()
    cols = [[] for _ in names]
    for ln in lines[1:]:
        tk = ln.split()
        for k in range(len(names)):
            cols[k].append(float(tk[k]))
    return names, cols


def coq_tbl(t):
    return "(mkTable %s %s %s)" % (flist(t[0]), flist(t[1]), flist2(t[2]))


def coq_slist(xs):
    return "[" + "; ".join(coq_string(x) for x in xs) + "]"


def coq_cols(named):
    return "[" + "; ".join("(%s, %s)" % (coq_string(n), flist(c)) for n, c in named) + "]"


def smooth(T, P, k=0):
    """smooth analytic 'modulus' of (T [K], P [GPa])"""
    return (300.0 + 40.0 * k + 3.1 * P - 0.004 * P * P - 0.021 * T - 2.0e-6 * T * T
            + 6.0 * math.sin(T / 900.0 + 0.3 * k) * math.exp(-P / 160.0) + 1.5e-4 * T * P)


def coded(i, j, k):
    return 1000.0 * i + 10.0 * j + 0.5 * k


VCODE = {"c11s": 0, "c12s": 1, "bm_VRH": 2, "v_p": 3, "c44t": 1, "G_V": 4, "v": 5, "bm_V": 6, "v_s": 7}
FNAMES = {"c11s": "c11s_tp_gpa.txt", "c12s": "c12s_tp_gpa.txt", "c44t": "c44t_tp_gpa.txt",
          "bm_VRH": "bm_VRH_tp_gpa.txt", "G_V": "G_V_tp_gpa.txt", "v_p": "v_p_tp_km_s.txt", "v": "v_tp_ang3.txt",
          "bm_V": "bm_V_tp_gpa.txt", "v_s": "v_s_tp_km_s.txt"}


def first_nearest(xs, y):
    """oracle: first index of minimal |x - y| with exact rational arithmetic"""
    best, bi = None, None
    for i, x in enumerate(xs):
        d = abs(Fr(x) - Fr(y))
        if best is None or d < best:
            best, bi = d, i
    return bi


def run(ctx):
    rd = ctx.fresh_run_dir()
    quick = ctx.tier == "quick"
    ctx.rule = ("directories of (T,P) tables written through CijPressureBaseInterface.write_table (values: exactly "
                "printable codes 1000*i+10*j+0.5*k, and a smooth analytic function), %d grids; cij extract with -T / -P "
                "on grid values, between them, at exact halves (ties), below and above the range, 1-4 variables, "
                "with/without header, a directory with two files matching one variable, directories holding variables whose "
                "names are prefixes of other variables (v/v_p/v_s, bm_V/bm_VRH); cij extract-geotherm with "
                "paths through nodes and between nodes, default and renamed geotherm columns, extra pass-through "
                "columns; a case is non-trivial if it is a distinct (directory, command line)" % (2 if quick else 5))
    ctx.trusted += [
        "click CliRunner, pandas read_table/to_string and the file system are exercised, not modelled; stdout is "
        "parsed by whitespace splitting",
        "scipy RectBivariateSpline is an oracle in the model (contract: interpolates at grid nodes); in the shards it is "
        "replaced by table lookup at nodes and 'unchecked' elsewhere",
        "glob order = directory listing order (os.listdir) is an input of the model",
    ]
    ctx.partial += [
        "convergence of the geotherm values to the underlying smooth function under grid refinement (FITPACK bicubic "
        "spline) is measured on 1x/2x/4x grids, not proved: see coverage.geotherm_refinement",
        "printed precision: stdout carries 6 decimals / 7 significant digits, so CLI values are compared at 6e-7 "
        "(relative+absolute); node exactness at 1e-9 is measured through cij.cli.geotherm.load_data/fit_data directly",
    ]
    ctx.assumptions += ["tables of one directory share their T and P labels (as produced by one cij run); labels have no duplicates"]

    shutil.copy(PROPS / "Prop_C19.v", rd / "Prop_C19.v")
    ctx.prove(rd / "Prop_C19.v", "Prop_C19.v (8 theorems)", "theorem-file")
    # static tie: extract.py / geotherm.py are translated again on every run and proved equal to ExtractModel.v
    from props import cli_static
    cli_static.static_tie(ctx, rd)

    import importlib
    import cij.cli.extract as EX
    import cij.cli.geotherm as GE
    importlib.reload(EX)
    importlib.reload(GE)
    from click.testing import CliRunner
    runner = CliRunner()

    def invoke(cmd, args, cwd):
        old = os.getcwd()
        os.chdir(cwd)
        try:
            r = runner.invoke(cmd, args)
        finally:
            os.chdir(old)
        err = None
        if r.exit_code != 0 or r.exception is not None:
            err = "%s: %s" % (type(r.exception).__name__, r.exception)
        return r.output, err

    xcases, gcases = [], []      # coq text, description

    def scenario(tag, T, P, variables, kind, decoy=None):
        """write the tables; returns (dir, listing, files{name: parsed}, f(T,P,k) or None)"""
        d = rd / "work" / tag
        d.mkdir(parents=True)
        dt = T[1] - T[0] if len(T) > 1 else 1.0
        t_full = list(T) + [T[-1] + dt * (m + 1) for m in range(4)]       # the 4 guard rows QHA appends
        base = make_base(t_full, P)
        for var in variables:
            k = VCODE[var]
            if kind == "coded":
                vals = [[coded(i, j, k) for j in range(len(P))] for i in range(len(t_full))]
            else:
                vals = [[smooth(t, p, k) for p in P] for t in t_full]
            base.write_table(str(d / FNAMES[var]), np.array(vals))
        if decoy:
            var, name = decoy
            k = VCODE[var]
            vals = [[coded(i, j, k) + 7.0 for j in range(len(P))] for i in range(len(t_full))]
            base.write_table(str(d / name), np.array(vals))
        (d / "README").write_text("not a table\n")
        listing = os.listdir(d)
        files = {n: parse_file(d / n) for n in listing if n.endswith(".txt")}
        return d, listing, files

    def oracle_extract(tag, d, listing, files, vars_, isp, y, hide, out, err):
        inp = dict(dir=tag, variables=vars_, option=("-P" if isp else "-T"), value=y, hide_header=hide)
        key = "extract-%s-%s-%s-%s" % (tag, ",".join(vars_), "P" if isp else "T", y)
        import fnmatch
        chosen = {}
        for v in vars_:
            m = [n for n in listing if fnmatch.fnmatch(n, v + "_tp_*")]
            if not m:
                if err is None:
                    ctx.failure(key, "no table for %r but the command succeeded" % v, input=inp)
                return
            chosen[v] = m[0]
        if err is not None:
            ctx.failure(key, "cij extract failed: %s" % err, input=inp)
            return
        try:
            names, labels, cols = parse_extract_stdout(out, hide, len(vars_))
        except Exception as e:
            ctx.failure(key, "unparsable output (%s)" % e, input=inp, observed=out[:300])
            return
        if not hide and names != list(vars_):
            ctx.failure(key, "header is not the requested variables in order", input=inp, expected=vars_, observed=names)
            return
        for k, v in enumerate(vars_):
            idx, pc, vals = files[chosen[v]]
            if isp:
                j = first_nearest(pc, y)
                want_labels, want = idx, [row[j] for row in vals]
                what = "column P=%s" % pc[j]
            else:
                i = first_nearest(idx, y)
                want_labels, want = pc, vals[i]
                what = "row T=%s" % idx[i]
            okl = len(labels) == len(want_labels) and all(abs(a - b) <= 6e-7 * (1 + abs(b)) for a, b in zip(labels, want_labels))
            okv = len(cols[k]) == len(want) and all(abs(a - b) <= 6e-7 * (1 + abs(b)) for a, b in zip(cols[k], want))
            if not (okl and okv):
                ctx.failure(key, "output for %r is not the table %s of %s labelled by the other coordinate" % (v, what, chosen[v]),
                            input=inp, expected=dict(labels=want_labels[:8], values=want[:8]),
                            observed=dict(labels=labels[:8], values=cols[k][:8]))
                return

    def do_extract(tag, d, listing, files, vars_, isp, y, hide=False):
        args = ["-v", ",".join(vars_), "-P" if isp else "-T", repr(float(y))]
        if hide:
            args.append("-h")
        out, err = invoke(EX.main, args, d)
        ctx.case([tag, args])
        ctx.count("extract %s" % ("-P" if isp else "-T"))
        obs = "None"
        if err is None:
            try:
                names, labels, cols = parse_extract_stdout(out, hide, len(vars_))
                obs = "(Some (%s, %s))" % (flist(labels), coq_cols(zip(names if names else vars_, cols)))
            except Exception:
                obs = "(Some ([], []))"
        xcases.append(("(%s, %s, %s, %s, files_%s, %s)" % ("true" if isp else "false", fhex(y), coq_slist(vars_),
                                                             coq_slist(listing), tag, obs),
                       dict(dir=tag, args=args)))
        oracle_extract(tag, d, listing, files, vars_, isp, y, hide, out, err)
        if len(xcases) in (1, 9):
            ctx.sample(dict(cmd="cij extract " + " ".join(args), dir=tag, stdout=out[:400]))

    def do_geotherm(tag, d, listing, files, vars_, geo_cols, tcol=None, pcol=None, fn=None, tol=None, T_name="T", P_name="P",
                    int_cols=()):
        gpath = d / ("geo_%d.txt" % len(gcases))
        names = [n for n, _ in geo_cols]
        rows = zip(*[c for _, c in geo_cols])
        # columns in int_cols are written the way geotherm files usually are: whole numbers without a decimal point
        assert all(float(x).is_integer() for n, c in geo_cols if n in int_cols for x in c), "int_cols need whole numbers"
        num = lambda n, x: ("%d" % x) if n in int_cols else repr(x)          # noqa: E731
        gpath.write_text(" ".join(names) + "\n" + "\n".join(" ".join(num(n, x) for n, x in zip(names, r)) for r in rows) + "\n")
        if int_cols:
            ctx.count("extract-geotherm with integer-written columns")
        args = ["-g", gpath.name, "-v", ",".join(vars_)]
        if tcol is not None:
            args += ["--t-col", tcol]
        if pcol is not None:
            args += ["--p-col", pcol]
        out, err = invoke(GE.main, args, d)
        ctx.case([tag, args, geo_cols])
        ctx.count("extract-geotherm")
        obs = "None"
        frame = None
        if err is None:
            try:
                on, oc = parse_frame_stdout(out)
                frame = list(zip(on, oc))
                obs = "(Some %s)" % coq_cols(frame)
            except Exception:
                obs = "(Some [])"
        gcases.append(("(%s, %s, %s, %s, %s, files_%s, %s)" % (
            coq_string(tcol if tcol is not None else "P"), coq_string(pcol if pcol is not None else "T"),
            coq_cols([(n, [float(x) for x in c]) for n, c in geo_cols]), coq_slist(vars_), coq_slist(listing), tag, obs),
            dict(dir=tag, args=args)))
        # oracle: pass-through, nodes, analytic function
        inp = dict(dir=tag, args=args, geotherm={n: list(c) for n, c in geo_cols})
        key = "geotherm-%s-%s" % (tag, len(gcases))
        if err is not None:
            ctx.failure(key, "cij extract-geotherm failed: %s" % err, input=inp)
            return
        if frame is None or [n for n, _ in frame] != names + list(vars_):
            ctx.failure(key, "output columns are not the geotherm's columns followed by the variables", input=inp,
                        expected=names + list(vars_), observed=[n for n, _ in frame] if frame else out[:200])
            return
        for (n, c), (_, o) in zip(geo_cols, frame):
            if len(o) != len(c) or any(abs(a - b) > 6e-7 * (1 + abs(b)) for a, b in zip(o, c)):
                ctx.failure(key, "geotherm column %r is not passed through unchanged" % n, input=inp, expected=list(c), observed=o)
                return
        Tg = dict(geo_cols)[T_name]
        Pg = dict(geo_cols)[P_name]
        for k, v in enumerate(vars_):
            fname = [n for n in listing if n.startswith(v + "_tp_")][0]
            idx, pc, vals = files[fname]
            o = frame[len(names) + k][1]
            for n_, (t, p) in enumerate(zip(Tg, Pg)):
                if t in idx and p in pc:
                    want, how, tl = vals[idx.index(t)][pc.index(p)], "table entry at the grid node", 6e-7
                elif fn is not None:
                    want, how, tl = fn(t, p, VCODE[v]), "underlying function", tol
                else:
                    continue
                if not abs(o[n_] - want) <= tl * (1 + abs(want)):
                    ctx.failure(key, "%r at (T=%s, P=%s) is %r, %s is %r" % (v, t, p, o[n_], how, want), input=inp,
                                expected=want, observed=o[n_])
                    return
        if len(gcases) in (1, 4):
            ctx.sample(dict(cmd="cij extract-geotherm " + " ".join(args), dir=tag, stdout=out[:500]))

    # ---- scenarios ---------------------------------------------------------------------------------
    defs = []
    GR = [([300.0 + 100.0 * k for k in range(6)], [0.0 + 10.0 * j for j in range(7)]),
          ([0.0 + 250.0 * k for k in range(5)], [5.0 + 0.125 * j for j in range(9)]),      # labels need a third decimal
          ([10.5 + 12.5 * k for k in range(8)], [1.0 * j for j in range(5)]),
          ([273.0 + 1.0 * k for k in range(4)], [0.0 + 0.5 * j for j in range(4)]),
          ([100.0 + 400.0 * k for k in range(7)], [20.0 + 20.0 * j for j in range(6)])]
    for gi, (T, P) in enumerate(GR[: (2 if quick else 5)]):
        tag = "coded%d" % gi
        vars_all = ["c11s", "c12s", "bm_VRH", "v_p"]
        if gi % 2 == 1:      # a full output directory: names that are prefixes of other names (v / v_p / v_s, bm_V / bm_VRH)
            vars_all = vars_all + ["v", "bm_V", "v_s"]
        d, listing, files = scenario(tag, T, P, vars_all, "coded",
                                     decoy=("c12s", "c12s_tp_zzz.txt") if gi == 0 else None)
        defs.append("Definition files_%s : list (string * tbl) := [%s]." % (
            tag, ";\n  ".join("(%s, %s)" % (coq_string(n), coq_tbl(t)) for n, t in files.items())))
        dT, dP = T[1] - T[0], P[1] - P[0]
        reqT = [T[0], T[2], T[-1], T[1] + 0.3 * dT, T[2] + 0.7 * dT, T[0] + 0.5 * dT, T[-2] + 0.5 * dT,
                T[0] - 3 * dT, T[-1] + 10 * dT, -5.0]
        reqP = [P[0], P[3], P[-1], P[1] + 0.25 * dP, P[2] + 0.75 * dP, P[0] + 0.5 * dP, P[-2] + 0.5 * dP,
                P[0] - 2 * dP, P[-1] + 7 * dP]
        for n, y in enumerate(reqT):
            vs = [["c11s"], ["c11s", "c12s"], ["v_p", "bm_VRH", "c11s"], vars_all][n % 4]
            do_extract(tag, d, listing, files, vs, False, y, hide=(n == 4))
        for n, y in enumerate(reqP):
            vs = [["c12s"], ["bm_VRH", "c11s"], ["c11s", "c12s", "v_p"], vars_all][n % 4]
            do_extract(tag, d, listing, files, vs, True, y, hide=(n == 5))
        # random requests (inside, between and beyond the grid) and random variable lists
        for n in range(3 if quick else 60):
            vs = ctx.rng.sample(vars_all, ctx.rng.randint(1, 4))
            if ctx.rng.random() < 0.5:
                y = round(ctx.rng.uniform(T[0] - 2 * dT, T[-1] + 2 * dT), ctx.rng.choice([0, 1, 3]))
                do_extract(tag, d, listing, files, vs, False, y)
            else:
                y = round(ctx.rng.uniform(P[0] - 2 * dP, P[-1] + 2 * dP), ctx.rng.choice([0, 1, 3]))
                do_extract(tag, d, listing, files, vs, True, y)
        if gi % 2 == 1:
            do_extract(tag, d, listing, files, ["v", "bm_V"], False, T[2])
            do_extract(tag, d, listing, files, ["bm_V", "v_s", "v"], True, P[1])
        # a variable without a table
        do_extract(tag, d, listing, files, ["c11s", "G_V"], False, T[1])
        # geotherm on the coded (bilinear) table: exact everywhere, through nodes and between
        lin = lambda t, p, k: coded((t - T[0]) / dT, (p - P[0]) / dP, k)   # noqa: E731
        nodes = [(T[i], P[j]) for i, j in [(0, 0), (1, 2), (2, 1), (len(T) - 1, len(P) - 1), (3, 3)]]
        mids = [(T[0] + 0.5 * dT, P[1] + 0.25 * dP), (T[2] + 0.1 * dT, P[0] + 0.9 * dP), (T[1], P[2] + 0.5 * dP)]
        pts = nodes + mids
        do_geotherm(tag, d, listing, files, ["c11s", "v_p"],
                    [("P", [p for _, p in pts]), ("T", [t for t, _ in pts]), ("D", [100.0 * n for n in range(len(pts))])],
                    fn=lin, tol=1e-6)
        # whole-number temperatures / pressures written without a decimal point (pandas reads them as int64 columns)
        tint = lambda t: float(min(max(math.ceil(t), math.ceil(T[0])), math.floor(T[-1])))      # noqa: E731 - whole number inside the range
        ipts = [(tint(t), p) for t, p in nodes[:3] + mids] + [(tint(T[1] + 0.37 * dT), float(math.ceil(P[0] + 0.4 * dP)))]
        do_geotherm(tag, d, listing, files, ["c11s", "v_p"],
                    [("D", [10.0 * n for n in range(len(ipts))]), ("P", [p for _, p in ipts]), ("T", [t for t, _ in ipts])],
                    fn=lin, tol=1e-6, int_cols=("T", "D"))
        if all(float(p).is_integer() and float(t).is_integer() for t, p in nodes):
            do_geotherm(tag, d, listing, files, ["bm_VRH"],
                        [("P", [p for _, p in nodes]), ("T", [t for t, _ in nodes])], fn=lin, tol=1e-6, int_cols=("T", "P"))
        rpts = [(round(ctx.rng.uniform(T[0], T[-1]), 2), round(ctx.rng.uniform(P[0], P[-1]), 3)) for _ in range(4 if quick else 40)]
        do_geotherm(tag, d, listing, files, ctx.rng.sample(vars_all, 2),
                    [("T", [t for t, _ in rpts]), ("z", [1.5 * n for n in range(len(rpts))]), ("P", [p for _, p in rpts])],
                    fn=lin, tol=1e-6)
        if gi % 2 == 1:
            do_geotherm(tag, d, listing, files, ["v", "bm_V"],
                        [("P", [p for _, p in pts]), ("T", [t for t, _ in pts])], fn=lin, tol=1e-6)
        do_geotherm(tag, d, listing, files, ["bm_VRH"],
                    [("depth", [7.5 * n for n in range(len(pts))]), ("TEMP", [t for t, _ in pts]), ("PRES", [p for _, p in pts])],
                    tcol="PRES", pcol="TEMP", fn=lin, tol=1e-6, T_name="TEMP", P_name="PRES")
    # smooth tables, refinement 1x 2x 4x
    T0, P0 = [300.0 + 400.0 * k for k in range(6)], [0.0 + 25.0 * j for j in range(6)]
    path = [(313.0 + 1970.0 * s / 22.0, 0.7 + 121.0 * s / 22.0) for s in range(23)]       # strictly inside the range
    errs = []
    node_err = 0.0
    for r in (1, 2, 4):
        T = [300.0 + 400.0 / r * k for k in range(5 * r + 1)]
        P = [0.0 + 25.0 / r * j for j in range(5 * r + 1)]
        tag = "smooth%dx" % r
        d, listing, files = scenario(tag, T, P, ["c11s", "c44t"], "smooth")
        defs.append("Definition files_%s : list (string * tbl) := [%s]." % (
            tag, ";\n  ".join("(%s, %s)" % (coq_string(n), coq_tbl(t)) for n, t in files.items())))
        tol = 2e-3 / r ** 3
        nodes = [(T[i], P[j]) for i, j in [(0, 0), (2, 3), (len(T) - 1, 1), (1, len(P) - 1)]]
        pts = nodes + path[::4]
        do_geotherm(tag, d, listing, files, ["c11s", "c44t"],
                    [("P", [p for _, p in pts]), ("T", [t for t, _ in pts])], fn=smooth, tol=tol)
        do_extract(tag, d, listing, files, ["c11s", "c44t"], False, T[1] + 0.5 * (T[1] - T[0]))
        do_extract(tag, d, listing, files, ["c44t", "c11s"], True, P[2] + 0.5 * (P[1] - P[0]))
        # direct measurement through the module's own load_data / fit_data (full precision)
        old = os.getcwd()
        os.chdir(d)
        try:
            e = 0.0
            for k, v in enumerate(["c11s", "c44t"]):
                df = GE.load_data(v)
                f = GE.fit_data(df)
                for t, p in path:
                    e = max(e, abs(float(f(t, p, grid=False)) - smooth(t, p, VCODE[v])) / abs(smooth(t, p, VCODE[v])))
                idx, pc, vals = files[FNAMES[v]]
                for i, t in enumerate(idx):
                    for j, p in enumerate(pc):
                        node_err = max(node_err, abs(float(f(t, p, grid=False)) - vals[i][j]) / (1 + abs(vals[i][j])))
            errs.append(e)
        except Exception as ex:
            errs.append(float("nan"))
            ctx.obligation("geotherm refinement measurement %dx" % r, "measurement", False, repr(ex))
        finally:
            os.chdir(old)
    ctx.extra["geotherm_refinement"] = dict(grids=["6x6", "11x11", "21x21"], max_rel_error_between_nodes=errs,
                                            ratios=[errs[0] / errs[1] if errs[1] else None,
                                                    errs[1] / errs[2] if errs[2] else None],
                                            max_rel_error_at_nodes=node_err)
    ok_nodes = node_err <= 1e-9
    ctx.obligation("geotherm spline reproduces every grid node of the smooth tables to 1e-9 (measured %.2e)" % node_err,
                   "measurement", ok_nodes)
    if not ok_nodes:
        ctx.failure("geotherm-node-exactness", "fit_data(load_data(var)) does not reproduce table entries at grid nodes",
                    input=dict(tables="smooth 1x/2x/4x"), observed=node_err, expected="<= 1e-9")
    ok_conv = all(e == e for e in errs) and errs[1] <= errs[0] / 4 and errs[2] <= errs[1] / 4
    ctx.obligation("geotherm error between nodes shrinks >= 4x per grid refinement (measured %s)" % ["%.2e" % e for e in errs],
                   "measurement", ok_conv)
    if not ok_conv:
        ctx.failure("geotherm-convergence", "error along a geotherm between nodes does not shrink under grid refinement",
                    input=dict(path=path[:5], grids=["6x6", "11x11", "21x21"]), observed=errs)

    # ---- Coq shards -----------------------------------------------------------------------------------
    txt = [HEADER] + defs
    txt.append("Definition xcases : list xcase := [\n %s]." % ";\n ".join(c for c, _ in xcases))
    txt.append("Definition gcases : list gcase := [\n %s]." % ";\n ".join(c for c, _ in gcases))
    txt.append("Eval vm_compute in (failing check_extract xcases).")
    txt.append("Eval vm_compute in (failing check_geotherm gcases).")
    f = write(rd / "cases_C19.v", "\n".join(txt))
    res = ctx.run_shards([f], label="tie")
    ok, fl, out = res[f]
    if fl and (fl[0] or (len(fl) > 1 and fl[1])):
        ctx.extra["tie_failing"] = dict(extract=[xcases[i][1] for i in fl[0][:10]],
                                        geotherm=[gcases[i][1] for i in (fl[1] if len(fl) > 1 else [])[:10]])
    shutil.rmtree(rd / "work", ignore_errors=True)
