"""Static (translator) tie of C04's task identity to the current text of cij/core/tasks.py.

static_tie(ctx, rd) regenerates Gen_taskid.v (tools/translate_taskid.py, fail-closed ast translator) and compiles
tools/tie_taskid/Tie_taskid.v against it in the per-run directory `rd` (logical path CijGen):

    task-identity   __eq__ decision tree = TasksModel.cteq (all 64 combinations of the abstract facts, then for all
                    tasks); _make_param_by_strain_key: shear -> (strain, key), non-shear -> (e_i / sum e, e_k / sum e)
                    with (i, i, k, k) = key.s = the model's col (fst k - 1) / col (snd k - 1); __hash__: equal tasks
                    hash equally (weak consistency only)

One obligation for the group; never calls ctx.failure.  Returns the failed group ids.
"""
from vlib import REPO, VERIF
import translate_taskid as T
import tie_common

TEMPLATES = VERIF / "tools" / "tie_taskid"
GROUPS = [("task-identity", "Tie_taskid.v",
           "PhononContributionTaskParams.__eq__ = TasksModel.cteq (calc type; SHEAR: key and array_equal strains; else "
           "array_equal params), params = (e_i, e_k)/sum e, equal tasks hash equally")]

TRUSTED = (
    "translator tools/translate_taskid.py (fail-closed ast whitelist: if/return trees over calc_type comparisons, "
    "params[1] ==/!= params[1], numpy.array_equal of params[0] / params[1] / params, not/and/or; strain[:, idx] / "
    "numpy.sum(strain, axis=1) with + - * /; hash(..) ^ hash(..) of calc_type / params[n] / tuple(params[n].flatten()"
    ".tolist()), leading single-assignment locals that every return reads, dropped else after return) and its reading of the atoms (tools/tie_taskid/TaskIdTieBase.v: an atom evaluated where it has no "
    "meaning is an error; numpy.array_equal true => equal tuples of Python floats => equal hashes); only "
    "pattern-checked (glue): NamedTuple fields (calc_type, params), create = cls(key.calc_type, "
    "cls._make_param_by_strain_key(strain, key)), key.s / key.is_shear / key.calc_type are those of voigt.py (C10); "
    "lemma file tools/tie_taskid/Tie_taskid.v (hand-written statements; case analysis, field over R)"
)


def static_tie(ctx, rd):
    ctx.trusted.append(TRUSTED)
    why = {}
    gen = T.HEADER % T.FILE
    try:
        res = T.translate((REPO / T.FILE).read_text())
        gen = T.emit(res)
        if res.errors:
            why["task-identity"] = "; ".join(str(e) for e in res.errors.values())
    except (SyntaxError, OSError) as e:
        why["task-identity"] = "%s cannot be read/parsed: %r" % (T.FILE, e)
    return tie_common.run_groups(ctx, rd, "taskid", T.FILE, "Gen_taskid.v", gen, TEMPLATES, ["TaskIdTieBase.v"], GROUPS,
                                 why, "taskid")
