"""C03 - shear components by strain-energy rotation are exact tensor algebra."""
import importlib
import itertools
import shutil

import numpy

from vlib import REPO, PROPS, write, fhex, flist, flist2
import translate_voigt

ALL_KEYS = [(1, 1), (2, 2), (3, 3), (1, 2), (1, 3), (2, 3), (4, 4), (5, 5), (6, 6),
            (1, 4), (1, 5), (1, 6), (2, 4), (2, 5), (2, 6), (3, 4), (3, 5), (3, 6), (4, 5), (4, 6), (5, 6)]
SHEAR = [k for k in ALL_KEYS if k[0] > 3 or k[1] > 3]
STD = {1: (0, 0), 2: (1, 1), 3: (2, 2), 4: (1, 2), 5: (0, 2), 6: (0, 1)}
VOF = {(0, 0): 1, (1, 1): 2, (2, 2): 3, (1, 2): 4, (2, 1): 4, (0, 2): 5, (2, 0): 5, (0, 1): 6, (1, 0): 6}

VOIGT_TIE = r"""
(* static Voigt.v agrees with the model regenerated from cij/util/voigt.py on the whole domain *)
From Coq Require Import ZArith List Bool Arith.
From Cij Require Import VoigtBase Voigt.
From CijGen Require Import Gen_voigt.
Import ListNotations.
Definition zk (k : vkey) : Z * Z := (Z.of_nat (fst k), Z.of_nat (snd k)).
Definition tie4 : bool :=
  forallb (fun i => forallb (fun j => forallb (fun k => forallb (fun l =>
    match mod_from_standard (Z.of_nat (S i)) (Z.of_nat (S j)) (Z.of_nat (S k)) (Z.of_nat (S l)) with
    | Some m => let '(a, b) := mod_voigt m in let '(x, y) := zk (canon4 i j k l) in
                (a =? x)%Z && (b =? y)%Z &&
                (multiplicity m =? Z.of_nat (mult (canon4 i j k l)))%Z &&
                Bool.eqb (Gen_voigt.is_shear m) (Voigt.is_shear (canon4 i j k l)) &&
                Bool.eqb (Gen_voigt.is_longitudinal m) (Voigt.is_long (canon4 i j k l)) &&
                Bool.eqb (Gen_voigt.is_off_diagonal m) (Voigt.is_offd (canon4 i j k l))
    | None => false
    end) idx3) idx3) idx3) idx3.
Definition tie2 : bool :=
  forallb (fun k => match mod_from_voigt (Z.of_nat (fst k)) (Z.of_nat (snd k)) with
                    | Some m => let '(i, j, p, q) := mod_standard m in
                                let '(s1, s2) := (std_of (fst k), std_of (snd k)) in
                                (i =? Z.of_nat (S (fst s1)))%Z && (j =? Z.of_nat (S (snd s1)))%Z &&
                                (p =? Z.of_nat (S (fst s2)))%Z && (q =? Z.of_nat (S (snd s2)))%Z
                    | None => false end) all_keys.
Goal tie4 = true. Proof. vm_compute. reflexivity. Qed.
Goal tie2 = true. Proof. vm_compute. reflexivity. Qed.
"""


def voigt_tie(ctx, rd):
    """regenerate Gen_voigt.v and check the static Voigt.v against it (shared by C03/C04/...)"""
    try:
        gen = translate_voigt.translate((REPO / "cij/util/voigt.py").read_text())
    except translate_voigt.Untranslatable as e:
        ctx.obligation("translate cij/util/voigt.py -> Gen_voigt.v", "translator", False, str(e))
        return False
    write(rd / "Gen_voigt.v", gen)
    ok, _ = ctx.prove(rd / "Gen_voigt.v", "translate cij/util/voigt.py -> Gen_voigt.v", "translator",
                      extra_Q=[(rd, "CijGen")])
    if not ok:
        return False
    write(rd / "VoigtTie.v", VOIGT_TIE)
    ok, _ = ctx.prove(rd / "VoigtTie.v", "VoigtTie.v: static Voigt.v = regenerated voigt model on all 81 tuples / 21 keys",
                      "translator-tie", extra_Q=[(rd, "CijGen")])
    return ok


def full_tensor(cv):
    """cv: dict voigt pair -> value; returns 3x3x3x3 numpy array with all symmetries"""
    c = numpy.zeros((3, 3, 3, 3))
    for i, j, k, l in itertools.product(range(3), repeat=4):
        a, b = VOF[(i, j)], VOF[(k, l)]
        key = (a, b) if a <= b else (b, a)
        c[i, j, k, l] = cv[key]
    return c


HEADER = r"""
From Coq Require Import ZArith List Bool Arith Uint63 PrimFloat.
From Cij Require Import Ops FOps Voigt ShearModel.
Import ListNotations.
Local Open Scope float_scope.

Definition fisz (x : float) : bool := abs x <=? 0x1.5798ee2308c3ap-27.  (* numpy.isclose(x, 0): atol 1e-8 *)
Fixpoint insert_k (k : vkey) (l : list vkey) : list vkey :=
  match l with [] => [k] | x :: r =>
    if (fst k <? fst x)%nat || ((fst k =? fst x)%nat && (snd k <=? snd x)%nat) then k :: l else x :: insert_k k r end.
Definition sort_k (l : list vkey) : list vkey := fold_right insert_k [] l.
Fixpoint keys_eqb (a b : list vkey) : bool :=
  match a, b with [] , [] => true | x :: a', y :: b' => vkey_eqb x y && keys_eqb a' b' | _, _ => false end.

Record case := {
  ck : vkey; clam : list float; cT : list (list float); ce : list (list float);   (* e: (ntv, 3) *)
  ctens : list (vkey * float);
  o_fict : list (list float); o_erot : list (list float);
  o_korig : list vkey; o_krot : list vkey; o_val : float; o_scale : float }.

Definition chk (c : case) : bool :=
  let k := ck c in let lam := vec3 (clam c) in let T := mat3 (cT c) in
  let cf := klookup nan (ctens c) in
  (* fictitious strain *)
  all_close2 (fun a b => a =? b) (map (fun i => map (fun j => fict k i j) idx3) idx3) (o_fict c) &&
  (* hypothesis of shear_solver_exact holds for the implementation's own (lam, T), to 1e-12 *)
  forallb (fun a => forallb (fun b => abs (recompose T lam a b - fict k a b) <=? 0x1.19799812dea11p-40) idx3) idx3 &&
  (* rows of T normalised (hypothesis of strain_rot_trace) *)
  forallb (fun a => abs (sum3 (fun i => T a i * T a i) - 1) <=? 0x1.19799812dea11p-40) idx3 &&
  (* key lists *)
  keys_eqb (sort_k (keys_orig fisz k)) (sort_k (o_korig c)) &&
  keys_eqb (sort_k (keys_rot fisz lam)) (sort_k (o_krot c)) &&
  (* rotated strains *)
  all_close2 close9 (map (fun e => map (fun i => strain_rot T (vec3 e) i) idx3) (ce c)) (o_erot c) &&
  (* the solver, fed with the tensor rotated by the model's own [rotate] *)
  let crot := fun key : vkey => rotate T cf (fst key - 1) (snd key - 1) in
  let v := solve fisz k lam cf crot in
  (abs (v - o_val c) <=? 0x1.12e0be826d695p-30 * o_scale c) &&
  (abs (v - cf k) <=? 0x1.12e0be826d695p-30 * o_scale c).
"""


def klit(k):
    return "(%d, %d)%%nat" % k


def run(ctx):
    rd = ctx.fresh_run_dir()
    ctx.rule = ("for each of the 15 shear keys: random positive strain fields (ntv 1-3) and random symmetric "
                "tensors plus the 21 basis tensors, moduli handed over as numpy scalars, 0-d arrays or (nt,nv) float64 "
                "grids (inputs must stay untouched, a second call must agree); the implementation's own eig frame "
                "(lam,T) is exported exactly; "
                "a case is non-trivial when the tensor has a non-zero target component or is a basis tensor the "
                "key's energy sum touches; distinct by (key, tensor, strain)")
    ctx.trusted += [
        "LAPACK eigh is an oracle: only its contract (T diag(lam) T^T = fictitious strain, normalised rows) is "
        "checked, inside Coq, on every frame the implementation produced",
        "numpy.isclose(x,0) is modelled as the exact zero test in the theorem over R (exact eigenvalues of the 15 "
        "fictitious strains are 0, +-1, +-sqrt2, (1+-sqrt5)/2-like algebraic numbers) and as |x|<=1e-8 in the float tie",
        "static Voigt.v tied to cij/util/voigt.py by the per-run VoigtTie obligation",
    ]
    ctx.assumptions += ["eigen-decomposition modelled as an arbitrary (lam,T) with T diag(lam) T^T = strain"]

    voigt_tie(ctx, rd)
    shutil.copy(PROPS / "Prop_C03.v", rd / "Prop_C03.v")
    ctx.prove(rd / "Prop_C03.v", "Prop_C03.v (8 theorems incl. shear_solver_exact)", "theorem-file")
    # static tie: shear.py is re-translated and proved equal to ShearModel.v on every run (all lemma groups)
    from props import shear_static
    shear_static.static_tie(ctx, rd)

    import cij.util.voigt as V
    import cij.core.phonon_contribution.shear as S
    importlib.reload(V)
    importlib.reload(S)
    from cij.util import c_
    rng = ctx.rng
    nrand = 3 if ctx.tier == "quick" else 1000
    cases = []
    meta = []
    for key in SHEAR:
        ck = c_(*key)
        tensors = []
        for b in ALL_KEYS:           # basis tensors
            tensors.append(("basis%d%d" % b, {k: (1.0 if k == b else 0.0) for k in ALL_KEYS}))
        for r in range(nrand):
            tensors.append(("rand%d" % r, {k: rng.uniform(-2, 5) for k in ALL_KEYS}))
        for name, cv in tensors:
            ntv = rng.choice([1, 2, 3])
            e = [[rng.uniform(0.05, 0.9) for _ in range(3)] for _ in range(ntv)]
            obj = S.ShearElasticModulusPhononContribution(numpy.array(e), ck)
            try:
                fict = obj.fictitious_strain
                lam = numpy.diag(obj.fictitious_strain_rotated)
                T = obj.transformation_matrix
                erot = obj.strain_rotated
                korig = [tuple(k.voigt) for k in obj.get_modulus_keys()]
                krot = [tuple(k.voigt) for k in obj.get_modulus_keys_rotated()]
                c4 = full_tensor(cv)
                crot = numpy.einsum("ai,bi,cj,dj,abcd->ij", T, T, T, T, c4)
                # the moduli are handed over in the forms callers use: numpy scalars, 0-d arrays, and (nt, nv) float64
                # grids (what the task list passes); the solver must neither depend on the form nor modify its inputs
                form = rng.choice(["scalar", "array0", "grid", "grid"])
                shape = {"scalar": None, "array0": (), "grid": (2, ntv)}[form]
                wrap = (lambda v: numpy.float64(v)) if shape is None else (lambda v: numpy.full(shape, float(v)))
                obj.modulus = {c_(*k): wrap(v) for k, v in cv.items()}
                obj.modulus_rotated = {c_(i + 1, i + 1, j + 1, j + 1): wrap(crot[i, j]) for i in range(3) for j in range(3)}
                before = ({k: numpy.array(v, copy=True) for k, v in obj.modulus.items()},
                          {k: numpy.array(v, copy=True) for k, v in obj.modulus_rotated.items()})
                val = obj.get_target_elastic_modulus()
                val2 = obj.get_target_elastic_modulus()
                ctx.count("moduli passed as " + form)
                mutated = [str(k) for d0, d1 in zip(before, (obj.modulus, obj.modulus_rotated)) for k in d0
                           if not numpy.array_equal(d0[k], d1[k])]
                if mutated or not numpy.array_equal(numpy.asarray(val), numpy.asarray(val2)):
                    ctx.failure("solver-aliasing-c%d%d" % key,
                                "get_target_elastic_modulus modifies the moduli it is given (%s) / a second call returns "
                                "%r after %r" % (", ".join(mutated[:4]) or "none", numpy.ravel(val2)[:2].tolist(),
                                                 numpy.ravel(val)[:2].tolist()),
                                input=dict(key=key, tensor=cv, strain=e, moduli_form=form + " float64 ndarray" * (form != "scalar")),
                                expected="inputs untouched, same value on every call", observed=mutated[:6])
                    break
                if numpy.ndim(val) > 0:
                    flat = numpy.ravel(val)
                    if not numpy.all(flat == flat[0]):
                        raise ValueError("grid of identical tensors gives a non-constant result %r" % (flat[:4].tolist(),))
                    val = flat[0]
                val = float(numpy.real(val)) if numpy.iscomplexobj(val) and abs(numpy.imag(val)) == 0 else val
                if numpy.iscomplexobj(lam) or numpy.iscomplexobj(T) or numpy.iscomplexobj(val):
                    raise TypeError("complex eigen-decomposition")
                val = float(val)
            except Exception as ex:
                ctx.failure("shear-raises-%d%d" % key, "shear solver raised %s: %s for key c%d%d" %
                            (type(ex).__name__, ex, key[0], key[1]), input=dict(key=key, tensor=name))
                break
            scale = max(1.0, max(abs(v) for v in cv.values()))
            nontriv = cv[key] != 0.0 or any(cv[k] != 0 for k in set(korig))
            ctx.case(dict(key=key, tensor=sorted(cv.items()), e=e), nontrivial=nontriv)
            ctx.count("key c%d%d" % key)
            ctx.count("tensor:" + ("basis" if name.startswith("basis") else "random"))
            cases.append("{| ck := %s; clam := %s; cT := %s; ce := %s;\n   ctens := [%s];\n   o_fict := %s; o_erot := %s;\n"
                         "   o_korig := [%s]; o_krot := [%s]; o_val := %s; o_scale := %s |}" % (
                             klit(key), flist(lam), flist2(T), flist2(e),
                             "; ".join("(%s, %s)" % (klit(k), fhex(v)) for k, v in cv.items()),
                             flist2(fict), flist2(erot),
                             "; ".join(klit(k) for k in korig), "; ".join(klit(k) for k in krot),
                             fhex(val), fhex(scale)))
            meta.append(dict(key=key, tensor=name, components=cv, strain=e, lam=lam.tolist(), T=T.tolist(),
                             observed=val, expected=cv[key], keys_orig=korig, keys_rot=krot, scale=scale,
                             erot=erot.tolist()))
            # ---- oracle straight from the property statement -------------------------------
            if abs(val - cv[key]) > 1e-9 * scale:
                ctx.failure("solver-c%d%d-%s" % (key[0], key[1], name if name.startswith("basis") else "rand"),
                            "shear solver returns %.12g for c%d%d of a tensor whose component is %.12g"
                            % (val, key[0], key[1], cv[key]),
                            input=dict(key=key, tensor=cv, strain=e), expected=cv[key], observed=val)
            if key in korig:
                ctx.failure("asks-target-c%d%d" % key, "solver asks for its own target", input=dict(key=key))
            if any(k[0] > 3 or k[1] > 3 for k in krot):
                ctx.failure("rot-asks-shear-c%d%d" % key, "rotated key list contains a shear key %s" % (krot,),
                            input=dict(key=key))
            if numpy.abs(erot.sum(axis=1) - numpy.array(e).sum(axis=1)).max() > 1e-12:
                ctx.failure("trace-c%d%d" % key, "rotated axial strains do not preserve the trace",
                            input=dict(key=key, strain=e), observed=erot.tolist())
            want = numpy.einsum("ai,va,ai->vi", T, numpy.array(e), T)
            if numpy.abs(want - erot).max() > 1e-12:
                ctx.failure("erot-c%d%d" % key, "strain_rotated is not the diagonal of T^T diag(e) T",
                            input=dict(key=key, strain=e), observed=erot.tolist(), expected=want.tolist())
    for m in meta[:2] + meta[-2:]:
        ctx.sample({k: m[k] for k in ("key", "tensor", "strain", "lam", "observed", "expected", "keys_rot")})

    # shards
    files = []
    per = 60
    for si in range(0, len(cases), per):
        txt = HEADER + "\nDefinition cases : list case := [\n" + ";\n".join(cases[si:si + per]) + "].\n" + \
            "Local Close Scope float_scope.\nEval vm_compute in (failing chk cases).\n"
        files.append(write(rd / ("cases_C03_%02d.v" % (si // per)), txt))
    res = ctx.run_shards(files, label="shear tie")
    for fi, f in enumerate(files):
        ok, fl, out = res[f]
        for lst in fl:
            for i in lst:
                if 0 <= i and fi * per + i < len(meta):
                    m = meta[fi * per + i]
                    ctx.extra.setdefault("tie_disagreements", []).append(
                        dict(key=m["key"], tensor=m["tensor"], observed=m["observed"], expected=m["expected"]))
