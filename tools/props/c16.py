"""C16 - effective configuration = user settings over packaged defaults; invalid rejected.

Tie: the schema / default / example files are re-translated on every run (translate_schema.py) and
the theorems of Prop_C16.v are re-proved against them; update_config, apply_default_config,
validate_config and read_config are executed on generated inputs and compared with the Gallina
models inside Coq.  Search stage: an oracle written from the property text (oracle_* below) - it
does not read the schema file and does not use the Coq model.
"""
import copy
import glob
import importlib
import json
import math
import os
import shutil
import subprocess
import sys

from vlib import REPO, PROPS, write
import translate_schema as TS

CHUNK = 250

# ----------------------------------------------------------------------------------------
# helpers
# ----------------------------------------------------------------------------------------


def same(a, b):
    """type-exact structural equality (dict order ignored; nan == nan; 1 != 1.0 != True)"""
    if type(a) is not type(b):
        return False
    if isinstance(a, dict):
        return a.keys() == b.keys() and all(same(a[k], b[k]) for k in a)
    if isinstance(a, list):
        return len(a) == len(b) and all(same(x, y) for x, y in zip(a, b))
    if isinstance(a, float):
        return (math.isnan(a) and math.isnan(b)) or a == b
    return a == b


def observe(fn, *args, **kw):
    try:
        return fn(*args, **kw), None
    except BaseException as e:
        return None, type(e).__name__


def opt_term(v, err):
    return "None" if err is not None else "(Some (%s))" % TS.json_term(v, 4)


def jd(x):
    """JSON-able description (nan/inf/big ints as strings) for replay files"""
    if isinstance(x, dict):
        return {k: jd(v) for k, v in x.items()}
    if isinstance(x, list):
        return [jd(v) for v in x]
    if isinstance(x, float) and not math.isfinite(x):
        return repr(x)
    return x


# ----------------------------------------------------------------------------------------
# random nested dictionaries
# ----------------------------------------------------------------------------------------

KEYS = ["a", "b", "c", "d", "e", "f", "qha", "elast", "settings", "k 1", 'q"t', "additionalProperties", ""]
LEAVES = [None, True, False, 0, 1, -7, 2 ** 70, 0.5, -0.0, 1e-8, 3.0, 1.2, float("inf"), float("-inf"),
          float("nan"), "", "x", "lsq_poly", "1", [], [1, 2], [{"a": 1}, {"a": 1, "b": None}], ["a", None, 2.5], {}]


def rleaf(rng):
    return copy.deepcopy(rng.choice(LEAVES))


def rtree(rng, depth, pdict=0.45):
    n = rng.choice([0, 1, 2, 2, 3, 3, 4])
    out = {}
    for k in rng.sample(KEYS, n):
        if depth > 1 and rng.random() < pdict:
            out[k] = rtree(rng, depth - 1, pdict)
        else:
            out[k] = rleaf(rng)
    return out


def derive(rng, d, depth, clash_dict_over_leaf, stats):
    """a user tree related to the default tree d"""
    u = {}
    for k, v in d.items():
        r = rng.random()
        if r < 0.30:
            continue                                            # unspecified -> default
        if isinstance(v, dict):
            if r < 0.75 and depth > 1:
                u[k] = derive(rng, v, depth - 1, clash_dict_over_leaf, stats)   # shared dict
            elif r < 0.88:
                x = rleaf(rng)
                u[k] = x                                        # user leaf over default dict
                if not isinstance(x, dict):
                    stats["leaf_over_dict"] = stats.get("leaf_over_dict", 0) + 1
            else:
                u[k] = copy.deepcopy(v)
        else:
            if r < 0.55:
                u[k] = rleaf(rng)                               # user leaf over default leaf
            elif r < 0.70 and clash_dict_over_leaf:
                u[k] = rtree(rng, max(1, depth - 1))            # user dict over default leaf (D11 before e564612)
                stats["dict_over_leaf"] = stats.get("dict_over_leaf", 0) + 1
            else:
                u[k] = copy.deepcopy(v)
    for k in rng.sample(KEYS, rng.choice([0, 0, 1, 2])):
        if k not in d:
            u[k] = rtree(rng, depth - 1) if depth > 1 and rng.random() < 0.5 else rleaf(rng)   # disjoint key
    return u


def tree_depth(x):
    return 1 + max([tree_depth(v) for v in x.values()] + [0]) if isinstance(x, dict) else 0


# ----------------------------------------------------------------------------------------
# ORACLE (from the property statement)
# ----------------------------------------------------------------------------------------

def flatten(x, pre=()):
    """leaves: path -> value (non-dict values; an empty dict counts as a leaf '{}'); nodes: all dict paths"""
    leaves, nodes = {}, set()
    if isinstance(x, dict):
        nodes.add(pre)
        if not x and pre:
            leaves[pre] = x
        for k, v in x.items():
            l2, n2 = flatten(v, pre + (k,))
            leaves.update(l2)
            nodes |= n2
    else:
        leaves[pre] = x
    return leaves, nodes


def oracle_merge(u, d, r):
    """None if r is the effective configuration the property describes, else (class, detail)"""
    if not isinstance(r, dict):
        return "result-not-a-dict", repr(r)
    lu, nu = flatten(u)
    ld, nd = flatten(d)
    lr, nr = flatten(r)
    for p, v in lu.items():                       # every user-specified leaf value is kept
        if isinstance(v, dict):                   # user wrote an empty dict: result must have a dict there
            if p not in nr:
                return "user-leaf-lost", list(p)
        elif p not in lr or not same(lr[p], v):
            return "user-leaf-lost", list(p)
    for p, v in ld.items():                       # every unspecified leaf comes from the defaults
        specified = p in nu or any(p[:i] in lu and not isinstance(lu[p[:i]], dict) for i in range(1, len(p) + 1))
        if specified:
            continue
        if isinstance(v, dict):
            if p not in nr:
                return "default-leaf-missing", list(p)
        elif p not in lr or not same(lr[p], v):
            return "default-leaf-missing", list(p)
    for p in list(lr) + list(nr):                 # no other keys
        if not (p in lu or p in nu or p in ld or p in nd):
            return "extra-key", list(p)
    for p, v in lr.items():                       # every result leaf is a user leaf or an unspecified default leaf
        if isinstance(v, dict):
            continue
        if p in lu and same(lu[p], v):
            continue
        if p in ld and same(ld[p], v) and p not in lu:
            continue
        return "wrong-leaf", list(p)
    return None


INTERP = ["lsq_poly", "lagrange", "spline", "krogh", "pchip", "hermite", "akima"]
SYSTEMS = ["triclinic", "monoclinic", "hexagonal", "trigonal6", "trigonal7", "orthorhombic", "tetragonal6",
           "tetragonal7", "cubic"]
# documented fields: path -> (kind, minimum)          [README / schema titles / property statement]
FIELDS = {
    ("qha", "input"): ("string", None),
    ("qha", "settings", "NT"): ("integer", 1),
    ("qha", "settings", "DT"): ("number", None),
    ("qha", "settings", "T_MIN"): ("number", 0),
    ("qha", "settings", "NTV"): ("integer", 1),
    ("qha", "settings", "P_MIN"): ("number", None),
    ("qha", "settings", "DELTA_P"): ("number", None),
    ("qha", "settings", "DELTA_P_SAMPLE"): ("number", None),
    ("qha", "settings", "volume_ratio"): ("number", 1),
    ("qha", "settings", "order"): ("number", 2),
    ("elast", "input"): ("string", None),
    ("elast", "settings", "mode_gamma", "interpolator"): ("enum", INTERP),
    ("elast", "settings", "mode_gamma", "order"): ("integer", 1),
    ("elast", "settings", "symmetry", "system"): ("enum", SYSTEMS),
    ("elast", "settings", "symmetry", "ignore_residuals"): ("boolean", None),
    ("elast", "settings", "symmetry", "ignore_rank"): ("boolean", None),
    ("elast", "settings", "symmetry", "drop_atol"): ("number", None),
    ("elast", "settings", "symmetry", "residual_atol"): ("number", None),
}
NUMERIC = [p for p, (k, _) in FIELDS.items() if k in ("integer", "number")]
# keys that occur in the shipped default/example files without being documented in the schema
SHIPPED_EXTRA = {("qha", "settings", "DT_SAMPLE"), ("qha", "settings", "static_only"), ("qha", "frequency")}
SECTIONS = [(), ("qha",), ("qha", "settings"), ("elast",), ("elast", "settings"), ("elast", "settings", "mode_gamma"),
            ("elast", "settings", "symmetry"), ("output",)]


def getp(c, p):
    for k in p:
        if not isinstance(c, dict) or k not in c:
            return False, None
        c = c[k]
    return True, c


def is_num(v):
    return type(v) in (int, float)


def oracle_validate(c):
    """('reject', class, path) if the property says c must be rejected, ('accept',..) if it says it must be
    accepted, (None,..) if the property does not decide."""
    if not isinstance(c, dict):
        return None, "not-a-dict", ()
    for sec in ("qha", "elast"):
        if sec not in c:
            return "reject", "missing-section", (sec,)
    undecided = False
    for p, (kind, arg) in FIELDS.items():
        ok, v = getp(c, p)
        if not ok:
            continue
        if kind in ("integer", "number"):
            if not is_num(v):
                return "reject", "wrong-type-numeric", p
            if isinstance(v, float) and not math.isfinite(v):
                undecided = True
                continue
            if kind == "integer" and v != int(v):
                return "reject", "wrong-type-numeric", p
            if kind == "integer" and type(v) is float:
                undecided = True                       # 3.0 for an integer: not decided by the property
            if arg is not None and v < arg:
                return "reject", "below-minimum", p
        elif kind == "enum":
            if not (type(v) is str and v in arg):
                return "reject", "unknown-enum", p
        elif kind == "string":
            if type(v) is not str:
                undecided = True
        elif kind == "boolean":
            if type(v) is not bool:
                undecided = True
    for sec in (("elast", "settings"), ("elast", "settings", "symmetry")):
        ok, v = getp(c, sec)
        if ok and isinstance(v, dict):
            known = {p[len(sec)] for p in FIELDS if p[:len(sec)] == sec and len(p) > len(sec)}
            for k in v:
                if k not in known:
                    return "reject", "unknown-key", sec + (k,)
    # accept: only documented sections/keys (or keys used by the shipped files), all documented-valid
    for sec in SECTIONS:
        ok, v = getp(c, sec)
        if not ok:
            continue
        if not isinstance(v, dict):
            undecided = True
            continue
        if sec == ("output",):
            continue
        known = {p[len(sec)] for p in list(FIELDS) + list(SHIPPED_EXTRA) if p[:len(sec)] == sec and len(p) > len(sec)}
        if sec == ():
            known |= {"output"}
        for k in v:
            if k not in known:
                undecided = True
    return (None if undecided else "accept"), "documented", ()


# ----------------------------------------------------------------------------------------
# the check
# ----------------------------------------------------------------------------------------

HEADER = """From Coq Require Import ZArith List Bool String.
From Cij Require Import JsonModel SchemaModel.
From CijGen Require Import Gen_schema Gen_defaults.
Import ListNotations.
Local Open Scope Z_scope.
Local Open Scope string_scope.
"""


def setp(c, p, v):
    c = copy.deepcopy(c)
    x = c
    for k in p[:-1]:
        if not isinstance(x.get(k), dict):
            x[k] = {}
        x = x[k]
    x[p[-1]] = v
    return c


def delp(c, p):
    c = copy.deepcopy(c)
    x = c
    for k in p[:-1]:
        x = x.get(k)
        if not isinstance(x, dict):
            return c
    x.pop(p[-1], None)
    return c


def run(ctx):
    rd = ctx.fresh_run_dir()
    rng = ctx.rng
    thorough = ctx.tier == "thorough"
    ctx.rule = (
        "merge: seeded random default trees (depth <= 4, 13-key pool incl. '', quotes, 'additionalProperties'; leaves "
        "None/bool/int/bigint/float/-0.0/inf/nan/str/list/list-of-dict/{}) and user trees derived from them (omit, "
        "shared dict, changed leaf, leaf-over-dict, dict-over-leaf, disjoint keys) or independent, plus fixed edge "
        "cases; every result re-merged (idempotence), inputs deep-compared after the call, re-run under 3 other "
        "PYTHONHASHSEEDs.  validate: every single-field perturbation (wrong types incl. bool, below/at minimum, every "
        "enum value and unknown ones, unknown key and literal 'additionalProperties' key at each of 8 levels, "
        "missing/retyped sections) of a configuration holding all documented fields, and of the shipped default and "
        "example files.  read_config: YAML block/flow and JSON spellings, validate on/off, suffix dispatch.  "
        "A case is non-trivial if it is a distinct (function, input) pair.")
    ctx.trusted += [
        "translator tools/translate_schema.py (fail-closed JSON-Schema subset / YAML subset) - validated by the exact "
        "accept/reject comparison of the regenerated model with jsonschema on every perturbation case",
        "PyYAML (FullLoader) and json parsers, and the jsonschema library (Draft 2020-12 validator selected for a "
        "schema without $schema) are oracles: the Coq model describes their observable behaviour on the subset; "
        "validated by exact comparison, not verified",
        "update_config model is a hand transcription of config.py (static JsonModel.v); tied by exact comparison of "
        "merged trees / AttributeError on every case, not by a translator",
        "dict key sets are Python str; non-string YAML keys, YAML aliases/tags/merge keys are rejected by the "
        "translator and not generated",
    ]
    ctx.assumptions += [
        "merge theorems hold for every pair of dicts and every enumeration order of the key set (no side condition); "
        "a non-dict ARGUMENT of update_config is outside the property (AttributeError, modelled by None)",
    ]
    ctx.partial += [
        "inputs left unmodified: functional model makes it trivial in Coq; for the implementation it is measured by "
        "deep comparison on every tie case",
        "YAML and JSON spellings load identically: measured on dumped spellings (parsers are oracles)",
    ]

    # ---------------------------------------------------------------- 1. regenerate models
    gen_ok = True
    try:
        stext = (REPO / "cij/data/schema/config.schema.json").read_text()
        gen, ignored = TS.translate_schema(stext)
        write(rd / "Gen_schema.v", gen)
        ex = [(os.path.basename(os.path.dirname(p)), open(p).read())
              for p in sorted(glob.glob(str(REPO / "examples/*/settings.yaml")))]
        if not ex:
            raise TS.Untranslatable("no examples/*/settings.yaml found")
        write(rd / "Gen_defaults.v", TS.translate_defaults((REPO / "cij/data/default/settings.yaml").read_text(), ex))
        ctx.extra["schema_members_ignored_as_by_jsonschema"] = ignored
        for f, what in (("Gen_schema.v", "translate config.schema.json -> Gen_schema.v"),
                        ("Gen_defaults.v", "translate default/settings.yaml + examples -> Gen_defaults.v")):
            ok, out = ctx.prove(rd / f, what, "translator", extra_Q=[(rd, "CijGen")])
            gen_ok = gen_ok and ok
    except TS.Untranslatable as e:
        ctx.obligation("translate schema/defaults/examples", "translator", False, str(e))
        gen_ok = False
    except Exception as e:    # unreadable / unparsable files
        ctx.obligation("translate schema/defaults/examples", "translator", False, "%s: %s" % (type(e).__name__, e))
        gen_ok = False

    # ---------------------------------------------------------------- 2. re-prove theorems
    if gen_ok:
        shutil.copy(PROPS / "Prop_C16.v", rd / "Prop_C16.v")
        ctx.prove(rd / "Prop_C16.v", "Prop_C16.v (22 theorems; part B re-proved against regenerated Gen_schema.v / Gen_defaults.v)",
                  "theorem-file", extra_Q=[(rd, "CijGen")])
    # static tie: config.py re-translated and proved equal to the hand-written merge / read_config models
    from props import config_static
    config_static.static_tie(ctx, rd)

    # ---------------------------------------------------------------- 3. run the implementation
    import cij.io.config.config as C
    import cij.io.config.validate as V
    importlib.reload(V)
    importlib.reload(C)
    import jsonschema
    import yaml
    try:
        sch = json.loads((REPO / "cij/data/schema/config.schema.json").read_text())
        cls = jsonschema.validators.validator_for(sch).__name__
    except Exception as e:
        cls = "unreadable schema: %s" % type(e).__name__
    ctx.obligation("jsonschema selects Draft202012Validator for the packaged schema (got %s)" % cls, "environment",
                   cls == "Draft202012Validator")

    failures_seen = set()

    def fail(key, what, **kw):
        if key not in failures_seen:
            failures_seen.add(key)
            ctx.failure(key, what, **kw)

    # ---- 3a. update_config
    merge_cases = []      # (u, d, result, err, tag)
    stats = {}

    def add_merge(u, d, tag):
        u0, d0 = copy.deepcopy(u), copy.deepcopy(d)
        r, err = observe(C.update_config, u, d)
        if not (same(u, u0) and same(d, d0)):
            fail("update_config-mutates-input", "update_config modified one of its arguments",
                 input=dict(user=jd(u0), default=jd(d0)), observed=dict(user=jd(u), default=jd(d)))
        merge_cases.append((u0, d0, copy.deepcopy(r), err, tag))
        ctx.case(["merge", jd(u0), jd(d0)])
        ctx.count("merge:" + tag)
        return r, err

    def dict_over_nondict(u, d):
        if isinstance(u, dict) and isinstance(d, dict):
            return any(k in d and isinstance(v, dict) and (not isinstance(d[k], dict) or dict_over_nondict(v, d[k]))
                       for k, v in u.items())
        return False

    def merge_and_judge(u, d, tag):
        r, err = add_merge(u, d, tag)
        if not (isinstance(u, dict) and isinstance(d, dict)):
            return
        if err is not None:
            if dict_over_nondict(u, d):
                fail("D11-update_config-dict-over-nondict-default", "update_config raises %s when the user gives a "
                     "dict where the default holds a non-dict value (no effective configuration)" % err,
                     input=dict(user=jd(u), default=jd(d)), expected="user subtree kept", observed=err)
            else:
                fail("update_config-raises", "update_config raises %s" % err, input=dict(user=jd(u), default=jd(d)),
                     observed=err)
            return
        bad = oracle_merge(u, d, r)
        if bad:
            fail("merge-" + bad[0], "effective configuration violates the property: %s at path %s" % bad,
                 input=dict(user=jd(u), default=jd(d)), observed=jd(r))
            return
        r2, err2 = add_merge(copy.deepcopy(r), d, "idempotence")
        if err2 is not None or not same(r2, r):
            fail("merge-not-idempotent", "update_config(update_config(u, d), d) differs from update_config(u, d)",
                 input=dict(user=jd(u), default=jd(d)), expected=jd(r), observed=jd(r2) if err2 is None else err2)

    fixed = [
        ({"a": {"b": 1}}, {"a": 2}, "dict-over-leaf (former D11 witness)"),
        ({}, {}, "edge"), ({}, {"a": 1, "b": {"c": 2}}, "edge"), ({"a": 1, "b": {"c": 2}}, {}, "edge"),
        ({"a": 5}, {"a": {"b": 1}}, "leaf-over-dict"), ({"a": {}}, {"a": {"b": 1}}, "edge"),
        ({"a": {"b": 1}}, {"a": {}}, "edge"), ({"a": None}, {"a": 1}, "edge"), ({"a": [1]}, {"a": [2, 3]}, "edge"),
        ({"a": {"b": {"c": {"d": 1}}}}, {"a": {"b": {"c": {"d": 2, "e": 3}, "f": 4}, "g": 5}, "h": 6}, "deep"),
        ({"a": {"b": {"c": {"d": {"x": 1}}}}}, {"a": {"b": {"c": {"d": 2}}}}, "dict-over-leaf-deep"),
        ({"a": False}, {"a": 0}, "edge"), ({"a": 1}, {"a": 1.0}, "edge"), ({"a": {"b": 1}}, {"a": None}, "dict-over-none"),
        ({"a": {"b": 1}}, {"a": [1]}, "dict-over-list"), ({"a": {}}, {"a": "s"}, "empty-dict-over-leaf"),
    ]
    for u, d, tag in fixed:
        merge_and_judge(u, d, tag)
    for u, d in [([], {}), ({}, None), (None, None), ({"a": 1}, 3), ("x", {"a": 1})]:
        add_merge(u, d, "non-dict-argument")
    n_rand = 10000 if thorough else 110
    for i in range(n_rand):
        depth = rng.choice([1, 2, 3, 4, 4])
        d = rtree(rng, depth)
        mode = i % 5
        if mode == 4:
            u = rtree(rng, rng.choice([1, 2, 3, 4]))
            tag = "independent"
        else:
            u = derive(rng, d, 4, clash_dict_over_leaf=(mode >= 2), stats=stats)
            tag = "derived-with-dict-over-leaf" if mode >= 2 else "derived"
        merge_and_judge(u, d, tag)
    for k, v in stats.items():
        ctx.count("merge-feature:" + k, v)
    ctx.count("merge-feature:max-depth", max(tree_depth(c[0]) for c in merge_cases))

    # hash-seed independence: same cases under other PYTHONHASHSEEDs
    seeds = [1, 2, 12345]
    jcases = [(u, d) for (u, d, r, e, t) in merge_cases]
    write(rd / "merge_cases.json", json.dumps(jcases))
    script = ("import json,sys\nfrom cij.io.config.config import update_config\nout=[]\n"
              "for u,d in json.load(open(sys.argv[1])):\n"
              "    try: out.append([update_config(u,d),None])\n"
              "    except BaseException as e: out.append([None,type(e).__name__])\n"
              "json.dump(out,open(sys.argv[2],'w'))\n")
    write(rd / "rerun.py", script)
    orders = set()
    seed_ok = True
    for s in seeds:
        env = dict(os.environ, PYTHONHASHSEED=str(s))
        outp = rd / ("merge_out_%d.json" % s)
        p = subprocess.run(["timeout", "120", sys.executable, "-W", "ignore", str(rd / "rerun.py"),
                            str(rd / "merge_cases.json"), str(outp)], env=env, stdout=subprocess.PIPE,
                           stderr=subprocess.STDOUT, text=True)
        if p.returncode != 0:
            seed_ok = False
            ctx.obligation("re-run of merge cases under PYTHONHASHSEED=%d" % s, "machinery", False, p.stdout)
            continue
        res = json.load(open(outp))
        for (u, d, r, e, t), (r2, e2) in zip(merge_cases, res):
            if e != e2 or (e is None and not same(r, r2)):
                seed_ok = False
                fail("merge-depends-on-hash-seed", "update_config result differs under PYTHONHASHSEED=%d" % s,
                     input=dict(user=jd(u), default=jd(d)), expected=jd(r), observed=jd(r2))
            if e2 is None and isinstance(r2, dict) and len(r2) > 2:
                orders.add((json.dumps(jd(u), sort_keys=True), tuple(r2)))
    ctx.obligation("merge results equal under PYTHONHASHSEED in %s" % seeds, "measurement", seed_ok)
    by_case = {}
    for c, o in orders:
        by_case.setdefault(c, set()).add(o)
    ctx.count("merge-feature:cases whose result key order varied with the hash seed",
              sum(1 for v in by_case.values() if len(v) > 1))

    # ---- 3b. apply_default_config
    defaults = yaml.load((REPO / "cij/data/default/settings.yaml").read_text(), Loader=yaml.FullLoader)
    examples = [yaml.load(open(p).read(), Loader=yaml.FullLoader)
                for p in sorted(glob.glob(str(REPO / "examples/*/settings.yaml")))]
    full = {
        "qha": {"input": "input01", "settings": {"NT": 16, "DT": 100, "T_MIN": 0, "NTV": 51, "P_MIN": 0, "DELTA_P": 1.0,
                                                 "DELTA_P_SAMPLE": 1, "volume_ratio": 1.2, "order": 3,
                                                 "DT_SAMPLE": 100, "static_only": False}},
        "elast": {"input": "elast.dat", "settings": {
            "mode_gamma": {"interpolator": "spline", "order": 3},
            "symmetry": {"system": "cubic", "ignore_residuals": False, "ignore_rank": True, "drop_atol": 1e-8,
                         "residual_atol": 0.1}}},
        "output": {"pressure_base": ["cij", "vs"], "volume_base": ["p"]},
    }
    apply_cases = []

    def scribble(x, depth=0):
        if isinstance(x, dict):
            for k in list(x):
                scribble(x[k], depth + 1)
                if not isinstance(x[k], (dict, list)):
                    x[k] = "scribbled"
            x["scribbled_key"] = depth
        elif isinstance(x, list):
            for y in x:
                scribble(y, depth + 1)
            x.append("scribbled")

    def add_apply(u, tag):
        u0 = copy.deepcopy(u)
        r, err = observe(C.apply_default_config, u)
        if not same(u, u0):
            fail("apply_default_config-mutates-input", "apply_default_config modified its argument", input=jd(u0))
        apply_cases.append((u0, copy.deepcopy(r), err, tag))
        ctx.case(["apply", jd(u0)])
        ctx.count("apply:" + tag)
        if not isinstance(u0, dict):
            return
        if err is not None:
            vok = observe(V.validate_config, copy.deepcopy(u0))[1] is None
            if dict_over_nondict(u0, defaults):
                fail("D11-apply_default_config-dict-over-nondict-default",
                     "apply_default_config raises %s for a user dict over a packaged non-dict default%s"
                     % (err, " although validate_config accepts the configuration" if vok else ""),
                     input=jd(u0), expected="user subtree kept", observed=err)
            else:
                fail("apply_default_config-raises", "apply_default_config raises %s" % err, input=jd(u0), observed=err)
            return
        bad = oracle_merge(u0, defaults, r)
        if bad:
            fail("apply-" + bad[0], "effective configuration violates the property: %s at path %s" % bad,
                 input=jd(u0), observed=jd(r))
            return
        r2, err2 = observe(C.apply_default_config, copy.deepcopy(r))
        if err2 is not None or not same(r2, r):
            fail("apply-not-idempotent", "apply_default_config is not idempotent", input=jd(u0), expected=jd(r),
                 observed=jd(r2) if err2 is None else err2)
        # the caller owns the effective configuration it was given: scribble over every container of it, so that any
        # sharing with state kept between calls (cached defaults) shows up in the NEXT case as a wrong default
        for res in (r, r2 if err2 is None else None):
            scribble(res)
        ctx.count("apply: result scribbled over before the next call")

    add_apply({}, "edge")
    add_apply(copy.deepcopy(defaults), "defaults")
    for e in examples:
        add_apply(copy.deepcopy(e), "example")
    add_apply(copy.deepcopy(full), "full")
    add_apply({"qha": {}, "elast": {}, "output": {"pressure_base": {"cij": True}}}, "dict-over-leaf-valid-config (former D11 witness)")
    add_apply({"qha": {"settings": {"static_only": {"x": 1}}}, "elast": {}}, "dict-over-leaf-valid-config (former D11 witness)")
    add_apply({"qha": 5, "elast": None}, "leaf-over-dict")
    for i in range(1500 if thorough else 30):
        if i % 3 == 2:
            u = rtree(rng, 3)
            tag = "random-tree"
        else:
            u = derive(rng, defaults, 4, clash_dict_over_leaf=(i % 3 == 0), stats={})
            tag = "derived-from-defaults"
        add_apply(u, tag)

    # ---- 3c. validate_config: single-field perturbations
    val_cases = []       # (cfg, accepted, errname, tag)

    def add_val(c, tag):
        c0 = copy.deepcopy(c)
        _, err = observe(V.validate_config, c)
        if not same(c, c0):
            fail("validate_config-mutates-input", "validate_config modified its argument", input=jd(c0))
        acc = err is None
        val_cases.append((c0, acc, err, tag))
        ctx.case(["validate", jd(c0)])
        ctx.count("validate:" + tag)
        ctx.count("validate-outcome:" + ("accepted" if acc else str(err)))
        want, cl, p = oracle_validate(c0)
        if want == "reject" and acc:
            fail("validate-accepts-%s:%s" % (cl, ".".join(p)), "validate_config accepts a configuration with defect "
                 "'%s' at %s" % (cl, ".".join(p)), input=jd(c0), expected="ValidationError", observed="accepted")
        elif want == "accept" and not acc:
            fail("validate-rejects-documented:%s" % tag, "validate_config rejects a configuration made of documented "
                 "values only (%s)" % err, input=jd(c0), expected="accepted", observed=err)
        elif err not in (None, "ValidationError"):
            fail("validate-raises-%s" % err, "validate_config raises %s instead of ValidationError" % err, input=jd(c0),
                 observed=err)

    bases = [("full", full), ("defaults", defaults), ("minimal", {"qha": {}, "elast": {}})] + \
            [("example%d" % i, e) for i, e in enumerate(examples)]
    for name, b in bases:
        add_val(copy.deepcopy(b), "base:" + name)
    WRONG = [None, True, False, "abc", "3", [], [1], {}, {"a": 1}] if thorough else [None, True, "3", [1], {}]
    for bi, (name, b) in enumerate(bases):
        only_full = name == "full"
        for p, (kind, arg) in FIELDS.items():
            if not only_full and not thorough and rng.random() < (0.75 if getp(b, p)[0] else 0.95):
                continue
            vals = []
            if kind in ("integer", "number"):
                vals += [(w, "wrong-type") for w in WRONG]
                lo = arg if arg is not None else 0
                vals += [(lo, "at-minimum"), (float(lo), "at-minimum-float"), (lo + 1, "valid"), (lo + 2.0, "valid-float"),
                         (float("nan"), "nan"), (float("inf"), "inf"), (float("-inf"), "neg-inf"), (2 ** 64, "bigint")]
                if kind == "integer":
                    vals += [(lo + 0.5, "non-integral-float")]
                else:
                    vals += [(lo + 0.5, "valid-float"), (-0.0 if lo == 0 else lo + 1e-9, "valid-float")]
                if arg is not None:
                    vals += [(arg - 1, "below-minimum"), (arg - 0.5, "below-minimum"), (math.nextafter(float(arg), -1e9),
                                                                                         "just-below-minimum"),
                             (-10 ** 30, "below-minimum")]
                else:
                    vals += [(-5, "valid"), (-2.5, "valid")]
            elif kind == "enum":
                vals += [(w, "wrong-type") for w in WRONG + [1, 2.5]]
                vals += [(x, "documented-enum") for x in arg]
                vals += [(x, "unknown-enum") for x in (arg[0].upper(), arg[0] + " ", "", "linear", "Cubic", "trigonal")]
            elif kind == "string":
                vals += [(w, "wrong-type") for w in [None, True, 1, 2.5, [], {}]] + [("", "valid"), ("dir/file.dat", "valid")]
            elif kind == "boolean":
                vals += [(w, "wrong-type") for w in [None, 0, 1, 1.0, "true", "False", [], {}]] + \
                        [(True, "valid"), (False, "valid")]
            if not only_full:
                vals = rng.sample(vals, min(len(vals), 2 if not thorough else 10))
            for v, t in vals:
                add_val(setp(b, p, v), "%s:%s" % (kind, t))
            if getp(b, p)[0] and (only_full or thorough):
                add_val(delp(b, p), "field-removed")
        for sec in SECTIONS:
            if not (getp(b, sec)[0] or only_full):
                continue
            for k in ("foo", "additionalProperties", "NT" if sec != ("qha", "settings") else "system"):
                for v in (1, False, {"x": 1}):
                    if not only_full and rng.random() < (0.5 if thorough else 0.9):
                        continue
                    add_val(setp(b, sec + (k,), v), "unknown-key:" + ("/".join(sec) or "top"))
            if sec:
                if only_full or thorough or len(sec) == 1:
                    add_val(delp(b, sec), "section-removed:" + "/".join(sec))
                for v in (None, [], "x", 5, True, {}):
                    if not only_full and rng.random() < (0.5 if thorough else 0.85):
                        continue
                    add_val(setp(b, sec, v), "section-retyped:" + "/".join(sec))
    for v in (None, [], "x", 5, True, {}, {"qha": {}}, {"elast": {}}, [{"qha": {}, "elast": {}}]):
        add_val(v, "top-level")
    for i in range(60 if thorough else 12):
        add_val(rtree(rng, 3), "random-tree")
        add_val(derive(rng, full, 4, clash_dict_over_leaf=True, stats={}), "derived-from-full")

    # ---- 3d. read_config: YAML / JSON spellings, validate on/off, suffix dispatch
    files = rd / "files"
    files.mkdir()
    read_cases = []     # (suffix, tree, flag, result, err, tag)
    trees = [(n, b) for n, b in bases] + [
        ("below-min", setp(full, ("qha", "settings", "T_MIN"), -1)),
        ("bool-for-number", setp(full, ("qha", "settings", "DT"), True)),
        ("unknown-enum", setp(full, ("elast", "settings", "symmetry", "system"), "Cubic")),
        ("unknown-key", setp(full, ("elast", "settings", "foo"), 1)),
        ("missing-elast", delp(full, ("elast",))),
        ("yaml-1.1-words", setp(setp(full, ("qha", "input"), "yes"), ("elast", "input"), "1e3")),
        ("floats", setp(setp(full, ("qha", "settings", "DELTA_P"), 1e-8), ("qha", "settings", "DT"), 1e22)),
        ("nan-inf", setp(setp(full, ("qha", "settings", "P_MIN"), float("nan")), ("qha", "settings", "DT"), float("inf"))),
        ("top-list", [1, 2]), ("top-null", None), ("empty", {}),
    ] + [("random%d" % i, rtree(rng, 3)) for i in range(20 if thorough else 5)]
    for ti, (name, t) in enumerate(trees):
        spell = [(".yaml", yaml.safe_dump(t, default_flow_style=False), "yaml-block"),
                 (".yml", yaml.safe_dump(t, default_flow_style=True), "yaml-flow"),
                 (".json", json.dumps(t), "json"), (".json", json.dumps(t, indent=3, sort_keys=True), "json-sorted")]
        loaded = []
        for si, (suf, text, how) in enumerate(spell):
            path = files / ("t%d_%d%s" % (ti, si, suf))
            path.write_text(text)
            for flag in (True, False):
                r, err = observe(C.read_config, str(path) if si % 2 else path, validate=flag)
                read_cases.append((suf, copy.deepcopy(t), flag, copy.deepcopy(r), err, how))
                ctx.case(["read", name, how, flag])
                ctx.count("read:%s validate=%s" % (how, flag))
                if not flag:
                    loaded.append((how, r, err))
                if flag and err is None and oracle_validate(t)[0] == "reject":
                    fail("read_config-accepts-invalid", "read_config(validate=True) returns a configuration the "
                         "property says must be rejected (%s)" % (oracle_validate(t)[1]), input=dict(file=text),
                         observed=jd(r))
        for how, r, err in loaded:
            if err is not None or not same(r, t):
                fail("read_config-spelling-%s" % how, "the %s spelling of a configuration does not load as the "
                     "configuration it spells" % how, input=jd(t), observed=jd(r) if err is None else err)
    for suf in (".txt", ".YAML", "", ".jsn"):
        path = files / ("bad%s" % suf)
        path.write_text(json.dumps(full))
        r, err = observe(C.read_config, path, validate=False)
        read_cases.append((suf, copy.deepcopy(full), False, r, err, "suffix"))
        ctx.case(["read-suffix", suf])
        ctx.count("read:unsupported-suffix")
        if err is None:
            fail("read_config-suffix-%s" % suf, "read_config loads a file with unsupported suffix %r" % suf, input=suf)

    # ---------------------------------------------------------------- 4. comparison inside Coq
    if gen_ok:
        shards = []

        def chunks(l):
            return [l[i:i + CHUNK] for i in range(0, len(l), CHUNK)]

        for ci, ch in enumerate(chunks(merge_cases)):
            txt = [HEADER, "Definition cases : list (json * json * option json) := ["]
            txt.append(";\n".join("  (%s,\n   %s,\n   %s)" % (TS.json_term(u, 4), TS.json_term(d, 4), opt_term(r, e))
                                  for (u, d, r, e, t) in ch) + "].")
            txt.append("Eval vm_compute in (failingj (fun c => let '(u, d, o) := c in "
                       "ojeqb (update_config dedup u d) o) cases).")
            txt.append("Eval vm_compute in (failingj (fun c => let '(u, d, o) := c in "
                       "ojeqb (update_config (fun l => rev (dedup l)) u d) o) cases).")
            txt.append("Eval vm_compute in (failingj (fun c => let '(u, d, o) := c in "
                       "Bool.eqb (is_obj u && is_obj d) (match o with Some _ => true | None => false end)) cases).")
            shards.append((write(rd / ("cases_merge_%d.v" % ci), "\n".join(txt)), "merge", ci))
        for ci, ch in enumerate(chunks(apply_cases)):
            txt = [HEADER, "Definition cases : list (json * option json) := ["]
            txt.append(";\n".join("  (%s,\n   %s)" % (TS.json_term(u, 4), opt_term(r, e)) for (u, r, e, t) in ch) + "].")
            txt.append("Eval vm_compute in (failingj (fun c => ojeqb (apply_default_config default_settings (fst c)) "
                       "(snd c)) cases).")
            shards.append((write(rd / ("cases_apply_%d.v" % ci), "\n".join(txt)), "apply", ci))
        for ci, ch in enumerate(chunks(val_cases)):
            txt = [HEADER, "Definition cases : list (json * bool) := ["]
            txt.append(";\n".join("  (%s, %s)" % (TS.json_term(c, 4), "true" if a else "false")
                                  for (c, a, e, t) in ch) + "].")
            txt.append("Eval vm_compute in (failingj (fun c => Bool.eqb (validate definitions root (fst c)) (snd c)) "
                       "cases).")
            shards.append((write(rd / ("cases_validate_%d.v" % ci), "\n".join(txt)), "validate", ci))
        for ci, ch in enumerate(chunks(read_cases)):
            txt = [HEADER, "Definition cases : list (string * json * bool * option json) := ["]
            txt.append(";\n".join("  (%s, %s, %s,\n   %s)" % (TS.coq_string(s), TS.json_term(t, 4),
                                                             "true" if f else "false", opt_term(r, e))
                                  for (s, t, f, r, e, h) in ch) + "].")
            txt.append("Eval vm_compute in (failingj (fun c => let '(s, t, f, o) := c in "
                       "ojeqb (read_config definitions root s t f) o) cases).")
            shards.append((write(rd / ("cases_read_%d.v" % ci), "\n".join(txt)), "read", ci))
        res = ctx.run_shards([s[0] for s in shards], extra_Q=[(rd, "CijGen")], label="tie")
        allc = dict(merge=merge_cases, apply=apply_cases, validate=val_cases, read=read_cases)
        bad = {}
        for f, kind, ci in shards:
            ok, fl, out = res[f]
            idx = sorted({i for l in fl for i in l})
            for i in idx[:5]:
                c = allc[kind][ci * CHUNK + i]
                bad.setdefault(kind, []).append(jd(list(c[:-1])))
        if bad:
            ctx.extra["tie_mismatches (model vs implementation)"] = {k: v[:5] for k, v in bad.items()}

    for c in (merge_cases[0], merge_cases[9]):
        ctx.sample(dict(call="update_config", user=jd(c[0]), default=jd(c[1]), observed=jd(c[2]) if c[3] is None else c[3]))
    for c in val_cases[10:12]:
        ctx.sample(dict(call="validate_config", config=jd(c[0]), accepted=c[1], tag=c[3]))
    ctx.sample(dict(call="read_config", suffix=read_cases[0][0], validate=read_cases[0][2], spelling=read_cases[0][5]))
