"""C11 - every interpolation method returns a consistent (omega, gamma, V dgamma/dV) triple.

Tie: cij.core.mode_gamma.interpolate_modes on synthetic QHAInputData tables is compared inside Coq
(FOps instance, vm_compute) with the Gallina model coq/theories/InterpModel.v; the three polynomial
methods are computed by the model, the four scipy classes enter the model as oracle tables.
ModePlotter.plot_modes is run with a recording axes object and compared with the plot-selection table
regenerated from the source (fail-closed ast reader below).  Search stage: power-law / polynomial
exactness, finite-difference consistency of the triple, q/m permutation, acoustic zeros - all written
directly from the property statement with numpy only.
"""
import ast
import importlib
import math
import shutil

import numpy

from vlib import REPO, PROPS, write, fhex, flist, flist3

METHODS = ["spline", "lagrange", "krogh", "pchip", "akima", "hermite", "lsq_poly"]
COQ_METHOD = dict(spline="Spline", lagrange="Lagrange", krogh="Krogh", pchip="Pchip", akima="Akima",
                  hermite="Hermite", lsq_poly="LsqPoly")
POLY_METHODS = ("lagrange", "krogh", "lsq_poly")

# tolerances of the Coq comparison (model in binary64 vs implementation): relative 1e-7 because the
# monomial-basis algorithms on x = ln V are ill-conditioned; draws whose a-priori condition number
# exceeds the limits below are rejected (and counted) instead of compared.
RTOL = 1e-7
ATOL_W, ATOL_G, ATOL_H = 1e-9, 1e-8, 1e-6
COND_LIMIT = dict(lagrange=1e10, krogh=1e13, lsq_poly=5e11)
# tolerances of the property oracle (search stage)
TOL_PL_W, TOL_PL_G, TOL_PL_H = 1e-5, 1e-5, 1e-3
TOL_FD = 2e-6
FD_DELTA = 2e-3


class Untranslatable(Exception):
    pass


# ------------------------------------------------------------------------------------------------
# fail-closed reader of the two source fragments that decide what plot_modes draws
# ------------------------------------------------------------------------------------------------

def _is_attr_chain(node, names):
    """node is  names[0].names[1]...  (e.g. self.calculator.freq_array)"""
    for nm in reversed(names[1:]):
        if not (isinstance(node, ast.Attribute) and node.attr == nm):
            return False
        node = node.value
    return isinstance(node, ast.Name) and node.id == names[0]


def read_plot_table(src):
    tree = ast.parse(src)
    cls = [n for n in tree.body if isinstance(n, ast.ClassDef) and n.name == "ModePlotter"]
    if len(cls) != 1:
        raise Untranslatable("class ModePlotter not found exactly once")
    fns = [n for n in cls[0].body if isinstance(n, ast.FunctionDef) and n.name == "plot_modes"]
    if len(fns) != 1:
        raise Untranslatable("ModePlotter.plot_modes not found exactly once")
    fn = fns[0]
    args = [a.arg for a in fn.args.args]
    if args[:4] != ["self", "ax", "n", "iq"]:
        raise Untranslatable("plot_modes signature %r" % (args,))
    body = [s for s in fn.body if not (isinstance(s, ast.Expr) and isinstance(s.value, ast.Constant))]
    if not body or not isinstance(body[0], ast.If):
        raise Untranslatable("plot_modes does not start with the if-chain on n")
    table = []
    node = body[0]
    while True:
        t = node.test
        if not (isinstance(t, ast.Compare) and isinstance(t.left, ast.Name) and t.left.id == "n"
                and len(t.ops) == 1 and isinstance(t.ops[0], ast.Eq)
                and isinstance(t.comparators[0], ast.Constant) and type(t.comparators[0].value) is int):
            raise Untranslatable("if-chain test is not `n == <int>`: %s" % ast.dump(t))
        if len(node.body) != 1 or not isinstance(node.body[0], ast.Assign):
            raise Untranslatable("branch body is not one assignment")
        asg = node.body[0]
        if not (len(asg.targets) == 1 and isinstance(asg.targets[0], ast.Name) and asg.targets[0].id == "w_arrays"):
            raise Untranslatable("branch does not assign w_arrays")
        v = asg.value
        # <X>[:, iq, :]
        if not (isinstance(v, ast.Subscript) and isinstance(v.slice, ast.Tuple) and len(v.slice.elts) == 3
                and isinstance(v.slice.elts[0], ast.Slice) and isinstance(v.slice.elts[2], ast.Slice)
                and all(getattr(v.slice.elts[k], f) is None for k in (0, 2) for f in ("lower", "upper", "step"))
                and isinstance(v.slice.elts[1], ast.Name) and v.slice.elts[1].id == "iq"):
            raise Untranslatable("w_arrays is not <array>[:, iq, :]")
        x = v.value
        if _is_attr_chain(x, ["self", "calculator", "freq_array"]):
            srcq = ("freq", None)
        elif (isinstance(x, ast.Subscript) and _is_attr_chain(x.value, ["self", "calculator", "mode_gamma"])
              and isinstance(x.slice, ast.Constant) and type(x.slice.value) is int and x.slice.value >= 0):
            srcq = ("mode_gamma", x.slice.value)
        else:
            raise Untranslatable("unrecognised array expression: %s" % ast.dump(x))
        table.append((t.comparators[0].value, srcq))
        if not node.orelse:
            break
        if len(node.orelse) != 1 or not isinstance(node.orelse[0], ast.If):
            raise Untranslatable("else-branch in the n chain")
        node = node.orelse[0]
    # later statements must use w_arrays[:, k] in ax.plot(self.v_array, w_array): checked by execution
    return table


def read_mode_gamma_layout(src):
    tree = ast.parse(src)
    cls = [n for n in tree.body if isinstance(n, ast.ClassDef) and n.name == "Calculator"]
    if len(cls) != 1:
        raise Untranslatable("class Calculator not found exactly once")
    fns = [n for n in cls[0].body if isinstance(n, ast.FunctionDef) and n.name == "_interpolate_modes"]
    if len(fns) != 1:
        raise Untranslatable("Calculator._interpolate_modes not found exactly once")
    names = None
    freq = layout = None
    for st in fns[0].body:
        if not isinstance(st, ast.Assign) or len(st.targets) != 1:
            raise Untranslatable("unexpected statement in _interpolate_modes")
        tg, val = st.targets[0], st.value
        if isinstance(tg, ast.Tuple):
            if not (isinstance(val, ast.Call) and isinstance(val.func, ast.Name) and val.func.id == "interpolate_modes"
                    and len(tg.elts) == 3 and all(isinstance(e, ast.Name) for e in tg.elts)):
                raise Untranslatable("tuple assignment is not the interpolate_modes call")
            names = [e.id for e in tg.elts]
            if len(set(names)) != 3:
                raise Untranslatable("repeated names")
        elif _is_attr_chain(tg, ["self", "freq_array"]):
            if names is None or not isinstance(val, ast.Name) or val.id not in names:
                raise Untranslatable("freq_array is not one of the returned arrays")
            freq = names.index(val.id)
        elif _is_attr_chain(tg, ["self", "mode_gamma"]):
            if names is None or not isinstance(val, ast.List):
                raise Untranslatable("mode_gamma is not a list literal")
            layout = []
            for e in val.elts:
                if isinstance(e, ast.Name) and e.id in names:
                    layout.append(("QOmega", "QGamma", "QVdGdV")[names.index(e.id)])
                elif (isinstance(e, ast.BinOp) and isinstance(e.op, ast.Pow) and isinstance(e.left, ast.Name)
                      and e.left.id in names and names.index(e.left.id) == 1
                      and isinstance(e.right, ast.Constant) and e.right.value == 2):
                    layout.append("QGammaSq")
                elif (isinstance(e, ast.BinOp) and isinstance(e.op, ast.Mult) and isinstance(e.left, ast.Name)
                      and isinstance(e.right, ast.Name) and e.left.id == e.right.id and e.left.id in names
                      and names.index(e.left.id) == 1):
                    layout.append("QGammaSq")          # gamma * gamma
                elif (isinstance(e, ast.Call) and ast.unparse(e.func) == "numpy.square" and len(e.args) == 1
                      and not e.keywords and isinstance(e.args[0], ast.Name) and e.args[0].id in names
                      and names.index(e.args[0].id) == 1):
                    layout.append("QGammaSq")          # numpy.square(gamma)
                else:
                    raise Untranslatable("unrecognised mode_gamma entry: %s" % ast.dump(e))
        else:
            raise Untranslatable("unexpected assignment target in _interpolate_modes")
    if freq != 0 or layout is None:
        raise Untranslatable("freq_array is not the first returned array / mode_gamma missing")
    return layout


# ------------------------------------------------------------------------------------------------
# data sets
# ------------------------------------------------------------------------------------------------

def make_dataset(rng, kind, scale_kind, tier):
    """kind: powerlaw | poly | generic ; returns dict with volumes (strictly decreasing, as in QHA
    input files), table[v][q][m] and the generating parameters per mode"""
    nv = rng.randint(6, 12)
    nq = 2
    npm = rng.choice([4, 5, 6])
    if rng.random() < 0.25:
        nq = npm = 4          # square (q, m) block: transposed indexing does not raise, it mixes
    v0 = rng.uniform(0.8, 1.6) if scale_kind == "unit" else rng.uniform(60.0, 900.0)
    hi, lo = rng.uniform(1.02, 1.10), rng.uniform(0.62, 0.80)
    vols = [v0 * (hi - (hi - lo) * (k + rng.uniform(-0.2, 0.2)) / (nv - 1)) for k in range(nv)]
    x0 = math.log(v0)
    acoustic_positive = rng.random() < 0.5
    params = {}
    for q in range(nq):
        for m in range(npm):
            a = math.log(rng.uniform(80.0, 1100.0))
            b = -rng.uniform(0.3, 2.5) if rng.random() < 0.85 else rng.uniform(0.1, 0.6)
            if kind == "powerlaw":
                cs = [a, b]
            else:
                deg = rng.randint(2, 5)
                cs = [a, b] + [rng.uniform(-1.0, 1.0) * 0.7 ** j for j in range(2, deg + 1)]
            amp = rng.uniform(0.01, 0.05) if kind == "generic" else 0.0
            params[(q, m)] = dict(cs=cs, amp=amp, freq=rng.uniform(4.0, 9.0), ph=rng.uniform(0, 6.28))
    table = []
    for v in vols:
        t = math.log(v) - x0
        row = []
        for q in range(nq):
            ms = []
            for m in range(npm):
                p = params[(q, m)]
                if q == 0 and m < 3:
                    ms.append(rng.uniform(0.5, 5.0) if acoustic_positive else rng.uniform(-0.3, -0.01))
                    continue
                lw = sum(c * t ** j for j, c in enumerate(p["cs"])) + p["amp"] * math.sin(p["freq"] * t + p["ph"])
                ms.append(math.exp(lw))
            row.append(ms)
        table.append(row)
    ratio = rng.uniform(1.1, 1.3)
    ntv = rng.randint(7, 10)
    grid = list(numpy.linspace(min(vols) / ratio, max(vols) * ratio, ntv))
    return dict(kind=kind, scale=scale_kind, nv=nv, nq=nq, np=npm, v0=v0, x0=x0, vols=vols, table=table,
                params=params, grid=grid, ratio=ratio, acoustic_positive=acoustic_positive)


def twin_dataset(rng, ds):
    """same branches sampled on another volume list with the SAME count, first and last volume (interior points moved):
    anything remembered per 'grid' from an earlier call in the process and recognised by its end points is stale here"""
    vols = list(ds["vols"])
    for k in range(1, len(vols) - 1):
        vols[k] += rng.uniform(-0.35, 0.35) * min(ds["vols"][k - 1] - ds["vols"][k], ds["vols"][k] - ds["vols"][k + 1])
    table = []
    for vi, v in enumerate(vols):
        t = math.log(v) - ds["x0"]
        row = []
        for q in range(ds["nq"]):
            ms = []
            for m in range(ds["np"]):
                if q == 0 and m < 3:
                    ms.append(ds["table"][vi][q][m])
                    continue
                p = ds["params"][(q, m)]
                ms.append(math.exp(sum(c * t ** j for j, c in enumerate(p["cs"])) + p["amp"] * math.sin(p["freq"] * t + p["ph"])))
            row.append(ms)
        table.append(row)
    return dict(ds, vols=vols, table=table, twin=True)


def qha_input_of(ds, table=None):
    from cij.io.traditional.models import QHAInputData, VolumeData, QPointData, QPointWeight
    table = ds["table"] if table is None else table
    coords = [(0.0, 0.0, 0.0)] + [(0.25 * q, 0.0, 0.5) for q in range(1, ds["nq"])]
    return QHAInputData(ds["nv"], ds["nq"], ds["np"], 1, ds["np"] // 3 or 1,
                        [QPointWeight(c, 1.0) for c in coords],
                        [VolumeData(0.0, v, -1.0, [QPointData(coords[q], list(row[q])) for q in range(ds["nq"])])
                         for v, row in zip(ds["vols"], table)])


def admissible_orders(rng, method, nv, tier):
    if method == "spline":
        return [k for k in (2, 3, 4, 5) if k < nv]
    if method == "lsq_poly":
        return [k for k in (1, 2, 3, 4, 5) if k < nv]
    alln = list(range(2, nv))
    n = 3 if tier == "quick" else 5
    if method in ("pchip", "akima"):
        n = 2 if tier == "quick" else 4
    if method == "hermite":
        n = 1
    return sorted(rng.sample(alln, min(n, len(alln))))


def nodes_of(ds, order):
    iv = int(math.ceil(ds["nv"] / order))
    return list(range(ds["nv"]))[::iv]


def condition(ds, method, order):
    x = numpy.log(numpy.array(ds["vols"]))
    if method == "lsq_poly":
        return float(numpy.linalg.cond(numpy.vander(x, order + 1)))
    idx = nodes_of(ds, order)
    return float(numpy.linalg.cond(numpy.vander(x[idx])))


def call_impl(mg, ds, method, order, grid=None, table=None):
    g = numpy.array(ds["grid"] if grid is None else grid, dtype=float)
    try:
        out = mg.interpolate_modes(qha_input_of(ds, table), g, method, order)
    except BaseException as e:
        return None, "%s: %s" % (type(e).__name__, e)
    return tuple(numpy.asarray(a, dtype=float) for a in out), None


# ------------------------------------------------------------------------------------------------
# Coq shards
# ------------------------------------------------------------------------------------------------

SHARD_HEADER = r"""
From Coq Require Import ZArith List Bool PrimFloat.
From Cij Require Import Ops FOps PolyModel InterpModel.
Import ListNotations.
Local Open Scope float_scope.

Definition tr3 : Type := (float * float * float)%type.
Definition closen (rtol atol a b : float) : bool :=
  (is_nan a && is_nan b) || close rtol atol a b.
Definition rtol := @RTOL@.
Definition close3 (a b : tr3) : bool :=
  let '(a1, a2, a3) := a in let '(b1, b2, b3) := b in
  closen rtol @ATW@ a1 b1 && closen rtol @ATG@ a2 b2 && closen rtol @ATH@ a3 b3.
Fixpoint all2b {A} (c : A -> A -> bool) (a b : list A) : bool :=
  match a, b with
  | [], [] => true
  | x :: a', y :: b' => c x y && all2b c a' b'
  | _, _ => false
  end.
Definition all3 (a b : list (list (list tr3))) : bool := all2b (all2b (all2b close3)) a b.

(* oracle tables for the scipy classes: nodes handed to the class, and rows (x, g, g', g'') *)
Definition otab : Type := (list float * list float * list (float * float * float * float))%type.
Definition key_close := close 0x1.19799812dea11p-40 0.   (* 1e-12 relative *)
Definition nanf : float := nan.
Definition row_lookup (rows : list (float * float * float * float)) (x : float) : float * float * float :=
  match find (fun r => let '(rx, _, _, _) := r in key_close rx x) rows with
  | Some (_, g, g1, g2) => (g, g1, g2)
  | None => (nanf, nanf, nanf)
  end.
Definition tab_lib (tabs : list otab) : library :=
  fun _ _ xs ys =>
    match find (fun t => let '(tx, ty, _) := t in all_close key_close tx xs && all_close key_close ty ys) tabs with
    | Some (_, _, rows) =>
        {| o_val := fun x => fst (fst (row_lookup rows x));
           o_d1 := fun x => snd (fst (row_lookup rows x));
           o_d2 := fun x => snd (row_lookup rows x) |}
    | None => {| o_val := fun _ => nanf; o_d1 := fun _ => nanf; o_d2 := fun _ => nanf |}
    end.

Record case := { c_m : method; c_order : nat; c_nq : nat; c_np : nat; c_vols : list float;
                 c_freqs : list (list (list float)); c_grid : list float; c_tabs : list otab;
                 c_obs : list (list (list tr3)) }.
Definition model_out (c : case) : list (list (list tr3)) :=
  interpolate_modes (mode_fn (tab_lib (c_tabs c)) (c_m c) (c_order c)) (c_nq c) (c_np c)
                    (c_vols c) (c_freqs c) (c_grid c).
Definition ok_case (c : case) : bool := all3 (model_out c) (c_obs c).
"""


def tr3lit(w, g, h):
    return "(%s, %s, %s)" % (fhex(w), fhex(g), fhex(h))


def obs_lit(out):
    W, G, H = out
    ntv, nq, npm = W.shape
    return "[" + ";\n ".join(
        "[" + "; ".join("[" + "; ".join(tr3lit(W[v, q, m], G[v, q, m], H[v, q, m]) for m in range(npm)) + "]"
                        for q in range(nq)) + "]" for v in range(ntv)) + "]"


def library_tables(ds, method, order, extrapolate=None):
    """call the scipy class exactly as the property's library contract describes it: on the flipped
    logarithms of the (sub-sampled) volumes and frequencies; returns per-mode tables"""
    import scipy.interpolate as si
    vols = numpy.array(ds["vols"])
    lx = numpy.log(numpy.array(ds["grid"]))
    tabs = []
    for q in range(ds["nq"]):
        for m in range(ds["np"]):
            if q == 0 and m < 3:
                continue
            fr = numpy.array([row[q][m] for row in ds["table"]])
            if method == "spline":
                xs, ys = numpy.flip(numpy.log(vols)), numpy.flip(numpy.log(fr))
                f = si.UnivariateSpline(xs, ys, k=order)
            else:
                iv = int(math.ceil(ds["nv"] / order))
                xs, ys = numpy.flip(numpy.log(vols[::iv])), numpy.flip(numpy.log(fr[::iv]))
                f = dict(pchip=si.PchipInterpolator, akima=si.Akima1DInterpolator)[method](xs, ys)
            if extrapolate is None:
                g0, g1, g2 = f(lx), f(lx, nu=1), f(lx, nu=2)
            else:
                g0, g1, g2 = (f(lx, extrapolate=extrapolate), f(lx, nu=1, extrapolate=extrapolate),
                              f(lx, nu=2, extrapolate=extrapolate))
            tabs.append("(%s, %s, [%s])" % (flist(xs), flist(ys), "; ".join(
                "(%s, %s, %s, %s)" % (fhex(x), fhex(a), fhex(b), fhex(c)) for x, a, b, c in zip(lx, g0, g1, g2))))
    return "[" + ";\n ".join(tabs) + "]"


def case_lit(ds, method, order, out):
    # akima: the oracle is the scipy object evaluated in the mode the implementation uses - without
    # extrapolation on the pinned tree (NaN outside the nodes: finding D4, reported by the search stage),
    # with extrapolate=True once the output is finite everywhere
    extrap = None
    if method == "akima" and not numpy.isnan(out[0]).any():
        extrap = True
    tabs = "[]" if method in POLY_METHODS else library_tables(ds, method, order, extrap)
    return ("{| c_m := %s; c_order := %d; c_nq := %d; c_np := %d;\n c_vols := %s;\n c_freqs := %s;\n"
            " c_grid := %s;\n c_tabs := %s;\n c_obs := %s |}"
            % (COQ_METHOD[method], order, ds["nq"], ds["np"], flist(ds["vols"]), flist3(ds["table"]),
               flist(ds["grid"]), tabs, obs_lit(out)))


# ------------------------------------------------------------------------------------------------
# property oracle (search stage)
# ------------------------------------------------------------------------------------------------

def mode_input(ds, q, m):
    return dict(volumes=ds["vols"], frequencies=[row[q][m] for row in ds["table"]])


def analytic(ds, q, m, v):
    """(ln w, dlnw/dlnV, d2lnw/dlnV2) of the generating polynomial (valid for kinds powerlaw, poly)"""
    cs = ds["params"][(q, m)]["cs"]
    t = math.log(v) - ds["x0"]
    p0 = sum(c * t ** j for j, c in enumerate(cs))
    p1 = sum(j * c * t ** (j - 1) for j, c in enumerate(cs) if j >= 1)
    p2 = sum(j * (j - 1) * c * t ** (j - 2) for j, c in enumerate(cs) if j >= 2)
    return p0, p1, p2


def oracle_exact(ctx, ds, method, order, out, stats):
    """power-law data (all methods) and polynomial data of degree <= order (lsq_poly): the triple must
    be the analytic one on the WHOLE grid"""
    W, G, H = out
    lo, hi = min(ds["vols"]), max(ds["vols"])
    nlo, nhi = lo, hi
    if method in ("lagrange", "krogh", "pchip", "akima", "hermite"):
        nv_ = [ds["vols"][i] for i in nodes_of(ds, order)]
        nlo, nhi = min(nv_), max(nv_)
    for q in range(ds["nq"]):
        for m in range(ds["np"]):
            if q == 0 and m < 3:
                continue
            deg = len(ds["params"][(q, m)]["cs"]) - 1
            if ds["kind"] == "generic" or (deg > 1 and not (method == "lsq_poly" and order >= deg)):
                continue
            for iv, v in enumerate(ds["grid"]):
                p0, p1, p2 = analytic(ds, q, m, v)
                w, g, h = W[iv, q, m], G[iv, q, m], H[iv, q, m]
                inside = lo <= v <= hi
                if method == "akima" and not (nlo <= v <= nhi) and all(math.isnan(t) for t in (w, g, h)):
                    # D4: NaN outside the range of the NODES (sub-sampling may drop the smallest volume, so
                    # this can even be inside the sampled volume range)
                    stats["akima_nan"].append((order, q, m, v))
                    if inside:
                        stats["akima_nan_inside"].append((order, q, m, v))
                    continue
                what = None
                if not (abs(w / math.exp(p0) - 1.0) <= TOL_PL_W):
                    what = "omega"
                elif not (abs(g + p1) <= TOL_PL_G * max(1.0, abs(p1))):
                    what = "gamma"
                elif not (abs(h + p2) <= TOL_PL_H * max(1.0, abs(p2))):
                    what = "third"
                if what:
                    tag = "powerlaw" if deg == 1 else "polynomial"
                    ctx.failure("%s-exact-%s-%s" % (tag, method, what),
                                "%s data (degree %d in ln V): %s of method %s order %d deviates at V=%r (%s the sampled range)"
                                % (tag, deg, what, method, order, float(v), "inside" if inside else "outside"),
                                input=dict(method=method, order=order, q=q, m=m, volume=v, **mode_input(ds, q, m)),
                                expected=dict(omega=math.exp(p0), gamma=-p1, third=-p2),
                                observed=dict(omega=w, gamma=g, third=h))
                    return False
    return True


def oracle_consistency(ctx, mg, ds, method, order, out, stats):
    """gamma = -dln(omega)/dlnV and third = dgamma/dlnV of the implementation's OWN outputs, by 4th-order
    central differences on a refined grid (stencils that straddle a sampled volume are skipped: the
    piecewise methods are only C^1/C^2 there)"""
    d = FD_DELTA
    lnodes = numpy.log(numpy.array(ds["vols"]))
    centres = [v for v in ds["grid"] if numpy.min(numpy.abs(lnodes - math.log(v))) > 2.5 * d]
    if not centres:
        return True
    sten = [v * math.exp(k * d) for v in centres for k in (-2, -1, 0, 1, 2)]
    o2, err = call_impl(mg, ds, method, order, grid=sten)
    if o2 is None:
        return True
    W, G, H = o2
    for q in range(ds["nq"]):
        for m in range(ds["np"]):
            if q == 0 and m < 3:
                continue
            for ic, v in enumerate(centres):
                s = slice(5 * ic, 5 * ic + 5)
                w, g, h = W[s, q, m], G[s, q, m], H[s, q, m]
                if any(math.isnan(t) for t in list(w) + list(g) + list(h)):
                    continue  # akima outside the range: reported by the exactness oracle / probe
                lw = numpy.log(w)
                d1 = (-lw[4] + 8 * lw[3] - 8 * lw[1] + lw[0]) / (12 * d)
                dg = (-g[4] + 8 * g[3] - 8 * g[1] + g[0]) / (12 * d)
                stats["fd"] += 1
                what = None
                if not abs(g[2] + d1) <= TOL_FD * max(1.0, abs(d1)):
                    what, exp, obs = "gamma", -d1, g[2]
                elif not abs(h[2] - dg) <= TOL_FD * max(1.0, abs(dg), abs(g[2])):
                    what, exp, obs = "third", dg, h[2]
                if what:
                    # test once more against the original grid value to give the user the plain call
                    ctx.failure("consistency-%s-%s" % (method, what),
                                "method %s order %d: returned %s is not the %s of the returned %s (finite differences, "
                                "step %g in ln V) at V=%r" % (method, order, what,
                                                              "-dln(omega)/dlnV" if what == "gamma" else "dgamma/dlnV",
                                                              "omega" if what == "gamma" else "gamma", d, float(v)),
                                input=dict(method=method, order=order, q=q, m=m, volume=v, v_array=sten[s],
                                           **mode_input(ds, q, m)),
                                expected=float(exp), observed=float(obs))
                    return False
    return True


def oracle_indexing(ctx, mg, ds, method, order, out, rng):
    """permute q-points and modes in the input: the output must be permuted the same way (entries touched
    by the Gamma-acoustic skip excepted); skipped entries are exactly 0"""
    W, G, H = out
    for arr, nm in ((W, "omega"), (G, "gamma"), (H, "third")):
        if numpy.any(arr[:, 0, :3] != 0.0):
            ctx.failure("acoustic-nonzero-%s" % method,
                        "Gamma-point acoustic entries of %s are not left at zero (method %s order %d)" % (nm, method, order),
                        input=dict(method=method, order=order, q=0, m=[0, 1, 2], volumes=ds["vols"],
                                   frequencies_q0=[row[0][:3] for row in ds["table"]]),
                        expected=0.0, observed=arr[:, 0, :3].tolist())
            return False
    nq, npm = ds["nq"], ds["np"]
    pq = list(range(nq))
    pm = list(range(npm))
    rng.shuffle(pm)
    if rng.random() < 0.5:
        pq.reverse()
    # new table: new[v][q][m] = old[v][pq[q]][pm[m]]
    tab2 = [[[row[pq[q]][pm[m]] for m in range(npm)] for q in range(nq)] for row in ds["table"]]
    # entries that would take the log of the (possibly negative) acoustic placeholders are made positive
    tab2 = [[[abs(x) + (1.0 if x <= 0 else 0.0) for x in qrow] for qrow in row] for row in tab2]
    o2, err = call_impl(mg, ds, method, order, table=tab2)
    if o2 is None:
        return True
    for q in range(nq):
        for m in range(npm):
            if (q == 0 and m < 3) or (pq[q] == 0 and pm[m] < 3):
                continue
            for a, b, nm in zip(o2, out, ("omega", "gamma", "third")):
                x, y = a[:, q, m], b[:, pq[q], pm[m]]
                same = numpy.all((x == y) | (numpy.isnan(x) & numpy.isnan(y)))
                if not same:
                    ctx.failure("mixing-%s" % method,
                                "output [.][%d][%d] changes when OTHER (q,m) columns of the input are permuted "
                                "(method %s order %d, quantity %s)" % (q, m, method, order, nm),
                                input=dict(method=method, order=order, q=q, m=m, q_perm=pq, m_perm=pm,
                                           volumes=ds["vols"], table=tab2),
                                expected=y.tolist(), observed=x.tolist())
                    return False
    return True


# ------------------------------------------------------------------------------------------------
# plot
# ------------------------------------------------------------------------------------------------

class RecordingAxes:
    def __init__(self):
        self.plots, self.scatters = [], []

    def plot(self, *a, **k):
        self.plots.append((a, k))

    def scatter(self, *a, **k):
        self.scatters.append((a, k))


QCODE = dict(QOmega=0, QGamma=1, QVdGdV=2, QGammaSq=3)
QNAME = {0: "omega", 1: "gamma", 2: "V dgamma/dV", 3: "gamma^2", 9: "an unknown array"}


def run_plot(ctx, rd, mg):
    """returns True when the plot part could be executed"""
    try:
        table = read_plot_table((REPO / "cij/plot/modes.py").read_text())
        layout = read_mode_gamma_layout((REPO / "cij/core/calculator.py").read_text())
    except (Untranslatable, SyntaxError) as e:
        ctx.obligation("read plot selection from cij/plot/modes.py + cij/core/calculator.py", "translator", False, str(e))
        return
    ctx.obligation("read plot selection from cij/plot/modes.py + cij/core/calculator.py", "translator", True)
    ctx.extra["plot_table_from_source"] = dict(table=table, mode_gamma_layout=layout)
    gen = ["From Coq Require Import ZArith List Bool.", "From Cij Require Import InterpModel.", "Import ListNotations.",
           "Definition cur_table : list (Z * plot_src) := [%s]." % "; ".join(
               "(%d%%Z, %s)" % (n, "SFreq" if s[0] == "freq" else "SModeGamma %d" % s[1]) for n, s in table),
           "Definition cur_layout : list quantity := [%s]." % "; ".join(layout)]
    import cij.plot.modes as PM
    importlib.reload(PM)
    from cij.util.units import _to_ang3
    rng = ctx.rng
    ds = make_dataset(rng, "generic", "phys", ctx.tier)
    ntv, nq, npm = len(ds["grid"]), ds["nq"], ds["np"]
    arrs = {k: numpy.array([[[rng.uniform(1, 2) + 10 * k for _ in range(npm)] for _ in range(nq)] for _ in range(ntv)])
            for k in range(3)}
    arrs[3] = arrs[1] ** 2

    class Stub:
        pass
    calc = Stub()
    calc.freq_array = arrs[0]
    calc.mode_gamma = [arrs[QCODE[q]] for q in layout]      # what Calculator._interpolate_modes stores
    calc.np = npm
    calc.v_array = numpy.array(ds["grid"])
    calc.qha_input = qha_input_of(ds)
    plotter = PM.ModePlotter(calc)
    obs = []
    for n in (0, 1, 2):
        for iq in range(nq):
            ax = RecordingAxes()
            try:
                plotter.plot_modes(ax, n, iq)
            except BaseException as e:
                ctx.failure("plot-raises-n%d" % n, "plot_modes(ax, %d, %d) raises %s: %s" % (n, iq, type(e).__name__, e),
                            input=dict(n=n, iq=iq))
                obs.append((n, iq, None))
                continue
            drawn = []
            for (a, k) in ax.plots:
                code, kk = 9, -1
                if len(a) >= 2 and numpy.shape(a[1]) == (ntv,):
                    for c, arr in arrs.items():
                        for kx in range(npm):
                            if numpy.array_equal(a[1], arr[:, iq, kx]):
                                code, kk = c, kx
                xok = len(a) >= 1 and numpy.shape(a[0]) == (ntv,) and numpy.allclose(a[0], _to_ang3(calc.v_array), rtol=1e-12)
                drawn.append((kk, code if xok else 9))
            obs.append((n, iq, drawn))
            ctx.case(["plot", n, iq])
            if n == 0:
                # supporting: the sampled points are scattered for the same modes
                ks = [k for k in range(npm) if not (iq == 0 and k < 3)]
                if len(ax.scatters) != len(ks):
                    ctx.failure("plot-scatter-n0", "plot_modes n=0 scatters %d point sets for %d drawn modes"
                                % (len(ax.scatters), len(ks)), input=dict(n=0, iq=iq))
    gen.append("Definition plot_obs : list (Z * nat * option (list (nat * Z))) := [%s]." % ";\n ".join(
        "(%d%%Z, %d, %s)" % (n, iq, "None" if d is None else "Some [%s]" % "; ".join(
            "(%d, %d%%Z)" % (max(k, 0), c) for k, c in d)) for n, iq, d in obs))
    gen.append(r"""
Definition qcode (q : option quantity) : Z :=
  match q with Some QOmega => 0 | Some QGamma => 1 | Some QVdGdV => 2 | Some QGammaSq => 3 | None => 9 end%Z.
Definition plot_np : nat := """ + str(npm) + r""".
Definition obs_ok (o : Z * nat * option (list (nat * Z))) : bool :=
  let '(n, iq, d) := o in
  match d with
  | None => false
  | Some l => list_eqb (fun a b => Nat.eqb (fst a) (fst b) && Z.eqb (snd a) (snd b)) l
                (map (fun k => (k, qcode (plot_select cur_table cur_layout n))) (plot_modes_drawn plot_np iq))
  end.
Fixpoint failing_from {A} (i : nat) (f : A -> bool) (l : list A) : list nat :=
  match l with [] => [] | x :: t => if f x then failing_from (S i) f t else i :: failing_from (S i) f t end.
Eval vm_compute in (failing_from 0 obs_ok plot_obs).
Eval vm_compute in (plot_ok cur_table cur_layout, is_pinned cur_table cur_layout).
""")
    f = write(rd / "cases_plot.v", "\n".join(gen))
    res = ctx.run_shards([f], label="plot tie (recording axes vs plot_select on the table read from source)")
    ok, fl, txt = res[f]
    import re
    mm = re.search(r"=\s*\((true|false),\s*(true|false)\)", txt)
    if mm:
        ctx.extra["plot_ok_on_current_source"] = mm.group(1) == "true"
        ctx.extra["plot_source_is_pinned_refuted_model"] = mm.group(2) == "true"
    # property oracle, straight from the statement: n = 0,1,2 must draw omega, gamma, V dgamma/dV
    want = {0: 0, 1: 1, 2: 2}
    got = {}
    for n, iq, d in obs:
        if d is None:
            continue
        codes = set(c for _, c in d)
        ks = [k for k, _ in d]
        exp_ks = [k for k in range(npm) if not (iq == 0 and k < 3)]
        if ks != exp_ks:
            ctx.failure("plot-modes-drawn-n%d" % n, "plot_modes(ax, %d, %d) draws modes %s, expected %s" % (n, iq, ks, exp_ks),
                        input=dict(n=n, iq=iq), expected=exp_ks, observed=ks)
        got.setdefault(n, set()).update(codes)
    if got.get(1) == {2} and got.get(2) == {1} and got.get(0) == {0}:
        ctx.failure("plot-n1-n2-swapped",
                    "ModePlotter.plot_modes draws V dgamma/dV (mode_gamma[0]) for n=1 and gamma (mode_gamma[1]) for n=2; "
                    "the documented selection is n=1 -> gamma, n=2 -> V dgamma/dV",
                    input=dict(call="ModePlotter(calculator).plot_modes(ax, n, iq)", n=[1, 2],
                               mode_gamma_layout=layout, table=table),
                    expected={1: "gamma", 2: "V dgamma/dV"}, observed={1: "V dgamma/dV", 2: "gamma"})
    else:
        for n in (0, 1, 2):
            if n in got and got[n] != {want[n]}:
                ctx.failure("plot-select-n%d" % n, "plot_modes(ax, %d, iq) draws %s, expected %s"
                            % (n, sorted(QNAME[c] for c in got[n]), QNAME[want[n]]),
                            input=dict(call="ModePlotter(calculator).plot_modes(ax, n, iq)", n=n,
                                       mode_gamma_layout=layout, table=table),
                            expected=QNAME[want[n]], observed=sorted(QNAME[c] for c in got[n]))


# ------------------------------------------------------------------------------------------------
# main
# ------------------------------------------------------------------------------------------------

def run(ctx):
    rd = ctx.fresh_run_dir()
    ctx.rule = (
        "synthetic QHAInputData tables: nv in 6..12 strictly decreasing volumes (ratio ~1.06..0.7 of V0; V0 ~1 "
        "('unit') or 60..900 bohr^3 ('phys')), nq=2, np in 4..6, ln(omega) = power law / polynomial of degree 2..5 "
        "in ln V / polynomial + sine ('generic'); Gamma acoustic entries small positive or negative placeholders; "
        "v_array = linspace(Vmin/r, Vmax*r, 7..10), r in 1.1..1.3; every method x admissible order (spline 2-5, "
        "lsq_poly 1-5, node-based: random subset of 2..nv-1); a case (data set, method, order) is non-trivial when "
        "distinct; polynomial-method cases whose a-priori condition number (numpy.linalg.cond of the Vandermonde "
        "matrix in ln V: nodes for lagrange > 1e10 / krogh > 1e13, all volumes and order+1 columns for lsq_poly > 5e11) "
        "exceeds the limit are rejected from the 1e-7 comparison and counted")
    ctx.trusted += [
        "scipy.interpolate.{UnivariateSpline,PchipInterpolator,Akima1DInterpolator,CubicHermiteSpline} are ORACLES: the "
        "model takes (value, nu=1, nu=2) of the object built from the flipped logarithmic nodes as given; the library "
        "contract 'nu=1, nu=2 evaluations are the first and second derivative of the nu=0 evaluation' is the hypothesis "
        "of triple_consistent_oracle (global) / triple_consistent_library (pointwise, at the grid point; the piecewise "
        "classes are only C^1 at breakpoints) - sampled by finite differences, not proved",
        "numpy.linalg.lstsq / scipy.interpolate.lagrange / KroghInterpolator are NOT trusted: their results are compared "
        "with the model's own least-squares / Newton interpolation in binary64 (rtol 1e-7; atol 1e-9/1e-8/1e-6 for "
        "omega/gamma/third)",
        "least squares in the model: Gaussian elimination on the normal equations is unverified Gallina (executable tie "
        "only); theorems speak about ANY coefficient list satisfying the normal equations",
        "fail-closed ast reader (in tools/props/c11.py) of the n-chain in ModePlotter.plot_modes and of "
        "Calculator._interpolate_modes (mode_gamma layout) - validated by the recording-axes run",
        "binary64 model vs real-number theorems: same Gallina terms at two Ops instances; rounding is not modelled",
    ]
    ctx.partial += [
        "spline/pchip/akima/hermite: consistency of the triple rests on the scipy contract (pointwise: nu=1/nu=2 "
        "evaluations are the derivatives of the nu=0 evaluation at the grid point - triple_consistent_library; shown "
        "satisfiable for each method's oracle shape by a polynomial library); supported by 4th-order "
        "finite differences of the implementation's own omega and gamma outputs on a refined grid (tolerance 2e-6), "
        "and power-law exactness of these four methods is measured (tolerance 1e-5/1e-5/1e-3), not proved",
        "that the executable elimination returns a solution of the normal equations is checked numerically "
        "(comparison with numpy.linalg.lstsq), not proved; normal_eqs_solution_unique_fit proves that the normal "
        "equations determine the coefficient list uniquely (more than `order` distinct abscissae)",
    ]
    ctx.assumptions += [
        "volumes positive and pairwise distinct; frequencies of non-skipped modes positive",
        "orders admissible: spline 2..5, node-based >= 2, lsq_poly 1..5, each below the number of sampled volumes",
    ]
    import cij.core.mode_gamma as mg
    importlib.reload(mg)
    rng = ctx.rng
    quick = ctx.tier == "quick"

    # 0. theorems
    shutil.copy(PROPS / "Prop_C11.v", rd / "Prop_C11.v")
    ok, pout = ctx.prove(rd / "Prop_C11.v", "Prop_C11.v (25 theorems over R about PolyModel/InterpModel)", "theorem-file")
    # vlib.parse_assumptions misses axioms whose type is printed on the following line; collect them here
    import re
    ctx.axioms = {}
    for ln in pout.splitlines():
        mm = re.match(r"^([A-Za-z_][\w']*(?:\.[A-Za-z_][\w']*)+)\s*(:.*)?$", ln)
        if mm:
            ctx.axioms[mm.group(1)] = ctx.axioms.get(mm.group(1), 0) + 1
    # 0b. static data-flow tie: mode_gamma.py regenerated as helper / loop flows and proved equal to the models
    #     (after the axiom collection above, which resets ctx.axioms)
    from props import modegamma_static
    modegamma_static.static_tie(ctx, rd)
    ctx.extra["theorems"] = ["polyder_is_derive", "triple_consistent_poly", "power_law_exact", "interpolant_unique",
                             "lsq_poly_exact_upto_order", "lsq_power_law_exact", "loop_indexing", "plot_select_spec_iff",
                             "plot_select_refuted", "triple_consistent_oracle",
                             "newton_form_interpolates", "node_poly_interpolates", "node_poly_exact_on_polynomials",
                             "subsample_at_least_two", "subsample_at_most_order", "subsample_count", "subsample_order_one",
                             "power_law_exact_admissible", "normal_eqs_solution_unique_fit", "lsq_result_determined",
                             "triple_consistent_library", "spline_contract_on_polynomial_oracle",
                             "library_shape_exact_on_polynomial_oracle", "c1_piecewise_oracle_pointwise_contract",
                             "c1_piecewise_oracle_not_global_contract"]

    # 1. plot selection (D6)
    run_plot(ctx, rd, mg)

    # 2. data sets and implementation runs
    reps = 2 if quick else 60
    datasets = []
    for rep in range(reps):
        for kind in ("powerlaw", "poly", "generic"):
            for scale in ("unit", "phys"):
                datasets.append(make_dataset(rng, kind, scale, ctx.tier))
                if kind != "generic" and scale == "unit":
                    datasets.append(twin_dataset(rng, datasets[-1]))     # evaluated right after its original
                    ctx.count("twin data sets (same end volumes, other interior volumes)")
    cases = []          # (ds_index, method, order, out) compared in Coq
    stats = dict(akima_nan=[], akima_nan_inside=[], fd=0)
    rejected = {}
    hermite_errs = []
    n_lib = n_poly = 0
    for di, ds in enumerate(datasets):
        for method in METHODS:
            for order in admissible_orders(rng, method, ds["nv"], ctx.tier):
                canon = dict(ds=di, kind=ds["kind"], scale=ds["scale"], nv=ds["nv"], np=ds["np"], method=method,
                             order=order, vols=ds["vols"], grid=ds["grid"])
                out, err = call_impl(mg, ds, method, order)
                ctx.case(canon)
                ctx.count("%s/%s" % (method, ds["kind"]))
                if out is None:
                    if method == "hermite":
                        hermite_errs.append((di, order, err))
                    else:
                        ctx.failure("raises-%s" % method, "interpolate_modes raises for method %s order %d: %s"
                                    % (method, order, err),
                                    input=dict(method=method, order=order, volumes=ds["vols"], table=ds["table"],
                                               v_array=ds["grid"]))
                    continue
                ill = False
                if method in POLY_METHODS:
                    c = condition(ds, method, order)
                    ill = not (c <= COND_LIMIT[method])
                if ill:
                    rejected[method] = rejected.get(method, 0) + 1
                    ctx.count("rejected ill-conditioned %s" % method)
                else:
                    cases.append((di, method, order, out))
                    if method in POLY_METHODS:
                        n_poly += 1
                    else:
                        n_lib += 1
                # search stage on every case (cheap)
                if not ill:
                    oracle_exact(ctx, ds, method, order, out, stats)
                    oracle_consistency(ctx, mg, ds, method, order, out, stats)
                oracle_indexing(ctx, mg, ds, method, order, out, rng)
                ctx.sample(dict(method=method, order=order, kind=ds["kind"], nv=ds["nv"], volumes=ds["vols"][:3] + ["..."],
                                gamma_q1_m0=out[1][:3, 1, 0].tolist()), limit=6)
    ctx.extra["cases_compared_in_coq"] = dict(polynomial_methods=n_poly, library_methods=n_lib)
    ctx.extra["rejected_ill_conditioned"] = rejected
    ctx.extra["finite_difference_checks"] = stats["fd"]
    ctx.extra["tolerances"] = dict(coq_rtol=RTOL, coq_atol=dict(omega=ATOL_W, gamma=ATOL_G, third=ATOL_H),
                                   cond_limits=COND_LIMIT, powerlaw=dict(omega=TOL_PL_W, gamma=TOL_PL_G, third=TOL_PL_H),
                                   finite_difference=TOL_FD, fd_step_lnV=FD_DELTA)

    # known-defect probes
    if stats["akima_nan"]:
        o, q, m, v = stats["akima_nan"][0]
        ctx.failure("akima-nan-outside-range",
                    "method 'akima' returns NaN for every grid volume outside the sampled volume range "
                    "(Akima1DInterpolator is evaluated without extrapolate=True); %d such entries seen, %d of them INSIDE the "
                    "sampled volume range but beyond the last sub-sampled node ([::interval] can drop the smallest volume)"
                    % (len(stats["akima_nan"]), len(stats["akima_nan_inside"])),
                    input=dict(method="akima", order=o, q=q, m=m, volume=v), expected="finite consistent triple",
                    observed="(nan, nan, nan)")
    if hermite_errs:
        di, o, err = hermite_errs[0]
        key = "hermite-typeerror" if err.startswith("TypeError") else "hermite-raises"
        ctx.failure(key, "method 'hermite' raises for every input (%d of %d calls): %s"
                    % (len(hermite_errs), len(hermite_errs), err),
                    input=dict(method="hermite", order=o, volumes=datasets[di]["vols"]), expected="a consistent triple",
                    observed=err)

    # 3. Coq comparison
    hdr = (SHARD_HEADER.replace("@RTOL@", fhex(RTOL)).replace("@ATW@", fhex(ATOL_W)).replace("@ATG@", fhex(ATOL_G))
           .replace("@ATH@", fhex(ATOL_H)))
    per = 40
    files = []
    chunks = [cases[i:i + per] for i in range(0, len(cases), per)]
    for ci, ch in enumerate(chunks):
        txt = [hdr, "Definition cases : list case := [\n" + ";\n".join(
            case_lit(datasets[di], method, order, out) for di, method, order, out in ch) + "]."]
        txt.append("Eval vm_compute in (failing ok_case cases).")
        files.append(write(rd / ("cases_%02d.v" % ci), "\n".join(txt)))
    res = ctx.run_shards(files, label="interpolate_modes vs model (FOps)")
    failing_cases = []
    for ci, f in enumerate(files):
        ok, fl, txt = res[f]
        for i in (fl[0] if fl else []):
            di, method, order, out = chunks[ci][i]
            failing_cases.append(dict(method=method, order=order, kind=datasets[di]["kind"], volumes=datasets[di]["vols"],
                                      v_array=datasets[di]["grid"]))
    if failing_cases:
        ctx.extra["tie_failing_cases"] = failing_cases[:10]
        # make sure a concrete input is attached even if the property oracle stayed silent
        if not ctx.failures or all(f["key"] in ("akima-nan-outside-range", "hermite-typeerror", "plot-n1-n2-swapped")
                                   for f in ctx.failures):
            fc = failing_cases[0]
            ctx.failure("model-mismatch-%s" % fc["method"],
                        "interpolate_modes output differs from the Coq model (rtol 1e-7) for method %s order %d"
                        % (fc["method"], fc["order"]), input=fc)
