"""Static (translator) tie for cij/misc/evec_sort.py, evec_disp2eig.py and evec_load.py, used by C20.

static_tie(ctx, rd) regenerates Gallina definitions from the CURRENT source tree (tools/translate_evec.py on top of
tools/translate_core.py, fail-closed), writes them with the hand-written vocabulary and lemma files of tools/tie_evec/
into the per-run directory `rd` (logical path CijGen) and compiles one lemma file per group:

    evec-sort       evec_sort (dimension check, conj(base) @ target.T, greedy loop, returned list) = EvecSortModel.evec_sort
    evec-disp2eig   evec_disp2eig for real and complex arrays                              = Disp2EigModel.disp2eig / disp2eig_c
    evec-load       the two regexes and the vector-line reader of evec_load.py             = MatdynModel

One obligation per group is recorded; the names of the groups that broke are returned.  This function never calls
ctx.failure: a broken static obligation without a concrete failing input is reported by the driver as
`no-failing-input-found` (the C19 module searches for failing inputs itself).
"""
import re
from pathlib import Path

import vlib
from vlib import REPO, VERIF, write
import translate_evec as T
from translate_core import TranslateError

TEMPLATES = VERIF / "tools" / "tie_evec"
GROUPS = ["evec-sort", "evec-disp2eig", "evec-load"]
FILE_OF = {"evec-sort": "Tie_evec_sort.v", "evec-disp2eig": "Tie_evec_disp2eig.v", "evec-load": "Tie_evec_load.v"}
WHAT = {
    "evec-sort": "evec_sort of evec_sort.py (filter=None, threshold=None) = EvecSortModel.evec_sort over R, all inputs: "
                 "len(set(..)) != 1 or ndim not in set <-> dims_ok fails; conj(base) @ target.T with numpy.abs = overlap; "
                 "the loop body simulates the greedy step (argmax of the flattened matrix, unravel, zero row and column, "
                 "sorted[row] = items[col]) for ndim rounds; the list is returned unchanged",
    "evec-disp2eig": "evec_disp2eig of evec_disp2eig.py = Disp2EigModel.disp2eig (real) / disp2eig_c (complex, rows of "
                     "non-zero norm) over R: repeat(mass, 3), shape test, a *= sqrt(m)[nax, :], norm = diag(conj(a) @ a.T), "
                     "a /= sqrt(norm)[:, nax]",
    "evec-load": "Q_COORDS_REGEX / MODE_INDEX_REGEX of evec_load.py (pattern text parsed and translated) and the column "
                 "slices / re-im pairing of _read_vecs = MatdynModel",
}
NEEDS = {"evec-sort": ("sort",), "evec-disp2eig": ("disp",), "evec-load": ("load",)}

TRUSTED = (
    "translator tools/translate_evec.py + translate_core.py (fail-closed ast whitelist) and the READING of Python / numpy "
    "in tools/tie_evec/EvecTieBase.v: complex numbers as pairs, arrays as lists of rows, len / set / [None]*n / list "
    "concatenation, numpy.array, conj, `M1 @ M2.T` as sum_k M1[i][k]*M2[j][k], abs, argmax = one pass over the flattened "
    "array keeping the first maximum, unravel_index by the row length, M[i,:]=0 / M[:,j]=0, L[i]=x with IndexError, "
    "numpy.repeat, broadcasting of v[nax,:] and v[:,nax], sqrt (principal root for complex), diag; evec_sort is "
    "translated for filter=None, threshold=None only (the guarded branches are pruned); the regex texts are parsed by "
    "Python's own re._parser and mapped node by node; only pattern-checked: module imports, the loop skeleton of "
    "_read_vecs; NOT translated: _read_modes / _read_q_points / evec_load generators (exercised by the C20 shards)"
)


def lemma_at(path: Path, out: str) -> str:
    m = re.search(r'File "[^"]*", line (\d+)', out)
    if not m:
        return ""
    lines = path.read_text().splitlines()[:int(m.group(1))]
    for ln in reversed(lines):
        mm = re.match(r"\s*(Lemma|Theorem|Corollary|Example|Definition)\s+([\w']+)", ln)
        if mm:
            return mm.group(2)
    return ""


def static_tie(ctx, rd: Path, groups=tuple(GROUPS)):
    import time
    t_start = time.time()
    groups = list(groups)
    ctx.trusted.append(TRUSTED)
    XQ = [(rd, "CijGen")]
    failed = []
    gen_txt, errs, info = T.translate_all(REPO)          # errs: piece -> reason
    ctx.extra["static_tie_evec"] = {k: dict(pattern_checked=v.get("facts", []), loop_state=v.get("loops", []),
                                           options=v.get("options", {})) for k, v in info.items()}

    write(rd / "EvecTieBase.v", (TEMPLATES / "EvecTieBase.v").read_text())
    write(rd / "Gen_evec.v", gen_txt)
    ok_base, out_base = vlib.coqc(rd / "EvecTieBase.v", extra_Q=XQ, timeout=300)
    ok_gen, out_gen = vlib.coqc(rd / "Gen_evec.v", extra_Q=XQ, timeout=300) if ok_base else (False, out_base)
    ctx.obligation("static tie: tools/translate_evec.py -> Gen_evec.v (regenerated from %s, %s, %s) compiles%s"
                   % (T.SORT, T.DISP, T.LOAD, "" if not errs else " [untranslated: %s]" % ", ".join(sorted(errs))),
                   "translator", ok_gen, "" if ok_gen else out_gen)

    todo = []
    why = {}
    for g in groups:
        bad = [errs[k] for k in NEEDS[g] if k in errs]
        if bad:
            why[g] = "; ".join(bad)
        elif ok_gen:
            todo.append(write(rd / FILE_OF[g], (TEMPLATES / FILE_OF[g]).read_text()))
    res = vlib.coqc_many(todo, extra_Q=XQ, timeout=300) if todo else {}
    for g in groups:
        name = "static tie [%s]: %s" % (g, WHAT[g])
        if g in why:
            ctx.obligation(name, "translator-tie", False, why[g])
            failed.append(g)
            continue
        if not ok_gen:
            ctx.obligation(name, "translator-tie", False, "Gen_evec.v / EvecTieBase.v do not compile")
            failed.append(g)
            continue
        ok, out = res[rd / FILE_OF[g]]
        detail = ""
        if not ok:
            lem = lemma_at(rd / FILE_OF[g], out)
            detail = ("lemma %s of %s does not hold for the regenerated definitions\n" % (lem, FILE_OF[g]) if lem else "") + out
            failed.append(g)
        ctx.obligation(name, "translator-tie", ok, detail)
        for closed, names in vlib.parse_assumptions(out):
            for n in names:
                ctx.axioms[n] = ctx.axioms.get(n, 0) + 1
    if failed:
        det = ctx.extra.setdefault("static_tie_details", {})
        for o in ctx.obligations:
            m = re.match(r"static tie \[([\w-]+)\]", o["name"])
            if m and not o["ok"]:
                det[m.group(1)] = o["detail"][:600]
    ctx.extra["static_tie_evec_seconds"] = round(time.time() - t_start, 2)
    ctx.extra["static_tie_failed_groups"] = sorted(set(ctx.extra.get("static_tie_failed_groups", [])) | set(failed))
    return failed
