"""Static (translator) tie of C16 to the current text of cij/io/config/config.py.

static_tie(ctx, rd) regenerates Gen_config.v (tools/translate_config.py, fail-closed ast translator) and compiles the
hand-written lemma files of tools/tie_config/ against it in the per-run directory `rd` (logical path CijGen):

    merge-step       the if/elif chain of update_config's loop body = the model's per-key step on all 16
                     combinations of (k in input, k in default, input[k] is dict, default[k] is dict), with Python's
                     evaluation order (KeyError of an unguarded subscript); the loop ranges over the key union
    merge-function   g_update_config (loop skeleton around the regenerated step) = JsonModel.update_config on every
                     pair of trees, every enumeration order; apply_default_config = update_config(USER, PACKAGED)
    read-dispatch    read_config's suffix dispatch / validate flag = SchemaModel.read_config

One obligation per group; never calls ctx.failure.  Returns the failed group ids.
"""
from vlib import REPO, VERIF
import translate_config as T
import tie_common

TEMPLATES = VERIF / "tools" / "tie_config"
GROUPS = [
    ("merge-step", "Tie_config_step.v",
     "update_config's if/elif chain = model per-key step (16 combinations, KeyError order); loop over the key union"),
    ("merge-function", "Tie_config_merge.v",
     "regenerated update_config = JsonModel.update_config on all trees and key orders; apply_default_config(user) = "
     "update_config(user, packaged default/settings.yaml)"),
    ("read-dispatch", "Tie_config_read.v",
     "read_config suffix dispatch (.yml/.yaml -> YAML, .json -> JSON, else RuntimeError) and validate flag = SchemaModel.read_config"),
]
NEEDS = {"merge-step": ["update"], "merge-function": ["update", "apply"], "read-dispatch": ["read"]}

TRUSTED = (
    "translator tools/translate_config.py (fail-closed ast whitelist: `k [not] in D[.keys()]`, isinstance(D[k], dict), "
    "not/and/or with short-circuit, a loop body of stores out[k] = VALUE / re-assignable locals / if-elif-else / continue "
    "executed symbolically per key (VALUE = D[k] | local | update_config(..); every D[k] guarded where Python evaluates "
    "it; a recursive call whose result is not what is stored is refused), key set = set(list of keys) / "
    "unions of keys views) and its reading of the loop (ConfigTieBase.merge_skel: both arguments dicts, set enumerated "
    "in an arbitrary order, one store per key, an exception aborts the call); only pattern-checked (glue): import "
    "lines, `with open(..) as fp`, yaml.load(fp, Loader=yaml.FullLoader) / json.load(fp) read as the parsed tree, "
    "cij.data.get_data_fname = pkg_resources.resource_filename(__name__, fname), validate_config imported from "
    ".validate; lemma files tools/tie_config/*.v (hand-written statements; case analysis / induction, no axioms)"
)


def static_tie(ctx, rd):
    ctx.trusted.append(TRUSTED)
    why = {}
    gen = ""
    try:
        res = T.translate((REPO / T.FILE).read_text(), (REPO / T.DATA_INIT).read_text())
        gen = T.emit(res)
        for gid, parts in NEEDS.items():
            bad = [str(res.errors[p]) for p in parts if p in res.errors]
            if bad:
                why[gid] = "; ".join(bad)
    except (SyntaxError, OSError) as e:
        for gid in NEEDS:
            why[gid] = "%s cannot be read/parsed: %r" % (T.FILE, e)
        gen = T.HEADER % T.FILE
    return tie_common.run_groups(ctx, rd, "config", T.FILE, "Gen_config.v", gen, TEMPLATES,
                                 ["ConfigTieBase.v"], GROUPS, why, "config", side_files=["ConfigSkel.v"])
