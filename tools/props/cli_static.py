"""Static (translator) tie for cij/cli/extract.py and cij/cli/geotherm.py, used by C19.

static_tie(ctx, rd) regenerates Gallina definitions from the CURRENT source tree (tools/translate_cli.py on top of
tools/translate_core.py, fail-closed), writes them with the hand-written vocabulary and lemma files of tools/tie_cli/
into the per-run directory `rd` (logical path CijGen) and compiles one lemma file per group:

    load-data       load_data of both files: glob(f"{var}_tp_*")[0] in listing order   = ExtractModel.choose_file
    extract-main    main of extract.py (-T before -P, argmin|index - y|, aligned columns) = ExtractModel.extract
    geotherm-main   fit_data / main of geotherm.py (spline as oracle, --p-col first)    = ExtractModel.geotherm

One obligation per group is recorded; the names of the groups that broke are returned.  This function never calls
ctx.failure: a broken static obligation without a concrete failing input is reported by the driver as
`no-failing-input-found` (the C19 module searches for failing inputs itself).
"""
import re
from pathlib import Path

import vlib
from vlib import REPO, VERIF, write
import translate_cli as T
from translate_core import TranslateError

TEMPLATES = VERIF / "tools" / "tie_cli"
GROUPS = ["load-data", "extract-main", "geotherm-main"]
FILE_OF = {"load-data": "Tie_cli_load.v", "extract-main": "Tie_cli_extract.v", "geotherm-main": "Tie_cli_geotherm.v"}
WHAT = {
    "load-data": "load_data of extract.py / geotherm.py: glob(f'{var}_tp_*')[0] = first name of the listing, in listing "
                 "order, with prefix var ++ '_tp_' (ExtractModel.choose_file), every listing, every plain var",
    "extract-main": "main of extract.py = ExtractModel.extract over R: -T tested before -P (which transposes), row = "
                    "numpy.argmin|index - y| = argmin_abs (induction), one aligned column per variable in request order",
    "geotherm-main": "fit_data / main of geotherm.py = ExtractModel.geotherm with the spline as oracle: spline over "
                     "(index, columns, values), called at (table[p_col], table[t_col]) with grid=False, columns stored in "
                     "request order; defaults of --t-col / --p-col",
}
NEEDS = {"load-data": ("extract.load_data", "geotherm.load_data"), "extract-main": ("extract.main",),
         "geotherm-main": ("geotherm.main",)}

TRUSTED = (
    "translator tools/translate_cli.py + translate_core.py (fail-closed ast whitelist; statement level: single "
    "assignments, if/elif/else with the rest duplicated into the branches, `X != None` / `is not None` on click options, "
    "for loops whose loop-carried state is computed, unbound locals = exception) and the READING of the library calls in "
    "tools/tie_cli/CliTieBase.v: glob = fnmatch filter of the directory listing in listing order (* ? literal; no "
    "character classes), l[0], sorted, pandas .T / .columns / .index / .iloc[k] / to_numpy, numpy array - scalar, abs, "
    "argmin = one left-to-right pass keeping the first minimum, dict, DataFrame(columns, index) and column assignment "
    "with label alignment (ExtractModel.align), RectBivariateSpline(x, y, z)(a, b, grid=False) = pointwise oracle; "
    "only pattern-checked: imports, `variables = variables.split(',')`, read_table keywords and the float() conversion "
    "of labels, the click decorators (read for parameter names, types and defaults), print(table.to_string(...))"
)


def lemma_at(path: Path, out: str) -> str:
    m = re.search(r'File "[^"]*", line (\d+)', out)
    if not m:
        return ""
    lines = path.read_text().splitlines()[:int(m.group(1))]
    for ln in reversed(lines):
        mm = re.match(r"\s*(Lemma|Theorem|Corollary|Example|Definition)\s+([\w']+)", ln)
        if mm:
            return mm.group(2)
    return ""


def static_tie(ctx, rd: Path, groups=tuple(GROUPS)):
    import time
    t_start = time.time()
    groups = list(groups)
    ctx.trusted.append(TRUSTED)
    XQ = [(rd, "CijGen")]
    failed = []
    gen_txt, errs, info = T.translate_all(REPO)          # errs: piece -> reason
    ctx.extra["static_tie_cli"] = {k: dict(pattern_checked=v.get("facts", []), loop_state=v.get("loops", []),
                                           options=v.get("options", {})) for k, v in info.items()}

    write(rd / "CliTieBase.v", (TEMPLATES / "CliTieBase.v").read_text())
    write(rd / "Gen_cli.v", gen_txt)
    ok_base, out_base = vlib.coqc(rd / "CliTieBase.v", extra_Q=XQ, timeout=300)
    ok_gen, out_gen = vlib.coqc(rd / "Gen_cli.v", extra_Q=XQ, timeout=300) if ok_base else (False, out_base)
    ctx.obligation("static tie: tools/translate_cli.py -> Gen_cli.v (regenerated from %s and %s) compiles%s"
                   % (T.EXTRACT, T.GEOTHERM, "" if not errs else " [untranslated: %s]" % ", ".join(sorted(errs))),
                   "translator", ok_gen, "" if ok_gen else out_gen)

    todo = []
    why = {}
    for g in groups:
        bad = [errs[k] for k in NEEDS[g] if k in errs]
        if bad:
            why[g] = "; ".join(bad)
        elif ok_gen:
            todo.append(write(rd / FILE_OF[g], (TEMPLATES / FILE_OF[g]).read_text()))
    res = vlib.coqc_many(todo, extra_Q=XQ, timeout=300) if todo else {}
    for g in groups:
        name = "static tie [%s]: %s" % (g, WHAT[g])
        if g in why:
            ctx.obligation(name, "translator-tie", False, why[g])
            failed.append(g)
            continue
        if not ok_gen:
            ctx.obligation(name, "translator-tie", False, "Gen_cli.v / CliTieBase.v do not compile")
            failed.append(g)
            continue
        ok, out = res[rd / FILE_OF[g]]
        detail = ""
        if not ok:
            lem = lemma_at(rd / FILE_OF[g], out)
            detail = ("lemma %s of %s does not hold for the regenerated definitions\n" % (lem, FILE_OF[g]) if lem else "") + out
            failed.append(g)
        ctx.obligation(name, "translator-tie", ok, detail)
        for closed, names in vlib.parse_assumptions(out):
            for n in names:
                ctx.axioms[n] = ctx.axioms.get(n, 0) + 1
    if failed:
        det = ctx.extra.setdefault("static_tie_details", {})
        for o in ctx.obligations:
            m = re.match(r"static tie \[([\w-]+)\]", o["name"])
            if m and not o["ok"]:
                det[m.group(1)] = o["detail"][:600]
    ctx.extra["static_tie_cli_seconds"] = round(time.time() - t_start, 2)
    ctx.extra["static_tie_failed_groups"] = sorted(set(ctx.extra.get("static_tie_failed_groups", [])) | set(failed))
    return failed
