"""C02 - adiabatic - isothermal gap = T V (dP/dT)^2 / (9 ei ej C_V); zero for shear and at T=0."""
import importlib
import shutil

import numpy

from vlib import PROPS
import nonshear_harness as H
from props import c01, nonshear_static


def shear_part(ctx, n):
    """real task list on a duck-typed calculator: every component carrying a Voigt index 4-6 must have
    identical adiabatic and isothermal values although the non-shear ones differ"""
    import cij.core.tasks as TK
    importlib.reload(TK)
    from cij.util import c_
    rng = ctx.rng
    allk = [(1, 1), (2, 2), (3, 3), (1, 2), (1, 3), (2, 3), (4, 4), (5, 5), (6, 6), (1, 4), (1, 5), (1, 6), (2, 4),
            (2, 5), (2, 6), (3, 4), (3, 5), (3, 6), (4, 5), (4, 6), (5, 6)]
    for i in range(n):
        c = H.make_case(rng, nq=rng.choice([1, 2]), na=1, nv=2)
        calc = H.duck_calculator(c)
        strain = numpy.array([[rng.uniform(0.2, 0.5) for _ in range(3)] for _ in range(c["nv"])])
        if i % 3 == 1:      # cubic-like: equal strain fractions, rotated-frame tasks coincide with requested ones
            strain = numpy.full((c["nv"], 3), 1.0 / 3.0)
        elif i % 3 == 2:    # two equal axes (tetragonal / hexagonal-like)
            strain[:, 1] = strain[:, 0]
        keys = rng.sample(allk, rng.randint(2, 8))
        if i % 2 == 0:      # a diagonal component together with a mixed key that depends on it
            keys = list(dict.fromkeys(keys + [(1, 1), rng.choice([(1, 5), (1, 4), (1, 6)])]))
        if not any(k[0] > 3 or k[1] > 3 for k in keys):
            keys.append(rng.choice(allk[6:]))
        try:
            with numpy.errstate(all="ignore"):
                tl = TK.PhononContributionTaskList(calc)
                tl.resolve(strain, [c_(*k) for k in keys])
                tl.calculate()
                adi = tl.get_adiabatic_results()
                iso = tl.get_isothermal_results()
        except Exception as ex:
            ctx.failure("tasklist-raises", "PhononContributionTaskList raised %s: %s" % (type(ex).__name__, ex),
                        input=dict(keys=keys, strain=strain.tolist()))
            return
        nonshear_differs = False
        for k in keys:
            a, b = numpy.asarray(adi[c_(*k)]), numpy.asarray(iso[c_(*k)])
            ctx.case(dict(kind="tasklist", keys=keys, key=k, strain=strain.tolist(), temps=c["temps"]),
                     nontrivial=(k[0] > 3 or k[1] > 3))
            ctx.count("tasklist key class: %s" % ("shear" if (k[0] > 3 or k[1] > 3) else "non-shear"))
            if k[0] > 3 or k[1] > 3:
                if not numpy.array_equal(a, b, equal_nan=True):
                    ctx.failure("shear-gap-c%d%d" % k,
                                "adiabatic and isothermal values of shear component c%d%d differ (max %.3g)"
                                % (k[0], k[1], float(numpy.nanmax(numpy.abs(a - b)))),
                                input=dict(keys=keys, strain=strain.tolist(), temps=c["temps"]))
            else:
                if numpy.nanmax(numpy.abs(a - b)) > 0:
                    nonshear_differs = True
                # the gap a REQUESTED non-shear component gets from the task list is the gap of its own contribution
                # object (whose formula the shards above tie to the model), whatever other tasks it was merged with
                import cij.core.phonon_contribution.nonshear as NS
                tot = numpy.sum(strain, axis=1)          # the task list normalises the axial strains to fractions
                ei, ej = strain[:, k[0] - 1] / tot, strain[:, k[1] - 1] / tot
                cls = NS.LongitudinalElasticModulusPhononContribution if k[0] == k[1] else \
                    NS.OffDiagonalElasticModulusPhononContribution
                with numpy.errstate(all="ignore"):
                    want = numpy.asarray(cls(calc, (ei, ej)).isothermal_to_adiabatic)
                got = a - b
                tol = 1e-9 * max(float(numpy.nanmax(numpy.abs(want))), 1e-300) + 1e-13 * float(numpy.nanmax(numpy.abs(a)))
                if got.shape != want.shape or not numpy.all(numpy.abs(got - want) <= tol):
                    ctx.failure("tasklist-gap-c%d%d" % k,
                                "adiabatic - isothermal of requested component c%d%d from the task list (max %.6g) is not "
                                "the gap T V (dP/dT)^2/(9 ei ej Cv) of that component (max %.6g)"
                                % (k[0], k[1], float(numpy.nanmax(numpy.abs(got))), float(numpy.nanmax(numpy.abs(want)))),
                                input=dict(keys=keys, strain=strain.tolist(), temps=c["temps"], key=k),
                                expected=want.tolist(), observed=got.tolist())
        ctx.count("tasklist runs where non-shear adiabatic != isothermal", int(nonshear_differs))


def oracle(ctx, meta, limit):
    worst = 0.0
    for c, lg, obs in meta[:limit]:
        for ti, T in enumerate(c["temps"]):
            for iv in range(c["nv"]):
                got = float(obs["gap"][ti][iv])
                ei = c["ei"][iv]
                ej = ei if lg else c["ej"][iv]
                if T == 0:
                    want = 0.0
                else:
                    d = float(H.oracle_dPdT(c, T, iv))
                    want = T * c["vols"][iv] * d * d / (9 * ei * ej * c["cv"][ti][iv])
                scale = max(abs(want), 1e-14)
                err = abs(got - want) / scale
                worst = max(worst, err)
                if err > 5e-6 or got != got:
                    ctx.failure("gap-%s" % ("long" if lg else "off"),
                                "adiabatic - isothermal is %.10g, T V (dP/dT)^2/(9 ei ej Cv) is %.10g" % (got, want),
                                input=dict(T=T, V=c["vols"][iv], ei=ei, ej=ej, cv=c["cv"][ti][iv],
                                           weights=c["weights"], spectrum=c["sp"].par, na=c["na"]),
                                expected=want, observed=got)
                if lg and got < 0:
                    ctx.failure("gap-negative", "diagonal gap is negative", input=dict(T=T, V=c["vols"][iv]),
                                observed=got)
                adi = float(obs["adi"][ti][iv]); iso = float(obs["iso"][ti][iv])
                if abs((adi - iso) - got) > 1e-12 * max(1.0, abs(adi)):
                    ctx.failure("adi-minus-iso", "value_adiabatic - value_isothermal differs from the gap",
                                input=dict(T=T, V=c["vols"][iv]), observed=adi - iso, expected=got)
    ctx.extra["oracle_worst_rel_dev"] = worst


def run(ctx):
    rd = ctx.fresh_run_dir()
    ctx.rule = ("same duck-typed harness as C01 (analytic spectra, 1-4 q-points, T grids with T=0), positive random "
                "heat-capacity fields; plus the real PhononContributionTaskList on a duck calculator with mixed "
                "shear/non-shear requests; non-trivial = >=2 q-points with unequal weights, or a shear key")
    ctx.trusted += [
        "C_V is whatever the QHA layer hands over (oracle input)",
        "the shear clause (adiabatic = isothermal for Voigt 4-6) is checked on the real task list here; its model-level "
        "statement is part of the C04 calculate model",
        "IEEE rounding absorbed by 8e-9 relative tolerance",
    ]
    shutil.copy(PROPS / "Prop_C02.v", rd / "Prop_C02.v")
    ctx.prove(rd / "Prop_C02.v", "Prop_C02.v (gap theorems over R)", "theorem-file", timeout=1800)
    # static tie: model = code text (regenerated + re-proved on every run); failing inputs are searched below
    nonshear_static.static_tie(ctx, rd, groups=nonshear_static.C02_GROUPS)
    # shear clause: value_adiabatic of shear.py is the memoised value_isothermal (static tie, group adiabatic only)
    from props import shear_static
    shear_static.static_tie(ctx, rd, groups=("adiabatic",))
    n = 30 if ctx.tier == "quick" else 4000
    cases, meta, consts = c01.build_cases(ctx, n)
    files = c01.shards(ctx, rd, cases, 20, tag="C02")
    res = ctx.run_shards(files, label="nonshear tie (gap, adiabatic)")
    nonshear_static.float_shards(ctx, rd, cases, "C02")
    bad = []
    for fi, f in enumerate(files):
        ok, fl, out = res[f]
        for lst in fl:
            bad += [fi * 20 + i for i in lst if i >= 0]
    for c, lg, obs in meta[:3]:
        ctx.sample(dict(cls="longitudinal" if lg else "off-diagonal", temps=c["temps"], vols=c["vols"],
                        cv=c["cv"], gap=obs["gap"].tolist()))
    order = [meta[i] for i in bad if i < len(meta)] + meta
    oracle(ctx, order, len(bad) + (5 if ctx.tier == "quick" else 30))
    shear_part(ctx, 6 if ctx.tier == "quick" else 200)
