(** static tie of C16, group READ-DISPATCH: read_config's suffix dispatch and optional validation, regenerated,
    equal the model [SchemaModel.read_config] (parsers are oracles: both parsers return the same tree here). *)
From Coq Require Import List Bool String.
From Cij Require Import JsonModel SchemaModel.
From CijGen Require Import ConfigTieBase Gen_config.
Import ListNotations.
Local Open Scope string_scope.

(** .yml / .yaml -> yaml.load(FullLoader), .json -> json.load, anything else (case-sensitive) -> RuntimeError *)
Definition spec_dispatch (suffix : string) : parser :=
  if mem suffix [".yml"; ".yaml"] then PYaml
  else if mem suffix [".json"] then PJson
  else PRaise "RuntimeError".

Ltac split_suffix s :=
  repeat match goal with
         | |- context [String.eqb s ?l] => destruct (String.eqb_spec s l) as [->|?]
         end.

Lemma tie_read_dispatch : forall suffix, g_read_dispatch suffix = spec_dispatch suffix.
Proof.
  intros s. unfold g_read_dispatch, spec_dispatch, mem. cbn [existsb].
  split_suffix s; try (vm_compute; reflexivity).
Qed.

(** the model accepts exactly the suffixes that are dispatched to a parser *)
Lemma spec_dispatch_supported : forall s,
  mem s [".yml"; ".yaml"; ".json"] = match spec_dispatch s with PRaise _ => false | _ => true end.
Proof.
  intros s. unfold spec_dispatch, mem. cbn [existsb].
  split_suffix s; try (vm_compute; reflexivity).
Qed.

Lemma tie_read_config : forall defs root suffix parsed do_validate,
  g_read_config (validate defs root) suffix parsed parsed do_validate
  = read_config defs root suffix parsed do_validate.
Proof.
  intros defs root s parsed v. unfold g_read_config, read_skel, read_config.
  rewrite tie_read_dispatch, spec_dispatch_supported.
  destruct (spec_dispatch s); reflexivity.
Qed.

Theorem tie_group_read_dispatch :
  (forall suffix, g_read_dispatch suffix = spec_dispatch suffix)
  /\ (forall defs root suffix parsed do_validate,
        g_read_config (validate defs root) suffix parsed parsed do_validate
        = read_config defs root suffix parsed do_validate).
Proof. split; [exact tie_read_dispatch | exact tie_read_config]. Qed.
Print Assumptions tie_group_read_dispatch.
