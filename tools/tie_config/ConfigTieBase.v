(** Shared vocabulary of the static tie of cij/io/config/config.py (C16); copied into the per-run directory by
    tools/props/config_static.py (logical path CijGen).  Hand-written; Gen_config.v (regenerated from the source
    on every run) and the Tie_config_*.v lemma files are written against it.  Definitions only. *)
From Coq Require Import List Bool String.
From Cij Require Import JsonModel.
Import ListNotations.

(** * update_config: one iteration of the loop, as Python evaluates it *)
Inductive side := SInput | SDefault.
(** what the loop body does for one key: store [D[k]], store the recursive call [update_config(A[k], B[k])],
    raise KeyError (a subscript [D[k]] evaluated while [k not in D]), or store nothing *)
Inductive outcome := Take (s : side) | Rec (a b : side) | KeyErr | NoStore.

(** conditions: [None] = evaluation raised KeyError *)
Definition c_fact (b : bool) : option bool := Some b.
(** [isinstance(D[k], dict)]: the subscript needs [k in D] *)
Definition c_sub (present isdict : bool) : option bool := if present then Some isdict else None.
Definition c_not (c : option bool) : option bool := option_map negb c.
(** [a and b], [a or b]: left to right, short-circuit *)
Definition c_and (a b : option bool) : option bool :=
  match a with None => None | Some false => Some false | Some true => b end.
Definition c_or (a b : option bool) : option bool :=
  match a with None => None | Some true => Some true | Some false => b end.
Definition ite (c : option bool) (a b : outcome) : outcome :=
  match c with None => KeyErr | Some true => a | Some false => b end.
(** a subscript [D[k]] is evaluated at this point of the iteration: KeyError unless [k in D]; the continuation is
    what the rest of the iteration does (stores are [Take] / [Rec] at the leaves; [out[k] = update_config(A[k], B[k])]
    evaluates its arguments left to right) *)
Definition v_guard (present : bool) (o : outcome) : outcome := if present then o else KeyErr.

Definition osome {A} (o : option A) : bool := match o with Some _ => true | None => false end.
Definition oobj (o : option json) : bool := match o with Some v => is_obj v | None => false end.

(** * the function around the step

      OUT = {}
      for K in set(<keys>):  <step>
      return OUT

    read as: both arguments must be dicts ([.keys()] / [in] / iteration on anything else raises - [None], as in
    the model); the loop visits the key set in an arbitrary order [ord]; each visit stores at most one value;
    an exception in any iteration aborts the call ([collect]).  The recursive call is followed only in the
    shape [update_config(input[k], default[k])] (the only shape the model has); any other outcome that is not
    a plain store is read as a failed call - the whole-function lemma needs the step lemma first, and the step
    lemma excludes those outcomes, so this reading is never relied upon. *)
Section Skel.
  Variable ord : list string -> list string.
  Variable step : bool -> bool -> bool -> bool -> outcome.
  Variable loop_keys : list string -> list string -> list string.

  Fixpoint merge_skel (u d : json) {struct u} : option json :=
    match u with
    | JObj us =>
        match d with
        | JObj ds =>
            let value (k : string) : option json :=
              (fix find (l : list (string * json)) : option json :=
                 match l with
                 | [] =>                                             (* k not in input_dict *)
                     match step false (osome (lookup k ds)) false (oobj (lookup k ds)) with
                     | Take SDefault => lookup k ds
                     | _ => None
                     end
                 | (k', v) :: r =>
                     if String.eqb k k' then
                       match step true (osome (lookup k ds)) (is_obj v) (oobj (lookup k ds)) with
                       | Take SInput => Some v
                       | Take SDefault => lookup k ds
                       | Rec SInput SDefault =>
                           match lookup k ds with Some dv => merge_skel v dv | None => None end
                       | _ => None
                       end
                     else find r
                 end) us in
            option_map JObj
              (collect (map (fun k => (k, value k)) (ord (loop_keys (keys us) (keys ds)))))
        | _ => None
        end
    | _ => None
    end.
End Skel.

(** * read_config *)
Inductive parser := PYaml | PJson | PRaise (exc : string).
(** suffix dispatch, then the optional validation ([validate_config] raising = [None]) *)
Definition read_skel (dispatch : string -> parser) (validate_config : json -> bool) (suffix : string)
           (yaml_loaded json_loaded : json) (validate : bool) : option json :=
  let finish (c : json) := if validate then (if validate_config c then Some c else None) else Some c in
  match dispatch suffix with
  | PYaml => finish yaml_loaded
  | PJson => finish json_loaded
  | PRaise _ => None
  end.
