(** General lemmas about the loop skeleton [merge_skel] of ConfigTieBase.v (hand-written, independent of the
    generated file): IF the step function is the model's per-key step on all 16 combinations of the four facts
    and the loop ranges over the union of the two key sets, THEN the skeleton is the model [update_config] of
    JsonModel.v (on every pair of trees, for every enumeration order of the key set; equality of trees with
    dicts as finite maps, [jeq], because the order in which a Python set is enumerated is not fixed). *)
From Coq Require Import List Bool String Permutation.
From Cij Require Import JsonModel Json.
From CijGen Require Import ConfigTieBase.
Import ListNotations.

(** the model's per-key step ([Json.value]) over the four observable facts *)
Definition spec_step (in_input in_default input_is_dict default_is_dict : bool) : outcome :=
  if in_input then
    if in_default then (if input_is_dict && default_is_dict then Rec SInput SDefault else Take SInput)
    else Take SInput
  else if in_default then Take SDefault else KeyErr.

Lemma collect_map_Some (vf : string -> option json) ks r :
  option_map JObj (collect (map (fun k => (k, vf k)) ks)) = Some r ->
  exists rs, r = JObj rs /\ (forall k, lookup k rs = if mem k ks then vf k else None)
             /\ (forall k, In k ks -> vf k <> None).
Proof.
  destruct (collect _) as [rs|] eqn:E; cbn; [|discriminate].
  intros H; inversion H; subst. exists rs. split; [reflexivity|]. split.
  - intros k. rewrite (collect_Some _ _ E), lookup_map_keys. destruct (mem k ks); reflexivity.
  - intros k Hk. apply (collect_all_Some _ _ E k). apply in_map_iff. exists k. split; [reflexivity | exact Hk].
Qed.
Lemma collect_map_defined (vf : string -> option json) ks :
  (forall k, In k ks -> vf k <> None) ->
  exists r, option_map JObj (collect (map (fun k => (k, vf k)) ks)) = Some r.
Proof.
  intros H. destruct (collect_defined (map (fun k => (k, vf k)) ks)) as [rs Hr].
  - intros k o Hin. apply in_map_iff in Hin. destruct Hin as [k' [E Hin]]. inversion E; subst. apply H, Hin.
  - rewrite Hr. eexists; reflexivity.
Qed.

Section SkelThm.
  Variable ord : list string -> list string.
  Hypothesis Hord : key_order ord.
  Variable step : bool -> bool -> bool -> bool -> outcome.
  Hypothesis Hstep : forall a b c d, step a b c d = spec_step a b c d.
  Variable loop_keys : list string -> list string -> list string.
  Hypothesis Hkeys : forall ik dk k, In k (loop_keys ik dk) <-> In k ik \/ In k dk.
  Let skel := merge_skel ord step loop_keys.

  Definition value_skel (us ds : list (string * json)) (k : string) : option json :=
    match lookup k us with
    | None => match step false (osome (lookup k ds)) false (oobj (lookup k ds)) with
              | Take SDefault => lookup k ds
              | _ => None
              end
    | Some v => match step true (osome (lookup k ds)) (is_obj v) (oobj (lookup k ds)) with
                | Take SInput => Some v
                | Take SDefault => lookup k ds
                | Rec SInput SDefault => match lookup k ds with Some dv => skel v dv | None => None end
                | _ => None
                end
    end.

  Lemma skel_unfold us ds :
    skel (JObj us) (JObj ds) =
    option_map JObj (collect (map (fun k => (k, value_skel us ds k)) (ord (loop_keys (keys us) (keys ds))))).
  Proof.
    unfold skel. cbn [merge_skel]. f_equal. f_equal. apply map_ext. intros k. f_equal.
    unfold value_skel. induction us as [|[k' v] r IH]; cbn [lookup]; [reflexivity|].
    destruct (String.eqb k k'); [reflexivity | exact IH].
  Qed.

  (** with the step lemma, the skeleton's per-key value has the shape of the model's [Json.value] *)
  Lemma value_skel_spec us ds k :
    value_skel us ds k =
    match lookup k us with
    | None => lookup k ds
    | Some v => match lookup k ds with
                | None => Some v
                | Some dv => if is_obj v && is_obj dv then skel v dv else Some v
                end
    end.
  Proof using Hstep.
    unfold value_skel.
    destruct (lookup k us) as [v|]; destruct (lookup k ds) as [dv|]; cbn [osome oobj];
      rewrite Hstep; unfold spec_step; cbn [andb]; try reflexivity.
    destruct (is_obj v && is_obj dv); reflexivity.
  Qed.

  Lemma in_loop_keys (us ds : list (string * json)) k :
    In k (ord (loop_keys (keys us) (keys ds))) <-> In k (keys us) \/ In k (keys ds).
  Proof using Hord Hkeys. rewrite (key_order_In ord Hord). apply Hkeys. Qed.

  Theorem skel_is_model : forall u d, orel jeq (skel u d) (update_config ord u d).
  Proof using Hord Hstep Hkeys.
    induction u using json_ind'; intros d; try (cbn; constructor).
    destruct d as [| | | | |ds]; try (cbn; constructor).
    rename l into us.
    assert (V : forall k, orel jeq (value_skel us ds k) (value ord us ds k)).
    { intros k. rewrite value_skel_spec. unfold value.
      destruct (lookup k us) as [v|] eqn:E; [|apply orel_refl_jeq].
      destruct (lookup k ds) as [dv|]; [|apply orel_refl_jeq].
      destruct (is_obj v && is_obj dv); [|apply orel_refl_jeq].
      apply lookup_In in E. rewrite Forall_forall in H. exact (H _ E dv). }
    rewrite skel_unfold.
    destruct (option_map JObj (collect (map (fun k => (k, value_skel us ds k)) (ord (loop_keys (keys us) (keys ds))))))
      as [r|] eqn:E1;
      destruct (update_config ord (JObj us) (JObj ds)) as [r'|] eqn:E2.
    - apply collect_map_Some in E1. apply (update_lookup ord Hord) in E2.
      destruct E1 as [rs [-> [L1 _]]], E2 as [rs' [-> [L2 _]]]. constructor. constructor.
      intros k. rewrite L1, L2. destruct (mem k _) eqn:M; [apply V|].
      rewrite value_absent; [constructor|]. rewrite <- in_loop_keys, <- mem_In, M. discriminate.
    - exfalso. apply collect_map_Some in E1. destruct E1 as [rs [-> [L1 D1]]].
      destruct (update_defined ord Hord us ds) as [r' Hr']; [|congruence].
      intros k Hk Hn. specialize (V k). rewrite Hn in V. apply orel_None_inv_r in V.
      apply (D1 k); [apply in_loop_keys; exact Hk | exact V].
    - exfalso. apply (update_lookup ord Hord) in E2. destruct E2 as [rs [-> [L2 D2]]].
      destruct (collect_map_defined (value_skel us ds) (ord (loop_keys (keys us) (keys ds)))) as [r Hr]; [|congruence].
      intros k Hk Hn. specialize (V k). rewrite Hn in V. apply orel_None_inv in V.
      apply (D2 k); [apply in_loop_keys; exact Hk | exact V].
    - constructor.
  Qed.

  (** transport of the C16 totality theorem to the skeleton *)
  Corollary skel_total : forall u d, is_obj u = true -> is_obj d = true -> exists r, skel u d = Some r.
  Proof using Hord Hstep Hkeys.
    intros u d Hu Hd. destruct (merge_total_l ord Hord u d Hu Hd) as [r Hr].
    pose proof (skel_is_model u d) as S. rewrite Hr in S. inversion S; subst. eexists; reflexivity.
  Qed.
End SkelThm.

(** when the loop ranges over literally [input keys ++ default keys] (the model's own enumeration) the two
    functions are EQUAL, for every [ord] (no hypothesis on the enumeration order) *)
Section SkelExact.
  Variable ord : list string -> list string.
  Variable step : bool -> bool -> bool -> bool -> outcome.
  Hypothesis Hstep : forall a b c d, step a b c d = spec_step a b c d.
  Variable loop_keys : list string -> list string -> list string.
  Hypothesis Hk : forall ik dk, loop_keys ik dk = ik ++ dk.

  Theorem skel_is_model_exact : forall u d,
    merge_skel ord step loop_keys u d = update_config ord u d.
  Proof using Hstep Hk.
    induction u using json_ind'; intros d; try reflexivity.
    destruct d as [| | | | |ds]; try reflexivity.
    rename l into us.
    change (merge_skel ord step loop_keys (JObj us) (JObj ds))
      with (let skel := merge_skel ord step loop_keys in skel (JObj us) (JObj ds)).
    cbv zeta. rewrite (skel_unfold ord step loop_keys), update_unfold, Hk.
    f_equal. f_equal. apply map_ext_in. intros k _. f_equal.
    rewrite (value_skel_spec ord step Hstep). unfold value.
    destruct (lookup k us) as [v|] eqn:E; [|reflexivity].
    destruct (lookup k ds) as [dv|]; [|reflexivity].
    destruct (is_obj v && is_obj dv); [|reflexivity].
    apply lookup_In in E. rewrite Forall_forall in H. exact (H _ E dv).
  Qed.
End SkelExact.
