(** static tie of C16, group MERGE-FUNCTION: update_config as regenerated ([g_update_config] = the loop skeleton
    around the regenerated step and key expression) is the model [JsonModel.update_config] on EVERY pair of
    trees, and apply_default_config passes (user, packaged defaults) in this order. *)
From Coq Require Import List Bool String Permutation.
From Cij Require Import JsonModel Json.
From CijGen Require Import ConfigTieBase ConfigSkel Gen_config.
Import ListNotations.

Lemma tie_step : forall a b c d, g_step a b c d = spec_step a b c d.
Proof. intros [|] [|] [|] [|]; reflexivity. Qed.
Lemma tie_loop_keys : forall ik dk k, In k (g_loop_keys ik dk) <-> In k ik \/ In k dk.
Proof. intros ik dk k. unfold g_loop_keys. rewrite ?in_app_iff. cbn [In]. tauto. Qed.

(** for every enumeration order of the key set (hash seed): same failures, extensionally equal results *)
Theorem tie_update_config : forall ord, key_order ord ->
  forall u d, orel jeq (g_update_config ord u d) (update_config ord u d).
Proof. intros ord Hord. exact (skel_is_model ord Hord g_step tie_step g_loop_keys tie_loop_keys). Qed.

(** ... and literally the same function whenever the code enumerates [input keys ++ default keys] *)
Theorem tie_update_config_exact : (forall ik dk, g_loop_keys ik dk = ik ++ dk) ->
  forall ord u d, g_update_config ord u d = update_config ord u d.
Proof. intros Hk ord. exact (skel_is_model_exact ord g_step tie_step g_loop_keys Hk). Qed.

(** C16 merge_total, transported to the regenerated function *)
Corollary tie_update_config_total : forall ord, key_order ord ->
  forall u d, is_obj u = true -> is_obj d = true -> exists r, g_update_config ord u d = Some r.
Proof. intros ord Hord. exact (skel_total ord Hord g_step tie_step g_loop_keys tie_loop_keys). Qed.

(** apply_default_config(input) = update_config(input, packaged): USER tree first *)
Theorem tie_apply_default_config : forall packaged u,
  orel jeq (g_apply_default_config dedup packaged u) (apply_default_config packaged u).
Proof.
  intros packaged u. unfold g_apply_default_config, apply_default_config.
  exact (tie_update_config dedup key_order_dedup u packaged).
Qed.

(** the packaged file is the one translate_schema.py turns into Gen_defaults.default_settings *)
Lemma tie_default_file : g_default_file = "default/settings.yaml"%string.
Proof. reflexivity. Qed.

Theorem tie_group_merge_function :
  (forall ord, key_order ord -> forall u d, orel jeq (g_update_config ord u d) (update_config ord u d))
  /\ (forall packaged u, orel jeq (g_apply_default_config dedup packaged u) (apply_default_config packaged u))
  /\ g_default_file = "default/settings.yaml"%string.
Proof. split; [exact tie_update_config | split; [exact tie_apply_default_config | exact tie_default_file]]. Qed.
Print Assumptions tie_group_merge_function.
