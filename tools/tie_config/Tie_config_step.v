(** static tie of C16, group MERGE-STEP: the if/elif chain of update_config's loop body, regenerated as the
    decision function [g_step], equals the model's per-key step on all 16 combinations of the observable facts,
    and the loop ranges over the union of the two key sets. *)
From Coq Require Import List Bool String.
From Cij Require Import JsonModel Json.
From CijGen Require Import ConfigTieBase ConfigSkel Gen_config.
Import ListNotations.

(** k absent from the input -> default value; absent from the default -> input value; both present: recursive
    merge update_config(input[k], default[k]) iff BOTH values are dicts, else the input value (leaf or subtree);
    absent from both (unreachable: the loop ranges over the union) -> KeyError *)
Lemma tie_step : forall in_input in_default input_is_dict default_is_dict,
  g_step in_input in_default input_is_dict default_is_dict
  = spec_step in_input in_default input_is_dict default_is_dict.
Proof. intros [|] [|] [|] [|]; reflexivity. Qed.

(** [spec_step] IS the model's per-key step [Json.value] (the [value] of JsonModel.update_config written with
    lookups), for every pair of dicts and every key *)
Definition run_outcome (ord : list string -> list string) (us ds : list (string * json)) (k : string) (o : outcome)
  : option json :=
  match o with
  | Take SInput => lookup k us
  | Take SDefault => lookup k ds
  | Rec SInput SDefault =>
      match lookup k us, lookup k ds with Some v, Some dv => update_config ord v dv | _, _ => None end
  | _ => None
  end.
Lemma tie_step_is_model_value : forall ord us ds k,
  value ord us ds k
  = run_outcome ord us ds k
      (g_step (osome (lookup k us)) (osome (lookup k ds)) (oobj (lookup k us)) (oobj (lookup k ds))).
Proof.
  intros ord us ds k. rewrite tie_step. unfold value, spec_step, run_outcome.
  destruct (lookup k us) as [v|]; destruct (lookup k ds) as [dv|]; cbn [osome oobj]; try reflexivity.
  destruct (is_obj v && is_obj dv); reflexivity.
Qed.

Lemma tie_loop_keys : forall ik dk k, In k (g_loop_keys ik dk) <-> In k ik \/ In k dk.
Proof. intros ik dk k. unfold g_loop_keys. rewrite ?in_app_iff. cbn [In]. tauto. Qed.

Theorem tie_group_merge_step :
  (forall a b c d, g_step a b c d = spec_step a b c d)
  /\ (forall ord us ds k,
        value ord us ds k
        = run_outcome ord us ds k
            (g_step (osome (lookup k us)) (osome (lookup k ds)) (oobj (lookup k us)) (oobj (lookup k ds))))
  /\ (forall ik dk k, In k (g_loop_keys ik dk) <-> In k ik \/ In k dk).
Proof. split; [exact tie_step | split; [exact tie_step_is_model_value | exact tie_loop_keys]]. Qed.
Print Assumptions tie_group_merge_step.
