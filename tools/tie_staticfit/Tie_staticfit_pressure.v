(** static tie of C05, group STATIC-PRESSURE (data flow): Calculator._calculate_pressure_static, regenerated over
    oracles, is the model's [TotalModel.static_p] data flow: qha's polynomial_least_square_fitting is given the
    Eulerian strains of the PHONON file's volumes relative to its first volume and the static energies, order 3,
    and is evaluated on the strains of the grid volumes relative to the same reference; the result is
    - gradient(E) / gradient(V) on the grid. *)
From Coq Require Import Reals ZArith List Bool.
From Cij Require Import Ops ROps PolyModel StaticModel TotalModel.
From CijGen Require Import StaticFitTieBase Gen_staticfit.
Import ListNotations.

Definition mkO (polyfit : list R -> list R -> Z -> list R) (g : R)
           (plsq : list R -> list R -> list R -> Z -> list R) (gradient : list R -> list R) : oracles R :=
  {| o_polyfit := polyfit; o_polyval := @polyval R ROps; o_eulerian := @eulerian R ROps;
     o_from_gpa := @from_gpa R ROps g; o_plsq := plsq; o_gradient := gradient |}.

Ltac list_eq := first [ reflexivity | unfold eul; reflexivity | vm_compute; reflexivity ].

Theorem tie_static_p : forall polyfit g plsq (ce qvols ens varr : list R),
  (* the oracle: on the model's certificate data the fitting routine evaluates the polynomial [ce] *)
  (forall xnew, plsq (@eul R ROps (s_nth 0 qvols) qvols) ens xnew (Z.of_nat fit_deg) = map (@polyval R ROps ce) xnew) ->
  g_static_p (mkO polyfit g plsq (@s_grad R ROps)) qvols ens varr g_static_p_default_order
  = @s_pgrid R ROps (@static_energy R ROps ce qvols varr) varr.
Proof.
  intros polyfit g plsq ce qvols ens varr Hplsq.
  unfold g_static_p, g_static_p_default_order, s_pgrid, static_energy, mkO.
  cbn [o_polyfit o_polyval o_eulerian o_from_gpa o_plsq o_gradient]. cbv zeta.
  match goal with
  | |- context [plsq ?X ?Y ?N ?D] =>
      replace (plsq X Y N D) with (map (@polyval R ROps ce) N) by (rewrite <- Hplsq; f_equal; list_eq)
  end.
  (* both sides: one zipw over (gradient E, gradient V); the pointwise functions agree as real expressions
     (e.g. -(x / y) = (-x) / y, no side condition) *)
  rewrite ?map_map. repeat rewrite ?map_zipw, ?zipw_map_l, ?zipw_map_r.
  apply zipw_ext. intros x y. first [reflexivity | rops; unfold Rdiv; ring].
Qed.

Corollary tie_static_p_model : forall polyfit g plsq tol (ce qvols ens varr r : list R),
  (forall xnew, plsq (@eul R ROps (s_nth 0 qvols) qvols) ens xnew (Z.of_nat fit_deg) = map (@polyval R ROps ce) xnew) ->
  @static_p R ROps tol ce qvols ens varr = Some r ->
  r = g_static_p (mkO polyfit g plsq (@s_grad R ROps)) qvols ens varr g_static_p_default_order.
Proof.
  intros polyfit g plsq tol ce qvols ens varr r Hplsq H. rewrite (tie_static_p polyfit g plsq ce qvols ens varr Hplsq).
  unfold static_p in H. destruct (cert_ok _ _ _ _ _); [|discriminate]. congruence.
Qed.

Theorem tie_group_static_pressure :
  forall polyfit g plsq (ce qvols ens varr : list R),
    (forall xnew, plsq (@eul R ROps (s_nth 0 qvols) qvols) ens xnew (Z.of_nat fit_deg) = map (@polyval R ROps ce) xnew) ->
    g_static_p (mkO polyfit g plsq (@s_grad R ROps)) qvols ens varr g_static_p_default_order
    = @s_pgrid R ROps (@static_energy R ROps ce qvols varr) varr.
Proof. exact tie_static_p. Qed.
Print Assumptions tie_group_static_pressure.
