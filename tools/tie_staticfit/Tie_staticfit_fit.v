(** static tie of C05, group STATIC-FIT (data flow): FullThermalElasticModulus.get_static_modulus / fit_modulus,
    regenerated over oracles, is the model's static part [TotalModel.fit_with] at the coefficient vector that
    numpy.polyfit returns for EXACTLY the data the model certifies ([fit_cert]):
        x = Eulerian strains of the TABLE's own volumes relative to its first volume,
        y = table volumes * moduli (converted from GPa BEFORE the fit),   deg = order + 1 = 3,
    evaluated on the strains of the GRID volumes relative to the same reference and divided by the grid volumes. *)
From Coq Require Import Reals ZArith List Bool.
From Cij Require Import Ops ROps PolyModel StaticModel TotalModel.
From CijGen Require Import StaticFitTieBase Gen_staticfit.
Import ListNotations.

Definition mkO (polyfit : list R -> list R -> Z -> list R) (g : R)
           (plsq : list R -> list R -> list R -> Z -> list R) (gradient : list R -> list R) : oracles R :=
  {| o_polyfit := polyfit; o_polyval := @polyval R ROps; o_eulerian := @eulerian R ROps;
     o_from_gpa := @from_gpa R ROps g; o_plsq := plsq; o_gradient := gradient |}.

Lemma Rmult_comm' (x y : R) : @mul R ROps x y = @mul R ROps y x.
Proof. rops. apply Rmult_comm. Qed.
Ltac list_eq :=
  first [ reflexivity
        | unfold eul; reflexivity
        | apply (zipw_comm (@mul R ROps) Rmult_comm')
        | vm_compute; reflexivity ].

(** the coefficient vector the code obtains: polyfit on the model's certificate data *)
Definition model_coeffs (polyfit : list R -> list R -> Z -> list R) (g : R) (vols col : list R) : list R :=
  polyfit (@eul R ROps (s_nth 0 vols) vols) (zipw mul vols (map (@from_gpa R ROps g) col)) (Z.of_nat fit_deg).

Theorem tie_static_fit : forall polyfit g plsq gradient (vols varr col : list R),
  g_get_static_modulus (mkO polyfit g plsq gradient) vols varr col
  = @fit_with R ROps (model_coeffs polyfit g vols col) vols varr.
Proof.
  intros polyfit g plsq gradient vols varr col.
  remember (model_coeffs polyfit g vols col) as c eqn:Ec.
  unfold g_get_static_modulus, g_fit_modulus, g_fit_default_order, fit_with, mkO.
  cbn [o_polyfit o_polyval o_eulerian o_from_gpa o_plsq o_gradient]. cbv zeta.
  (* the only polyfit call left in the goal is the code's: it must be the model's call *)
  match goal with
  | |- context [polyfit ?X ?Y ?D] =>
      replace (polyfit X Y D) with c by (rewrite Ec; unfold model_coeffs; f_equal; list_eq)
  end.
  rewrite map_map, zipw_map_self. apply map_ext. intros v. first [reflexivity | rops; unfold Rdiv; ring].
Qed.

(** whenever the model's static column is defined (the coefficients pass the least-squares certificate), it IS the
    regenerated function's value *)
Corollary tie_static_col : forall polyfit g plsq gradient tol (vols varr col r : list R),
  @static_col R ROps tol g (model_coeffs polyfit g vols col) vols varr col = Some r ->
  r = g_get_static_modulus (mkO polyfit g plsq gradient) vols varr col.
Proof.
  intros polyfit g plsq gradient tol vols varr col r H. rewrite tie_static_fit.
  unfold static_col, fit_modulus_with in H. destruct (fit_cert _ _ _ _); [|discriminate]. congruence.
Qed.

(** the degree handed to polyfit by the default call *)
Lemma tie_fit_degree : (g_fit_default_order + 1)%Z = Z.of_nat fit_deg.
Proof. reflexivity. Qed.

Theorem tie_group_static_fit :
  (forall polyfit g plsq gradient (vols varr col : list R),
     g_get_static_modulus (mkO polyfit g plsq gradient) vols varr col
     = @fit_with R ROps (model_coeffs polyfit g vols col) vols varr)
  /\ (g_fit_default_order + 1)%Z = Z.of_nat fit_deg.
Proof. split; [exact tie_static_fit | exact tie_fit_degree]. Qed.
Print Assumptions tie_group_static_fit.
