(** Shared vocabulary of the static data-flow tie of C05's static part; copied into the per-run directory by
    tools/props/staticfit_static.py (logical path CijGen).  Hand-written.  Definitions and two list lemmas. *)
From Coq Require Import ZArith List.
From Cij Require Import Ops.
Import ListNotations.

(** the library calls of the translated lines, as oracles *)
Record oracles (F : Type) := {
  o_polyfit : list F -> list F -> Z -> list F;             (* numpy.polyfit(x, y, deg) -> coefficients *)
  o_polyval : list F -> F -> F;                            (* numpy.polyval(p, .), pointwise *)
  o_eulerian : F -> F -> F;                                (* qha calculate_eulerian_strain(v0, .), pointwise *)
  o_from_gpa : F -> F;                                     (* cij.util._from_gpa, pointwise *)
  o_plsq : list F -> list F -> list F -> Z -> list F;      (* qha polynomial_least_square_fitting(x, y, x_new, order) *)
  o_gradient : list F -> list F;                           (* numpy.gradient (unit spacing) *)
}.
Arguments o_polyfit {F}. Arguments o_polyval {F}. Arguments o_eulerian {F}. Arguments o_from_gpa {F}.
Arguments o_plsq {F}. Arguments o_gradient {F}.

Lemma zipw_map_self {A B C} (f : B -> A -> C) (g : A -> B) (l : list A) :
  zipw f (map g l) l = map (fun v => f (g v) v) l.
Proof. induction l as [|x l IH]; cbn; [reflexivity|]. rewrite IH. reflexivity. Qed.
Lemma zipw_map_l {A A' B C} (f : A' -> B -> C) (g : A -> A') (a : list A) (b : list B) :
  zipw f (map g a) b = zipw (fun x y => f (g x) y) a b.
Proof. revert b. induction a as [|x a IH]; intros [|y b]; cbn; try reflexivity. rewrite IH. reflexivity. Qed.
Lemma zipw_comm {A C} (f : A -> A -> C) (Hf : forall x y, f x y = f y x) (a b : list A) :
  zipw f a b = zipw f b a.
Proof. revert b. induction a as [|x a IH]; intros [|y b]; cbn; try reflexivity. rewrite Hf, IH. reflexivity. Qed.
Lemma zipw_map_r {A B B' C} (f : A -> B' -> C) (g : B -> B') (a : list A) (b : list B) :
  zipw f a (map g b) = zipw (fun x y => f x (g y)) a b.
Proof. revert b. induction a as [|x a IH]; intros [|y b]; cbn; try reflexivity. rewrite IH. reflexivity. Qed.
Lemma map_zipw {A B C D} (h : C -> D) (f : A -> B -> C) (a : list A) (b : list B) :
  map h (zipw f a b) = zipw (fun x y => h (f x y)) a b.
Proof. revert b. induction a as [|x a IH]; intros [|y b]; cbn; try reflexivity. rewrite IH. reflexivity. Qed.
Lemma zipw_ext {A B C} (f g : A -> B -> C) (H : forall x y, f x y = g x y) (a : list A) (b : list B) :
  zipw f a b = zipw g a b.
Proof. revert b. induction a as [|x a IH]; intros [|y b]; cbn; try reflexivity. rewrite H, IH. reflexivity. Qed.
