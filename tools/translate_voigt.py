"""Fail-closed translator  cij/util/voigt.py  ->  Gen_voigt.v  (Gallina over Z).

The module is read by a small SYMBOLIC EVALUATOR, not by body templates: every function is executed on
symbolic arguments; what can be decided from the kind of a value (None / int / str / tuple length /
class) is decided during translation, everything else becomes a Gallina term in the exception monad
`option` (None = "the Python code raises").  Calls of the interface functions (from_voigt, from_standard,
.voigt of a strain, the three predicates, multiplicity) stay calls of the generated definitions; every
other function, method, property, lambda and private module-level helper is inlined.

Accepted grammar (anything else raises Untranslatable naming line and construct):
  module     docstring, imports, VOIGT_TO_STANDARD = {int: (int, int), ...} (distinct keys and values),
             STANDARD_TO_VOIGT = its inverse as dict(generator/list comprehension) or dict comprehension,
             constants NAME = literal, aliases NAME = Class, class and function definitions; every
             module-level name bound once
  classes    the two NamedTuples with fields i, j; methods decorated by classmethod / property /
             staticmethod or undecorated
  statements return, raise Exc(...) [= None], if / elif / else with early returns, assert,
             name = e, name: T = e, (a, b) = e, docstrings
  conditions is / is not None, type(x) == / is / != / is not T, isinstance(x, int|str), == != < <= > >=
             (also chained) on integers, == != on strains / moduli / booleans, and / or / not
             (short-circuit), x in / not in {int, ...}, x in / not in VOIGT_TO_STANDARD[.keys()|.values()],
             STANDARD_TO_VOIGT[.keys()|.values()], x in (int, ...), a if c else b, any(...) / all(...) over a
             generator (lazy, Python's short-circuit order), a list comprehension (eager) or a tuple, on a
             sequence of known length (tuple / list display, a strain, a modulus key): unrolled into || / &&
  integers   literals, + - * unary -, a << b with b a boolean or a provably non-negative term
             (1 << a << b, 1 << (x + y + z), 1 << sum((b1, b2, b3))), int(bool), int(x), booleans used as
             integers, sum(...) of integers / booleans over a tuple / list / comprehension on a sequence of known
             length (optional integer start); a property body
             that is an if-chain over total scalar results is folded into one (if c then a else b) term
  data       VOIGT_TO_STANDARD[x] (KeyError = None), STANDARD_TO_VOIGT[x], tuples / lists with *splices,
             x[const], fields and properties of the two classes, tuple(x), list(x), len(x),
             sorted((a, b)) on integers, sorted((a, b), key=lambda e: ...) and key=attrgetter("name")
             on strains (the key is translated, not matched), sorted((a, b)) on strains (NamedTuple
             order: translated as such, a DIFFERENT model), str(int), *(int(k) for k in s), *map(int, s),
             *[int(k) for k in s], cls(...), calls with positional / keyword / default / *args binding
             (arity errors = None), recursion (re-entry with identical arguments = RecursionError = None)
  ignored    __repr__, calc_type, the Enum class and anything no entry point reaches (except that NO function of
             the file may assign to / mutate module-level names, cls or self: purity gate); the argument of a
             raise is not evaluated; f-strings, "..." % x and "...".format(x) are opaque message values (their
             sub-expressions are evaluated, the formatting itself is assumed not to raise; any use other than
             binding them to a local fails closed)
Entry points (one Gallina definition each; same names and types as ever):
  strain_create args   = StrainRepresentation._(*args), args a list of ints of any length
  mod_create args      = ModulusRepresentation._(*args), likewise - except a single int, which is
  mod_create_int n     = ModulusRepresentation._(n)
  the string spellings _("ijkl") are CHECKED to translate to exactly the same term as _(*digits), so the
  correspondence shards may spell them as lists.
"""
import ast


class Untranslatable(Exception):
    pass


def bail(node, why=""):
    src = ""
    try:
        src = ast.unparse(node)
        if len(src) > 80:
            src = src[:77] + "..."
    except Exception:
        pass
    raise Untranslatable("translator cannot read %s at line %s%s%s" % (
        type(node).__name__, getattr(node, "lineno", "?"),
        (" (" + why + ")") if why else "", (": " + src) if src else ""))


def z(n):
    return "(%d)" % n if n < 0 else str(n)


MAXN = 5          # list lengths 0..MAXN are enumerated, longer lists are treated as one symbolic case

# ---------------------------------------------------------------------------------------------------
# terms: nested tuples.  Types: 'Z', 'B', 'S' (Z * Z: strain, sorted int pair), 'M' (strain * strain)
# ---------------------------------------------------------------------------------------------------


def ty(t):
    k = t[0]
    if k in ("zc", "add", "sub", "mul", "shl", "b2z", "sv", "mult", "longlen"):
        return "Z"
    if k in ("bc", "and", "or", "not", "zeq", "zlt", "zle", "seq", "meq", "beq", "zmem", "keymem", "valmem", "pred"):
        return "B"
    if k == "var":
        return t[2]
    if k in ("spair", "sort2", "sort2byz"):
        return "S"
    if k in ("mpair", "sort2by", "sort2lex"):
        return "M"
    if k in ("fst", "snd"):
        return {"S": "Z", "M": "S"}[ty(t[1])]
    if k == "ite":
        return ty(t[2])
    raise AssertionError(t)


def zc(n):
    return ("zc", n)


def var(uid, t):
    return ("var", uid, t)


def mk_pair(a, b):
    """(fst x, snd x) = x"""
    if a[0] == "fst" and b[0] == "snd" and a[1] == b[1]:
        return a[1]
    return ("spair" if ty(a) == "Z" else "mpair", a, b)


def mk_fst(t):
    return t[1] if t[0] in ("spair", "mpair") else ("fst", t)


def mk_snd(t):
    return t[2] if t[0] in ("spair", "mpair") else ("snd", t)


def mk_not(b):
    if b[0] == "bc":
        return ("bc", not b[1])
    return ("not", b)


def mk_bool(op, parts):
    """n-ary && / || with constant folding, flattening nested operators of the same kind"""
    unit = op == "and"
    out = []
    for p in parts:
        if p[0] == "bc":
            if p[1] == unit:
                continue
            return ("bc", not unit)
        if p[0] == op:
            out.extend(p[1])
        else:
            out.append(p)
    if not out:
        return ("bc", unit)
    return out[0] if len(out) == 1 else (op, out)


def mk_arith(op, a, b):
    if a[0] == "zc" and b[0] == "zc":
        return zc({"add": a[1] + b[1], "sub": a[1] - b[1], "mul": a[1] * b[1]}[op])
    return (op, a, b)


def mk_cmp(op, a, b):
    if a[0] == "zc" and b[0] == "zc":
        return ("bc", {"zeq": a[1] == b[1], "zlt": a[1] < b[1], "zle": a[1] <= b[1]}[op])
    return (op, a, b)


def nonneg(t):
    k = t[0]
    if k == "zc":
        return t[1] >= 0
    if k == "b2z":
        return True
    if k in ("add", "mul", "shl"):
        return nonneg(t[1]) and nonneg(t[2])
    if k == "ite":
        return nonneg(t[2]) and nonneg(t[3])
    return False


def fv(t, acc):
    """free variable uids of a term"""
    if t[0] == "var":
        acc.add(t[1])
        return acc
    if t[0] in ("sort2by", "sort2byz"):
        inner = fv(t[2], set())
        inner.discard(t[1])
        acc |= inner
        fv(t[3], acc)
        fv(t[4], acc)
        return acc
    for x in t[1:]:
        if isinstance(x, tuple) and x and isinstance(x[0], str):
            fv(x, acc)
        elif isinstance(x, list):
            for y in x:
                if isinstance(y, tuple):
                    fv(y, acc)
    return acc


def strip(s):
    """drop one pair of outer parentheses if they enclose the whole string"""
    if not (s.startswith("(") and s.endswith(")")):
        return s
    depth = 0
    for n, ch in enumerate(s):
        if ch == "(":
            depth += 1
        elif ch == ")":
            depth -= 1
            if depth == 0 and n != len(s) - 1:
                return s
    return s[1:-1]


class Printer:
    def __init__(self, names):
        self.names = names          # uid -> printed name
        self.need_ltb = False

    def t(self, t):
        k = t[0]
        p = self.t
        if k == "zc":
            return z(t[1])
        if k == "var":
            return self.names[t[1]]
        if k == "bc":
            return "true" if t[1] else "false"
        if k in ("add", "sub", "mul"):
            sym = {"add": "+", "sub": "-", "mul": "*"}[k]
            if k == "add":      # a + b + c is printed flat (left-nested sums only)
                parts, cur = [], t
                while cur[0] == "add":
                    parts.append(cur[2])
                    cur = cur[1]
                parts.append(cur)
                return "(" + " + ".join(p(x) for x in reversed(parts)) + ")"
            return "(%s %s %s)" % (p(t[1]), sym, p(t[2]))
        if k == "shl":
            return "(Z.shiftl %s %s)" % (p(t[1]), p(t[2]))
        if k == "b2z":
            return "(b2z %s)" % p(t[1])
        if k in ("and", "or"):
            return "(" + (" && " if k == "and" else " || ").join(p(x) for x in t[1]) + ")"
        if k == "not":
            return "(negb %s)" % p(t[1])
        if k in ("zeq", "zlt", "zle"):
            return "(%s %s %s)" % (p(t[1]), {"zeq": "=?", "zlt": "<?", "zle": "<=?"}[k], p(t[2]))
        if k == "seq":
            return "(strain_eqb %s %s)" % (p(t[1]), p(t[2]))
        if k == "meq":
            return "(modkey_eqb %s %s)" % (p(t[1]), p(t[2]))
        if k == "beq":
            return "(Bool.eqb %s %s)" % (p(t[1]), p(t[2]))
        if k == "zmem":
            return "(zmem %s [%s])" % (p(t[1]), "; ".join(z(x) for x in t[2]))
        if k == "keymem":
            return "(zmem %s (map fst voigt_table))" % p(t[1])
        if k == "valmem":
            return "(smem %s (map snd voigt_table))" % p(t[1])
        if k in ("spair", "mpair"):
            return "(%s, %s)" % (strip(p(t[1])), strip(p(t[2])))
        if k in ("fst", "snd"):
            return "(%s %s)" % (k, p(t[1]))
        if k == "sv":
            return "(sv %s)" % p(t[1])
        if k == "pred":
            return "(%s %s)" % (t[1], p(t[2]))
        if k == "mult":
            return "(multiplicity %s)" % p(t[1])
        if k == "sort2":
            return "(sort2 %s %s)" % (p(t[1]), p(t[2]))
        if k in ("sort2by", "sort2byz"):
            uid, body = t[1], t[2]
            if body[0] in ("sv",) and body[1] == ("var", uid, "S"):
                key = "sv"                                           # eta
            else:
                bound = "e"
                used = {self.names.get(u) for u in fv(body, set()) if u != uid}
                while bound in used:
                    bound += "'"
                old = self.names.get(uid)
                self.names[uid] = bound
                key = "(fun %s => %s)" % (bound, strip(p(body)))
                if old is None:
                    del self.names[uid]
                else:
                    self.names[uid] = old
            return "(sort2_by %s %s %s)" % (key, p(t[3]), p(t[4]))
        if k == "ite":
            return "(if %s then %s else %s)" % (strip(p(t[1])), p(t[2]), p(t[3]))
        if k == "sort2lex":
            self.need_ltb = True
            return "(sort2_lex %s %s)" % (p(t[1]), p(t[2]))
        raise AssertionError(t)


LEX_DEFS = """(* Python's order of two NamedTuples of ints, and sorted((a, b)) WITHOUT a key (stable) *)
Definition strain_ltb (a b : strain) : bool := (fst a <? fst b) || ((fst a =? fst b) && (snd a <? snd b)).
Definition sort2_lex (a b : strain) : strain * strain := if strain_ltb b a then (b, a) else (a, b).
"""

# ---------------------------------------------------------------------------------------------------
# abstract Python values
# ---------------------------------------------------------------------------------------------------


class V:
    fields = ()

    def __init__(self, *a):
        assert len(a) == len(self.fields), (self, a)
        for n, x in zip(self.fields, a):
            setattr(self, n, x)

    def key(self):
        def k(x):
            if isinstance(x, V):
                return x.key()
            if isinstance(x, (list, tuple)):
                return tuple(k(y) for y in x)
            if isinstance(x, (ast.AST, dict)):
                return id(x)
            return x
        return (type(self).__name__,) + tuple(k(getattr(self, n)) for n in self.fields)

    def __repr__(self):
        return "%s%r" % (type(self).__name__, tuple(getattr(self, n) for n in self.fields))


class VInt(V):
    fields = ("t",)


class VBool(V):
    fields = ("t",)


class VNone(V):
    pass


class VStr(V):              # kind 'of_int': str(t);  'of_list': digit string whose ints are the list lv
    fields = ("kind", "x")


class VStrConst(V):
    fields = ("s",)


class VTuple(V):            # tuple / list of known length
    fields = ("items",)


class VList(V):             # list of ints of unknown length: ("listvar", name) | ("digits", zterm)
    fields = ("lv",)


class VLong(V):             # a sequence with more than MAXN elements
    pass


class VStrain(V):
    fields = ("t",)


class VMod(V):
    fields = ("t",)


class VPair(V):             # a 2-element list/tuple given by a pair-typed term (sorted(...), table entry)
    fields = ("t",)


class VSet(V):
    fields = ("ints",)


class VDict(V):             # 'V2S' | 'S2V'
    fields = ("which",)


class VDictView(V):         # ('V2S'|'S2V', 'keys'|'values')
    fields = ("which", "view")


class VDictMethod(V):
    fields = ("which", "view")


class VClass(V):
    fields = ("name",)


class VType(V):
    fields = ("name",)


class VBuiltin(V):
    fields = ("name",)


class VFunc(V):             # module-level function / unbound method
    fields = ("fn",)


class VMethod(V):           # bound method: first parameter = bound
    fields = ("cname", "fn", "bound")


class VLambda(V):
    fields = ("node", "env")


class VAttrGetter(V):
    fields = ("name",)


class VOpaque(V):           # bound name whose value is outside the grammar: any use fails closed
    fields = ("what",)


TYPE_NAMES = ("int", "str", "bool", "tuple", "list", "dict", "set", "float")
BUILTINS = TYPE_NAMES + ("type", "isinstance", "len", "sorted", "map", "any", "all", "sum")
MODELLED = ("StrainRepresentation", "ModulusRepresentation")
INTERFACE = {("StrainRepresentation", "from_voigt"): ("strain_from_voigt", "S"),
             ("StrainRepresentation", "from_standard"): ("strain_from_standard", "S"),
             ("ModulusRepresentation", "from_voigt"): ("mod_from_voigt", "M"),
             ("ModulusRepresentation", "from_standard"): ("mod_from_standard", "M")}
PREDICATES = ("is_shear", "is_longitudinal", "is_off_diagonal")

# ---------------------------------------------------------------------------------------------------
# computation trees (exception monad with case splits)
#   ("leaf", v) | ("fail",) | ("if", b, t1, t2) | ("bind", call, uid, ty, sub) |
#   ("let", (uid1, uid2), (hint1, hint2), term, sub) | ("lmatch", lv, {n: (uids, sub)}, default, cut)
#   call: ("call", name, [terms]) | ("tlookup", z) | ("rlookup", s)
# ---------------------------------------------------------------------------------------------------
FAIL = ("fail",)


def leaf(v):
    return ("leaf", v)


def bind(tree, f):
    k = tree[0]
    if k == "leaf":
        return f(tree[1])
    if k == "fail":
        return FAIL
    if k == "if":
        return ("if", tree[1], bind(tree[2], f), bind(tree[3], f))
    if k == "bind":
        return ("bind", tree[1], tree[2], tree[3], bind(tree[4], f))
    if k == "let":
        return ("let", tree[1], tree[2], tree[3], bind(tree[4], f))
    if k == "lmatch":
        return ("lmatch", tree[1], {n: (us, bind(sub, f)) for n, (us, sub) in tree[2].items()},
                bind(tree[3], f), tree[4])
    raise AssertionError(tree)


def body_no_doc(stmts):
    return [s for s in stmts if not (isinstance(s, ast.Expr) and isinstance(s.value, ast.Constant))]


class Ev:
    def __init__(self, mod):
        self.nuid = 0
        self.stack = []
        self.order_hint = {}
        self.cut = False
        self.globals = {}
        self.classes = {}
        self.table = None
        self.scan(mod)

    def fresh(self):
        self.nuid += 1
        return "#%d" % self.nuid

    # ---- module ---------------------------------------------------------------------------------
    def bindg(self, name, v, node):
        if name in self.globals:
            bail(node, "module-level name %s is bound more than once" % name)
        self.globals[name] = v

    def purity_gate(self, mod):
        """no statement anywhere in the file (reached by an entry point or not) may rebind or mutate module-level
        state or the classes"""
        shared = {"cls", "self"}
        for n in mod.body:
            if isinstance(n, (ast.Import, ast.ImportFrom)):
                shared |= {(a.asname or a.name).split(".")[0] for a in n.names}
            elif isinstance(n, (ast.ClassDef, ast.FunctionDef)):
                shared.add(n.name)
            elif isinstance(n, (ast.Assign, ast.AnnAssign)):
                for t in (n.targets if isinstance(n, ast.Assign) else [n.target]):
                    shared |= {x.id for x in ast.walk(t) if isinstance(x, ast.Name)}

        def root(x):
            while isinstance(x, (ast.Attribute, ast.Subscript, ast.Call)):
                x = x.value if not isinstance(x, ast.Call) else x.func
            return x.id if isinstance(x, ast.Name) else None
        for n in ast.walk(mod):
            if isinstance(n, (ast.Global, ast.Nonlocal)):
                bail(n, "global / nonlocal")
            if isinstance(n, (ast.Assign, ast.AugAssign, ast.AnnAssign, ast.Delete)):
                tgts = n.targets if isinstance(n, (ast.Assign, ast.Delete)) else [n.target]
                for t in tgts:
                    for x in ast.walk(t):
                        if isinstance(x, (ast.Attribute, ast.Subscript)) and root(x) in shared:
                            bail(n, "assignment to an attribute or an item of shared state")
            if isinstance(n, ast.Call):
                f = n.func
                if isinstance(f, ast.Name) and f.id in ("setattr", "delattr", "exec", "eval", "globals", "vars", "locals",
                                                        "__import__", "compile"):
                    bail(n, "call of %s" % f.id)
                if isinstance(f, ast.Attribute) and root(f.value) in shared and f.attr in (
                        "update", "pop", "popitem", "clear", "setdefault", "__setitem__", "__delitem__", "__setattr__",
                        "append", "extend", "insert", "remove", "sort", "reverse", "add", "discard"):
                    bail(n, "call of the mutating method .%s on shared state" % f.attr)

    def scan(self, mod):
        self.purity_gate(mod)
        for n in mod.body:
            if isinstance(n, ast.Expr) and isinstance(n.value, ast.Constant):
                continue
            if isinstance(n, (ast.Import, ast.ImportFrom)):
                for a in n.names:
                    nm = (a.asname or a.name).split(".")[0]
                    if isinstance(n, ast.ImportFrom) and n.module == "operator" and a.name == "attrgetter" and n.level == 0:
                        self.bindg(nm, VBuiltin("attrgetter"), n)
                    else:
                        self.bindg(nm, VOpaque("imported name " + nm), n)
                continue
            if isinstance(n, ast.AnnAssign) and isinstance(n.target, ast.Name) and n.value is not None:
                self.module_assign(n.target.id, n.value, n)
                continue
            if isinstance(n, ast.Assign) and len(n.targets) == 1 and isinstance(n.targets[0], ast.Name):
                self.module_assign(n.targets[0].id, n.value, n)
                continue
            if isinstance(n, ast.ClassDef):
                self.scan_class(n)
                continue
            if isinstance(n, ast.FunctionDef):
                if n.decorator_list:
                    self.bindg(n.name, VOpaque("decorated function " + n.name), n)
                else:
                    self.bindg(n.name, VFunc(n), n)
                continue
            bail(n, "module-level statement")
        for need in ("VOIGT_TO_STANDARD", "STANDARD_TO_VOIGT") + MODELLED:
            if need not in self.globals:
                raise Untranslatable("%s not found" % need)

    def module_assign(self, name, value, node):
        if name == "VOIGT_TO_STANDARD":
            self.table = self.read_table(value)
            self.bindg(name, VDict("V2S"), node)
        elif name == "STANDARD_TO_VOIGT":
            self.check_reverse(value)
            self.bindg(name, VDict("S2V"), node)
        elif isinstance(value, ast.Name) and isinstance(self.globals.get(value.id), (VClass, VFunc)):
            self.bindg(name, self.globals[value.id], node)
        else:
            try:
                t = self.ev(value, {})
                v = t[1] if t[0] == "leaf" else VOpaque("module constant " + name)
            except Untranslatable as e:
                v = VOpaque("module constant %s (%s)" % (name, e))
            self.bindg(name, v, node)

    def read_table(self, d):
        if not isinstance(d, ast.Dict):
            bail(d, "VOIGT_TO_STANDARD must be a dict literal")
        out = []
        for k, v in zip(d.keys, d.values):
            if not (isinstance(k, ast.Constant) and type(k.value) is int):
                bail(k if k is not None else d, "key of VOIGT_TO_STANDARD")
            if not (isinstance(v, ast.Tuple) and len(v.elts) == 2 and
                    all(isinstance(e, ast.Constant) and type(e.value) is int for e in v.elts)):
                bail(v, "value of VOIGT_TO_STANDARD")
            out.append((k.value, (v.elts[0].value, v.elts[1].value)))
        if len({k for k, _ in out}) != len(out) or len({v for _, v in out}) != len(out):
            bail(d, "VOIGT_TO_STANDARD has a repeated key or value (first-match lookup would differ from dict semantics)")
        return out

    def check_reverse(self, val):
        """STANDARD_TO_VOIGT = dict((v, k) for k, v in VOIGT_TO_STANDARD.items()) / dict([...]) / {v: k for ...}"""
        if self.table is None:
            bail(val, "STANDARD_TO_VOIGT before VOIGT_TO_STANDARD")
        comp = None
        if isinstance(val, ast.DictComp):
            comp, key, value = val, val.key, val.value
        elif isinstance(val, ast.Call) and isinstance(val.func, ast.Name) and val.func.id == "dict" \
                and "dict" not in self.globals and len(val.args) == 1 and not val.keywords \
                and isinstance(val.args[0], (ast.GeneratorExp, ast.ListComp)) \
                and isinstance(val.args[0].elt, ast.Tuple) and len(val.args[0].elt.elts) == 2:
            comp = val.args[0]
            key, value = comp.elt.elts
        if comp is None or len(comp.generators) != 1:
            bail(val, "STANDARD_TO_VOIGT is not the inverse-dict construction")
        g = comp.generators[0]
        ok = (not g.ifs and not g.is_async and isinstance(g.target, ast.Tuple) and len(g.target.elts) == 2
              and all(isinstance(x, ast.Name) for x in g.target.elts)
              and isinstance(g.iter, ast.Call) and not g.iter.args and not g.iter.keywords
              and isinstance(g.iter.func, ast.Attribute) and g.iter.func.attr == "items"
              and isinstance(g.iter.func.value, ast.Name) and g.iter.func.value.id == "VOIGT_TO_STANDARD"
              and isinstance(key, ast.Name) and isinstance(value, ast.Name))
        if ok:
            k, v = (x.id for x in g.target.elts)
            ok = k != v and key.id == v and value.id == k
        if not ok:
            bail(val, "STANDARD_TO_VOIGT is not the inverse-dict construction")

    def scan_class(self, c):
        self.bindg(c.name, VClass(c.name), c)
        if c.name not in MODELLED:
            return
        if c.decorator_list or c.keywords or len(c.bases) != 1 or ast.unparse(c.bases[0]) not in ("NamedTuple", "typing.NamedTuple"):
            bail(c, "class %s must be a plain NamedTuple" % c.name)
        fields, methods = [], {}
        for n in c.body:
            if isinstance(n, ast.Expr) and isinstance(n.value, ast.Constant) or isinstance(n, ast.Pass):
                continue
            if isinstance(n, ast.AnnAssign) and isinstance(n.target, ast.Name) and n.value is None:
                fields.append(n.target.id)
                continue
            if isinstance(n, ast.FunctionDef):
                if n.name in methods or n.name in fields:
                    bail(n, "%s.%s is defined more than once" % (c.name, n.name))
                if (n.name.startswith("__") and n.name not in ("__repr__", "__str__")) or \
                        n.name in ("_replace", "_make", "_asdict", "_fields", "_field_defaults", "count", "index"):
                    bail(n, "%s.%s overrides tuple behaviour the translation relies on" % (c.name, n.name))
                decs = [ast.unparse(d) for d in n.decorator_list]
                kind = {(): "method", ("classmethod",): "classmethod", ("property",): "property",
                        ("staticmethod",): "static"}.get(tuple(decs), "opaque")
                methods[n.name] = (n, kind)
                continue
            bail(n, "statement in the body of class %s" % c.name)
        if fields != ["i", "j"]:
            raise Untranslatable("%s fields %s" % (c.name, fields))
        self.classes[c.name] = methods

    def method(self, cname, name):
        m = self.classes[cname].get(name)
        if m is None:
            raise Untranslatable("def %s.%s not found" % (cname, name))
        return m

    # ---- statements -------------------------------------------------------------------------------
    def run(self, stmts, env, cont):
        if not stmts:
            return cont(env)
        s, rest = stmts[0], stmts[1:]

        def nxt(env2):
            return self.run(rest, env2, cont)
        if isinstance(s, ast.Expr) and isinstance(s.value, ast.Constant):
            return nxt(env)
        if isinstance(s, ast.Pass):
            return nxt(env)
        if isinstance(s, ast.Return):
            return leaf(VNone()) if s.value is None else self.ev(s.value, env)
        if isinstance(s, ast.Raise):
            x = s.exc.func if isinstance(s.exc, ast.Call) else s.exc
            if s.cause is None and isinstance(x, ast.Name) and x.id not in env and x.id not in self.globals \
                    and (x.id.endswith("Error") or x.id.endswith("Exception")):
                return FAIL
            bail(s, "raise of something that is not a builtin exception")
        if isinstance(s, ast.If):
            def branch(v):
                b = self.truth(v, s.test)
                if b[0] == "bc":
                    return self.run(s.body if b[1] else s.orelse, env, nxt)
                return ("if", b, self.run(s.body, env, nxt), self.run(s.orelse, env, nxt))
            return bind(self.ev(s.test, env), branch)
        if isinstance(s, ast.Assert):
            def check(v):
                b = self.truth(v, s.test)
                if b[0] == "bc":
                    return nxt(env) if b[1] else FAIL
                return ("if", b, nxt(env), FAIL)
            return bind(self.ev(s.test, env), check)
        if isinstance(s, (ast.Assign, ast.AnnAssign)):
            if isinstance(s, ast.AnnAssign):
                if s.value is None:
                    return nxt(env)
                tgt = s.target
            else:
                if len(s.targets) != 1:
                    bail(s, "chained assignment")
                tgt = s.targets[0]
            if isinstance(tgt, ast.Name):
                return bind(self.ev(s.value, env), lambda v: nxt(dict(env, **{tgt.id: v})))
            if isinstance(tgt, (ast.Tuple, ast.List)) and all(isinstance(x, ast.Name) for x in tgt.elts):
                names = [x.id for x in tgt.elts]
                if len(set(names)) != len(names):
                    bail(s, "repeated target")

                def destructure(v):
                    if isinstance(v, VPair) and v.t[0] in ("sort2", "sort2by", "sort2byz", "sort2lex") and len(names) == 2:
                        u1, u2 = self.fresh(), self.fresh()
                        et = "Z" if ty(v.t) == "S" else "S"
                        wrap = VInt if et == "Z" else VStrain
                        e2 = dict(env)
                        e2[names[0]], e2[names[1]] = wrap(var(u1, et)), wrap(var(u2, et))
                        return ("let", (u1, u2), tuple(names), v.t, nxt(e2))

                    def got(items):
                        if isinstance(items, VLong) or len(items) != len(names):
                            return FAIL                     # ValueError: too many / not enough values to unpack
                        return nxt(dict(env, **dict(zip(names, items))))
                    return bind(self.items_of(v, s), got)
                return bind(self.ev(s.value, env), destructure)
            bail(s, "assignment target")
        bail(s, "statement")

    def truth(self, v, node):
        if isinstance(v, VBool):
            return v.t
        if isinstance(v, VNone):
            return ("bc", False)
        if isinstance(v, VInt):
            return mk_not(mk_cmp("zeq", v.t, zc(0)))
        if isinstance(v, (VStrain, VMod, VPair)):
            return ("bc", True)
        if isinstance(v, VTuple):
            return ("bc", len(v.items) > 0)
        if isinstance(v, VLong):
            return ("bc", True)
        if isinstance(v, VStr) and v.kind == "of_int":
            return ("bc", True)
        bail(node, "truth value of %r" % (v,))

    # ---- sequences ----------------------------------------------------------------------------------
    def items_of(self, v, node):
        """tree of: the list of element values, or VLong"""
        if isinstance(v, VTuple):
            return leaf(list(v.items))
        if isinstance(v, VPair):
            w = VInt if ty(v.t) == "S" else VStrain
            return leaf([w(mk_fst(v.t)), w(mk_snd(v.t))])
        if isinstance(v, VStrain):
            return leaf([VInt(mk_fst(v.t)), VInt(mk_snd(v.t))])
        if isinstance(v, VMod):
            return leaf([VStrain(mk_fst(v.t)), VStrain(mk_snd(v.t))])
        if isinstance(v, VLong):
            return leaf(v)
        if isinstance(v, VList):
            br = {}
            for n in range(MAXN + 1):
                if v.lv[0] == "digits" and n == 0:
                    br[n] = ([], FAIL)                                  # digits never returns []
                elif v.lv[0] == "digits" and n == 1:
                    br[n] = ([None], leaf([VInt(v.lv[1])]))             # digits z = [a]  ->  a = z
                else:
                    us = [self.fresh() for _ in range(n)]
                    br[n] = (us, leaf([VInt(var(u, "Z")) for u in us]))
            return ("lmatch", v.lv, br, leaf(VLong()), False)
        bail(node, "%r is not a sequence the translator can unpack" % (v,))

    def ev_seq(self, exprs, env):
        """evaluate left to right; *e splices; result: tree of list of values (VLong only as last element)"""
        def go(idx, acc):
            if idx == len(exprs):
                return leaf(acc)
            e = exprs[idx]
            if isinstance(e, ast.Starred):
                def splice(items):
                    if isinstance(items, VLong):
                        if idx != len(exprs) - 1:
                            bail(e, "unbounded *splice that is not the last argument")
                        return leaf(acc + [items])
                    return go(idx + 1, acc + items)
                return bind(self.ev(e.value, env), lambda v: bind(self.items_of(v, e), splice))
            return bind(self.ev(e, env), lambda v: go(idx + 1, acc + [v]))
        return go(0, [])

    # ---- expressions --------------------------------------------------------------------------------
    def lookup(self, name, env, node):
        if name in env:
            return env[name]
        if name in self.globals:
            return self.globals[name]
        if name in BUILTINS:
            return VBuiltin(name)
        bail(node, "unknown name %s" % name)

    def ev(self, e, env):
        if isinstance(e, ast.Constant):
            c = e.value
            if c is None:
                return leaf(VNone())
            if type(c) is bool:
                return leaf(VBool(("bc", c)))
            if type(c) is int:
                return leaf(VInt(zc(c)))
            if type(c) is str:
                return leaf(VStrConst(c))
            bail(e, "constant")
        if isinstance(e, ast.Name):
            return leaf(self.lookup(e.id, env, e))
        if isinstance(e, ast.Attribute):
            return bind(self.ev(e.value, env), lambda v: self.getattr_v(v, e.attr, e))
        if isinstance(e, ast.Call):
            if any(k.arg is None for k in e.keywords):
                bail(e, "**kwargs")
            if isinstance(e.func, ast.Name) and e.func.id in ("any", "all", "sum") and not e.keywords and len(e.args) == 1 \
                    and isinstance(e.args[0], (ast.GeneratorExp, ast.ListComp)):
                f = self.lookup(e.func.id, env, e.func)
                if isinstance(f, VBuiltin) and f.name == e.func.id:
                    return self.ev_anyall({"any": True, "all": False, "sum": None}[f.name], e.args[0], env, e)
            return bind(self.ev(e.func, env), lambda f: bind(self.ev_seq(e.args, env), lambda args: bind(
                self.ev_seq([k.value for k in e.keywords], env),
                lambda kv: self.apply(f, args, dict(zip([k.arg for k in e.keywords], kv)), e))))
        if isinstance(e, ast.Compare):
            if len(e.ops) > 1:
                for c in e.comparators[1:]:
                    if self.ev(c, env)[0] != "leaf":
                        bail(e, "chained comparison with an operand that can raise")

            def done(vs):
                parts = [self.cmp(op, vs[n], vs[n + 1], e) for n, op in enumerate(e.ops)]
                r = mk_bool("and", parts)
                if len(e.ops) == 1 and isinstance(e.ops[0], ast.Eq) and r == ("bc", True) and isinstance(e.left, ast.Call) \
                        and isinstance(e.left.func, ast.Name) and e.left.func.id == "len" and isinstance(vs[1], VInt) \
                        and vs[1].t[0] == "zc":
                    self.order_hint.setdefault(vs[1].t[1], e.lineno)
                return leaf(VBool(r))
            return bind(self.ev_seq([e.left] + e.comparators, env), done)
        if isinstance(e, ast.BoolOp):
            return self.ev_boolop(e, env)
        if isinstance(e, ast.UnaryOp):
            if isinstance(e.op, ast.Not):
                return bind(self.ev(e.operand, env), lambda v: leaf(VBool(mk_not(self.truth(v, e)))))
            if isinstance(e.op, ast.USub):
                return bind(self.ev(e.operand, env), lambda v: leaf(VInt(mk_arith("sub", zc(0), self.as_z(v, e)))))
            bail(e, "unary operator")
        if isinstance(e, ast.BinOp):
            return bind(self.ev(e.left, env), lambda a: bind(self.ev(e.right, env), lambda b: leaf(self.binop(e, a, b))))
        if isinstance(e, ast.IfExp):
            def pick(v):
                b = self.truth(v, e.test)
                if b[0] == "bc":
                    return self.ev(e.body if b[1] else e.orelse, env)
                x, y = self.ev(e.body, env), self.ev(e.orelse, env)
                return ("if", b, x, y)
            return bind(self.ev(e.test, env), pick)
        if isinstance(e, (ast.Tuple, ast.List)):
            def mk(items):
                if items and isinstance(items[-1], VLong):
                    return leaf(VLong())
                return leaf(VTuple(items))
            return bind(self.ev_seq(e.elts, env), mk)
        if isinstance(e, ast.Set):
            if all(isinstance(x, ast.Constant) and type(x.value) is int for x in e.elts):
                return leaf(VSet([x.value for x in e.elts]))
            bail(e, "set display of something other than integer literals")
        if isinstance(e, ast.Subscript):
            return bind(self.ev(e.value, env), lambda v: bind(self.ev(e.slice, env), lambda k: self.subscript(v, k, e)))
        if isinstance(e, (ast.GeneratorExp, ast.ListComp)):
            return self.ev_comp(e, env)
        if isinstance(e, ast.Lambda):
            return leaf(VLambda(e, env))
        if isinstance(e, ast.JoinedStr):
            # a message: its parts are evaluated (they may raise), the text itself is opaque - nothing can branch on it
            parts = [v.value for v in e.values if isinstance(v, ast.FormattedValue)]
            return bind(self.ev_seq(parts, env), lambda _vs: leaf(VOpaque("formatted string")))
        bail(e, "expression")

    def as_z(self, v, node):
        if isinstance(v, VInt):
            return v.t
        if isinstance(v, VBool):
            return zc(int(v.t[1])) if v.t[0] == "bc" else ("b2z", v.t)
        bail(node, "%r used as an integer" % (v,))

    def binop(self, e, a, b):
        if isinstance(e.op, ast.Mod) and isinstance(a, VStrConst):
            return VOpaque("formatted string")
        if isinstance(e.op, (ast.Add, ast.Sub, ast.Mult)):
            op = {ast.Add: "add", ast.Sub: "sub", ast.Mult: "mul"}[type(e.op)]
            return VInt(mk_arith(op, self.as_z(a, e), self.as_z(b, e)))
        if isinstance(e.op, ast.LShift):
            x, y = self.as_z(a, e), self.as_z(b, e)
            if not nonneg(y):
                bail(e, "shift by an amount that is not provably non-negative")
            return VInt(("shl", x, y))
        bail(e, "binary operator")

    def ev_boolop(self, e, env):
        is_and = isinstance(e.op, ast.And)
        op = "and" if is_and else "or"
        n = len(e.values)

        def go(idx):
            if idx == n - 1:
                return self.ev(e.values[idx], env)
            return bind(self.ev(e.values[idx], env), lambda v: step(v, idx))

        def step(v, idx):
            tb = self.truth(v, e.values[idx])
            if tb[0] == "bc":
                return go(idx + 1) if tb[1] == is_and else leaf(v)
            if not isinstance(v, VBool):
                bail(e.values[idx], "non-boolean operand of and/or")
            r = go(idx + 1)
            if r[0] == "leaf":
                if not isinstance(r[1], VBool):
                    bail(e, "non-boolean operand of and/or")
                return leaf(VBool(mk_bool(op, [tb, r[1].t])))
            r = bind(r, lambda w: leaf(w) if isinstance(w, VBool) else bail(e, "non-boolean operand of and/or"))
            if is_and:
                return ("if", tb, r, leaf(VBool(("bc", False))))
            return ("if", tb, leaf(VBool(("bc", True))), r)
        return go(0)

    @staticmethod
    def typename(v):
        if isinstance(v, (VType, VClass)):
            return v.name
        if isinstance(v, VBuiltin) and v.name in TYPE_NAMES:
            return v.name
        return None

    def strain_term(self, v, node):
        if isinstance(v, (VStrain, VPair)) and ty(v.t) == "S":
            return v.t
        if isinstance(v, VTuple) and len(v.items) == 2 and all(isinstance(x, VInt) for x in v.items):
            return mk_pair(v.items[0].t, v.items[1].t)
        bail(node, "%r is not a pair of integers" % (v,))

    def cmp(self, op, a, b, node):
        neg = isinstance(op, (ast.IsNot, ast.NotEq, ast.NotIn))

        def out(t):
            return mk_not(t) if neg else t
        if isinstance(op, (ast.Is, ast.IsNot)):
            if isinstance(a, VNone) or isinstance(b, VNone):
                if isinstance(a, (VOpaque,)) or isinstance(b, (VOpaque,)):
                    bail(node, "identity test on an untranslated value")
                return out(("bc", isinstance(a, VNone) and isinstance(b, VNone)))
            if self.typename(a) and self.typename(b):
                return out(("bc", self.typename(a) == self.typename(b)))
            bail(node, "identity test")
        if isinstance(op, (ast.Eq, ast.NotEq)):
            if isinstance(a, VNone) or isinstance(b, VNone):
                if isinstance(a, VOpaque) or isinstance(b, VOpaque):
                    bail(node, "comparison with an untranslated value")
                return out(("bc", isinstance(a, VNone) and isinstance(b, VNone)))
            if self.typename(a) and self.typename(b):
                return out(("bc", self.typename(a) == self.typename(b)))
            if isinstance(a, VInt) and isinstance(b, VInt):
                for x, y in ((a, b), (b, a)):
                    if x.t[0] == "longlen":
                        if y.t[0] == "zc" and y.t[1] <= MAXN:
                            return out(("bc", False))
                        bail(node, "length of an unbounded argument list compared with something above %d" % MAXN)
                return out(mk_cmp("zeq", a.t, b.t))
            if isinstance(a, VBool) and isinstance(b, VBool):
                return out(("beq", a.t, b.t))
            if isinstance(a, VStrain) and isinstance(b, VStrain):
                return out(("seq", a.t, b.t))
            if isinstance(a, VMod) and isinstance(b, VMod):
                return out(("meq", a.t, b.t))
            bail(node, "== between %r and %r" % (a, b))
        if isinstance(op, (ast.Lt, ast.LtE, ast.Gt, ast.GtE)):
            if not (isinstance(a, VInt) and isinstance(b, VInt)) or "longlen" in (a.t[0], b.t[0]):
                bail(node, "ordering of non-integers")
            if isinstance(op, ast.Lt):
                return mk_cmp("zlt", a.t, b.t)
            if isinstance(op, ast.LtE):
                return mk_cmp("zle", a.t, b.t)
            if isinstance(op, ast.Gt):
                return mk_cmp("zlt", b.t, a.t)
            return mk_cmp("zle", b.t, a.t)
        if isinstance(op, (ast.In, ast.NotIn)):
            if isinstance(b, VSet) or (isinstance(b, VTuple) and b.items and all(
                    isinstance(x, VInt) and x.t[0] == "zc" for x in b.items)):
                ints = b.ints if isinstance(b, VSet) else [x.t[1] for x in b.items]
                if not isinstance(a, VInt):
                    bail(node, "membership of a non-integer in a set of integers")
                return out(("zmem", a.t, list(ints)))
            if isinstance(b, (VDict, VDictView)):
                side = "keys" if isinstance(b, VDict) else b.view
                ints_side = (b.which, side) in (("V2S", "keys"), ("S2V", "values"))
                if ints_side:
                    if not isinstance(a, VInt):
                        bail(node, "membership of a non-integer among the Voigt indices")
                    return out(("keymem", a.t))
                return out(("valmem", self.strain_term(a, node)))
            bail(node, "membership in %r" % (b,))
        bail(node, "comparison operator")

    def subscript(self, v, k, node):
        if isinstance(v, VDict):
            u = self.fresh()
            if v.which == "V2S":
                if not isinstance(k, VInt):
                    bail(node, "VOIGT_TO_STANDARD[non-integer]")
                return ("bind", ("tlookup", k.t), u, "S", leaf(VPair(var(u, "S"))))
            return ("bind", ("rlookup", self.strain_term(k, node)), u, "Z", leaf(VInt(var(u, "Z"))))
        if isinstance(k, VInt) and k.t[0] == "zc" and not isinstance(v, (VLong, VList)):
            def pick(items):
                n = k.t[1]
                if not -len(items) <= n < len(items):
                    return FAIL                              # IndexError
                return leaf(items[n])
            return bind(self.items_of(v, node), pick)
        bail(node, "subscript")

    def anyall_fold(self, is_any, n, elem, node):
        """any / all over n elements produced one at a time by elem(idx) (a tree): Python's order, stops at the
        first deciding element; the result is a bool"""
        op = "or" if is_any else "and"

        def go(idx):
            if idx == n:
                return leaf(VBool(("bc", not is_any)))
            return bind(elem(idx), lambda v: step(v, idx))

        def step(v, idx):
            tb = self.truth(v, node)
            if tb[0] == "bc":
                return leaf(VBool(("bc", is_any))) if tb[1] == is_any else go(idx + 1)
            r = go(idx + 1)
            if r[0] == "leaf":
                return leaf(VBool(mk_bool(op, [tb, r[1].t])))
            if is_any:
                return ("if", tb, leaf(VBool(("bc", True))), r)
            return ("if", tb, r, leaf(VBool(("bc", False))))
        return go(0)

    def sum_(self, items, start, node):
        """sum of integers / booleans: ((start + x0) + x1) + ...   (a 0 start is dropped: 0 + x = x)"""
        acc = start
        for x in items:
            t = self.as_z(x, node)
            if "longlen" in (t[0], acc[0]):
                bail(node, "sum over a length")
            acc = t if acc == zc(0) else mk_arith("add", acc, t)
        return VInt(acc)

    def ev_anyall(self, is_any, comp, env, node):
        """any(f(x) for x in <sequence of known length>) unrolled; a generator is lazy (elements after the deciding
        one are not evaluated), a list comprehension evaluates every element first; is_any None: sum(...)"""
        if len(comp.generators) != 1:
            bail(comp, "comprehension")
        g = comp.generators[0]
        if g.ifs or g.is_async or not isinstance(g.target, ast.Name):
            bail(comp, "comprehension")
        x = g.target.id

        def over(s):
            if isinstance(s, (VList, VLong)):
                bail(node, "any / all over a sequence of unknown length")

            def unroll(items):
                def elem(idx):
                    return self.ev(comp.elt, dict(env, **{x: items[idx]}))
                if isinstance(comp, ast.GeneratorExp) and is_any is not None:
                    return self.anyall_fold(is_any, len(items), elem, node)

                def eager(idx, acc):
                    if idx == len(items):
                        if is_any is None:              # sum(...) consumes every element, in order
                            return leaf(self.sum_(acc, zc(0), node))
                        return self.anyall_fold(is_any, len(acc), lambda k: leaf(acc[k]), node)
                    return bind(elem(idx), lambda v: eager(idx + 1, acc + [v]))
                return eager(0, [])
            return bind(self.items_of(s, node), unroll)
        return bind(self.ev(g.iter, env), over)

    def ev_comp(self, e, env):
        """(int(k) for k in s) / [int(k) for k in s] / (k for k in seq)"""
        if len(e.generators) != 1:
            bail(e, "comprehension")
        g = e.generators[0]
        if g.ifs or g.is_async or not isinstance(g.target, ast.Name):
            bail(e, "comprehension")
        x = g.target.id
        if isinstance(e.elt, ast.Name) and e.elt.id == x:
            conv = None
        elif isinstance(e.elt, ast.Call) and isinstance(e.elt.func, ast.Name) and e.elt.func.id != x \
                and not e.elt.keywords and len(e.elt.args) == 1 and isinstance(e.elt.args[0], ast.Name) \
                and e.elt.args[0].id == x:
            conv = self.lookup(e.elt.func.id, env, e.elt)
        else:
            bail(e, "comprehension element")
        return bind(self.ev(g.iter, env), lambda s: self.map_conv(conv, s, e))

    def map_conv(self, conv, s, node):
        if conv is None:
            if isinstance(s, (VTuple, VList, VLong)):
                return leaf(s)
            return bind(self.items_of(s, node), lambda items: leaf(VTuple(items)))
        if isinstance(conv, VBuiltin) and conv.name == "int":
            if isinstance(s, VStr):
                return leaf(VList(("digits", s.x)) if s.kind == "of_int" else VList(s.x))
            if isinstance(s, (VList, VLong)):
                return leaf(s)
            if isinstance(s, VTuple) and all(isinstance(x, (VInt, VBool)) for x in s.items):
                return leaf(VTuple([VInt(self.as_z(x, node)) for x in s.items]))
        bail(node, "only int may be mapped over a digit string")

    # ---- attributes ---------------------------------------------------------------------------------
    def getattr_v(self, v, name, node):
        if isinstance(v, VClass) and v.name in MODELLED:
            fn, kind = self.method(v.name, name)
            if kind == "classmethod":
                return leaf(VMethod(v.name, fn, v))
            if kind in ("static", "method"):
                return leaf(VFunc(fn))
            bail(node, "%s.%s on the class" % (v.name, name))
        if isinstance(v, (VStrain, VMod)):
            cname = MODELLED[0] if isinstance(v, VStrain) else MODELLED[1]
            if name in ("i", "j"):
                part = mk_fst(v.t) if name == "i" else mk_snd(v.t)
                return leaf(VInt(part) if isinstance(v, VStrain) else VStrain(part))
            fn, kind = self.method(cname, name)
            if kind == "property":
                if isinstance(v, VStrain) and name == "voigt":
                    return leaf(VInt(("sv", v.t)))
                if isinstance(v, VMod) and name in PREDICATES:
                    return leaf(VBool(("pred", name, v.t)))
                if isinstance(v, VMod) and name == "multiplicity":
                    return leaf(VInt(("mult", v.t)))
                return self.call_inline(fn, [v], {}, node)
            if kind == "method":
                return leaf(VMethod(cname, fn, v))
            if kind == "classmethod":
                return leaf(VMethod(cname, fn, VClass(cname)))
            if kind == "static":
                return leaf(VFunc(fn))
            bail(node, "%s.%s has a decorator outside the grammar" % (cname, name))
        if isinstance(v, VDict) and name in ("keys", "values"):
            return leaf(VDictMethod(v.which, name))
        if isinstance(v, VStrConst) and name == "format":
            return leaf(VOpaque("str.format"))
        bail(node, "attribute %s of %r" % (name, v))

    # ---- calls ----------------------------------------------------------------------------------------
    def apply(self, f, args, kw, node):
        long_ = bool(args) and isinstance(args[-1], VLong)
        if isinstance(f, VMethod):
            key = (f.cname, f.fn.name)
            if key in INTERFACE and isinstance(f.bound, VClass):
                name, rty = INTERFACE[key]
                a = f.fn.args
                names = [x.arg for x in a.args][1:]
                if kw and not long_ and set(kw) == set(names[len(args):]) and len(kw) == len(names) - len(args):
                    args = args + [kw[n] for n in names[len(args):]]
                    kw = {}
                if kw or long_ or a.vararg or a.kwonlyargs or a.kwarg or a.defaults or len(args) != len(a.args) - 1:
                    bail(node, "call of %s.%s that is not plain positional" % key)
                if not all(isinstance(x, VInt) for x in args):
                    bail(node, "%s.%s called on a non-integer %r" % (key + (args,)))
                u = self.fresh()
                w = VStrain if rty == "S" else VMod
                return ("bind", ("call", name, [x.t for x in args]), u, rty, leaf(w(var(u, rty))))
            return self.call_inline(f.fn, [f.bound] + args, kw, node)
        if isinstance(f, VFunc):
            return self.call_inline(f.fn, args, kw, node)
        if isinstance(f, VLambda):
            return self.call_inline(f.node, args, kw, node, f.env)
        if isinstance(f, VDictMethod) and not args and not kw:
            return leaf(VDictView(f.which, f.view))
        if isinstance(f, VAttrGetter) and len(args) == 1 and not kw and not long_:
            return self.getattr_v(args[0], f.name, node)
        if isinstance(f, VClass) and f.name in MODELLED:
            if kw:
                bail(node, "keyword arguments of a constructor")
            if long_ or len(args) != 2:
                return FAIL                                    # TypeError: wrong number of fields
            a, b = args
            if f.name == MODELLED[0] and isinstance(a, VInt) and isinstance(b, VInt):
                return leaf(VStrain(mk_pair(a.t, b.t)))
            if f.name == MODELLED[1] and isinstance(a, VStrain) and isinstance(b, VStrain):
                return leaf(VMod(mk_pair(a.t, b.t)))
            bail(node, "%s(%r, %r)" % (f.name, a, b))
        if isinstance(f, VBuiltin):
            return self.builtin(f.name, args, kw, node, long_)
        if isinstance(f, VOpaque) and f.what == "str.format":
            return leaf(VOpaque("formatted string"))
        bail(node, "call of %r" % (f,))

    def builtin(self, name, args, kw, node, long_):
        if name == "sorted":
            return self.sorted_(args, kw, node)
        if kw:
            bail(node, "keyword arguments of %s" % name)
        if name == "len" and len(args) == 1:
            if long_:
                return leaf(VInt(("longlen",)))
            if isinstance(args[0], VList):
                return bind(self.items_of(args[0], node), lambda items: leaf(
                    VInt(("longlen",)) if isinstance(items, VLong) else VInt(zc(len(items)))))
            if isinstance(args[0], (VTuple, VPair, VStrain, VMod)):
                return bind(self.items_of(args[0], node), lambda items: leaf(VInt(zc(len(items)))))
            bail(node, "len of %r" % (args[0],))
        if long_:
            bail(node, "unbounded argument list passed to %s" % name)
        if name == "type" and len(args) == 1:
            v = args[0]
            tn = {VInt: "int", VBool: "bool", VStr: "str", VStrConst: "str", VNone: "NoneType", VTuple: None,
                  VStrain: MODELLED[0], VMod: MODELLED[1]}.get(type(v))
            if tn is None:
                bail(node, "type of %r" % (v,))
            return leaf(VType(tn))
        if name == "isinstance" and len(args) == 2:
            v, t = args
            ts = [self.typename(x) for x in (t.items if isinstance(t, VTuple) else [t])]
            if not all(x in ("int", "str", "bool") for x in ts):
                bail(node, "isinstance against %r" % (t,))
            mine = {VInt: ("int",), VBool: ("bool", "int"), VStr: ("str",), VStrConst: ("str",), VNone: ()}.get(type(v))
            if mine is None:
                bail(node, "isinstance of %r" % (v,))
            return leaf(VBool(("bc", any(x in mine for x in ts))))
        if name == "int" and len(args) == 1:
            v = args[0]
            if isinstance(v, (VInt, VBool)):
                return leaf(VInt(self.as_z(v, node)))
            if isinstance(v, VStr) and v.kind == "of_int":
                return leaf(VInt(v.x))
            bail(node, "int of %r" % (v,))
        if name == "bool" and len(args) == 1:
            return leaf(VBool(self.truth(args[0], node)))
        if name == "str" and len(args) == 1 and isinstance(args[0], VInt) and args[0].t[0] != "longlen":
            return leaf(VStr("of_int", args[0].t))
        if name in ("tuple", "list") and len(args) == 1:
            if isinstance(args[0], (VList, VLong)):
                return leaf(args[0])
            return bind(self.items_of(args[0], node), lambda items: leaf(VTuple(items)))
        if name == "map" and len(args) == 2:
            return self.map_conv(args[0], args[1], node)
        if name == "sum" and len(args) in (1, 2) and not isinstance(args[0], (VList, VLong)) \
                and (len(args) == 1 or isinstance(args[1], (VInt, VBool))):
            start = self.as_z(args[1], node) if len(args) == 2 else zc(0)
            return bind(self.items_of(args[0], node), lambda items: leaf(self.sum_(items, start, node)))
        if name in ("any", "all") and len(args) == 1 and not isinstance(args[0], (VList, VLong)):
            return bind(self.items_of(args[0], node), lambda items: self.anyall_fold(
                name == "any", len(items), lambda k: leaf(items[k]), node))
        if name == "attrgetter" and len(args) == 1 and isinstance(args[0], VStrConst) and "." not in args[0].s:
            return leaf(VAttrGetter(args[0].s))
        bail(node, "call of builtin %s" % name)

    def sorted_(self, args, kw, node):
        if len(args) != 1 or set(kw) - {"key"}:
            bail(node, "sorted with anything but one sequence and an optional key")
        key = kw.get("key")
        if isinstance(key, VNone):
            key = None

        def go(items):
            if isinstance(items, VLong) or len(items) != 2:
                bail(node, "sorted of something that is not a pair")
            a, b = items
            if isinstance(a, VInt) and isinstance(b, VInt):
                et, wrap = "Z", VInt
            elif isinstance(a, VStrain) and isinstance(b, VStrain):
                et, wrap = "S", VStrain
            else:
                bail(node, "sorted of %r and %r" % (a, b))
            if key is None:
                return leaf(VPair(("sort2", a.t, b.t) if et == "Z" else ("sort2lex", a.t, b.t)))
            if not isinstance(key, (VLambda, VAttrGetter, VFunc)):
                bail(node, "sort key %r is outside the grammar" % (key,))
            u = self.fresh()
            kv = total(simp(self.apply(key, [wrap(var(u, et))], {}, node)), (VInt, VBool))
            if kv is None:
                bail(node, "sort key must be a total integer-valued function of the element")
            return leaf(VPair(("sort2by" if et == "S" else "sort2byz", u, self.as_z(kv, node), a.t, b.t)))
        return bind(self.items_of(args[0], node), go)

    def call_inline(self, fn, args, kw, node, closure=None):
        a = fn.args
        if a.kwonlyargs or a.kwarg:
            bail(fn, "keyword-only / ** parameters")
        params = [x.arg for x in a.posonlyargs + a.args]
        env = dict(closure or {})
        long_ = bool(args) and isinstance(args[-1], VLong)
        if long_:
            if len(params) > MAXN:
                bail(fn, "more than %d parameters" % MAXN)
            if not a.vararg:
                return FAIL                                    # TypeError: too many positional arguments
            if len(args) - 1 < len(params) or kw:
                bail(node, "unbounded argument list feeding named parameters")
        pos = args[:-1] if long_ else args
        if len(pos) > len(params) and not a.vararg:
            return FAIL                                        # TypeError
        for p, v in zip(params, pos):
            env[p] = v
        bound = set(params[:len(pos)])
        for k, v in kw.items():
            if k not in params or k in bound:
                return FAIL                                    # TypeError
            env[k] = v
            bound.add(k)
        ndef = len(a.defaults)
        for n, p in enumerate(params):
            if p in bound:
                continue
            d = n - (len(params) - ndef)
            if d < 0:
                return FAIL                                    # TypeError: missing argument
            t = self.ev(a.defaults[d], {})
            if t[0] != "leaf":
                bail(a.defaults[d], "default value")
            env[p] = t[1]
        if a.vararg:
            env[a.vararg.arg] = VLong() if long_ else VTuple(list(pos[len(params):]))
        key = (id(fn),) + tuple(env[p].key() for p in params) + ((env[a.vararg.arg].key(),) if a.vararg else ())
        if key in self.stack:
            self.cut = True
            return FAIL                   # the same call with the same arguments: never returns (RecursionError)
        if len(self.stack) > 30:
            bail(node, "inlining deeper than 30 calls")
        self.stack.append(key)
        try:
            if isinstance(fn, ast.Lambda):
                return self.ev(fn.body, env)
            return self.run(fn.body, env, lambda _e: leaf(VNone()))
        finally:
            self.stack.pop()


# ---------------------------------------------------------------------------------------------------
# simplification (each rule is an equation of the option monad / of the lookup functions)
# ---------------------------------------------------------------------------------------------------

def tkey(t):
    k = t[0]
    if k == "leaf":
        v = t[1]
        return ("leaf", v.key() if isinstance(v, V) else tuple(x.key() for x in v))
    if k == "fail":
        return t
    if k == "if":
        return ("if", t[1], tkey(t[2]), tkey(t[3]))
    if k == "bind":
        return ("bind", repr(t[1]), t[2], t[3], tkey(t[4]))
    if k == "let":
        return ("let", t[1], t[3], tkey(t[4]))
    return ("lmatch", t[1], tuple((n, tuple(us), tkey(s)) for n, (us, s) in sorted(t[2].items())), tkey(t[3]))


def simp(t):
    k = t[0]
    if k in ("leaf", "fail"):
        return t
    if k == "if":
        c, a, b = t[1], simp(t[2]), simp(t[3])
        while c[0] == "not":                      # if negb c then a else b  =  if c then b else a
            c, a, b = c[1], b, a
        if c[0] == "bc":
            return a if c[1] else b
        if tkey(a) == tkey(b):
            return a
        # zlookup k T = None  <->  k not among the keys;   rlookup s T = None  <->  s not among the values
        if b == FAIL and a[0] == "bind" and (c[0], a[1][0]) in (("keymem", "tlookup"), ("valmem", "rlookup")) \
                and a[1][1] == c[1]:
            return a
        return ("if", c, a, b)
    if k == "bind":
        return ("bind", t[1], t[2], t[3], simp(t[4]))
    if k == "let":
        sub = simp(t[4])
        if sub[0] == "leaf" and isinstance(sub[1], (VStrain, VMod, VPair)) and sub[1].t[0] in ("spair", "mpair") \
                and sub[1].t[1][0] == "var" and sub[1].t[2][0] == "var" and (sub[1].t[1][1], sub[1].t[2][1]) == tuple(t[1]):
            return leaf(type(sub[1])(t[3]))                      # let '(x, y) := p in (x, y)  =  p
        return ("let", t[1], t[2], t[3], sub)
    if k == "lmatch":
        br = {n: (us, simp(s)) for n, (us, s) in t[2].items()}
        d = simp(t[3])
        if d == FAIL and all(s == FAIL for _, s in br.values()):
            return FAIL
        return ("lmatch", t[1], br, d, t[4])
    raise AssertionError(t)


def total(t, want):
    """fold a tree of ifs over leaves of one scalar kind into a single term (if c then a else b)"""
    if t[0] == "leaf" and isinstance(t[1], want):
        return t[1]
    if t[0] == "if":
        a, b = total(t[2], want), total(t[3], want)
        if a is not None and b is not None and type(a) is type(b) and isinstance(a, (VInt, VBool)):
            return type(a)(("ite", t[1], a.t, b.t))
    return None


def fv_val(v, acc):
    if isinstance(v, (VInt, VBool, VStrain, VMod, VPair)):
        fv(v.t, acc)
    elif isinstance(v, VTuple):
        for x in v.items:
            fv_val(x, acc)
    elif isinstance(v, VStr) and v.kind == "of_int":
        fv(v.x, acc)
    elif isinstance(v, VList) and v.lv[0] == "digits":
        fv(v.lv[1], acc)
    return acc


def fv_tree(t, acc):
    k = t[0]
    if k == "leaf":
        fv_val(t[1], acc)
    elif k == "if":
        fv(t[1], acc)
        fv_tree(t[2], acc)
        fv_tree(t[3], acc)
    elif k == "bind":
        c = t[1]
        for x in (c[2] if c[0] == "call" else [c[1]]):
            fv(x, acc)
        inner = fv_tree(t[4], set())
        inner.discard(t[2])
        acc |= inner
    elif k == "let":
        fv(t[3], acc)
        inner = fv_tree(t[4], set())
        acc |= inner - set(t[1])
    elif k == "lmatch":
        if t[1][0] == "digits":
            fv(t[1][1], acc)
        for us, s in t[2].values():
            acc |= fv_tree(s, set()) - set(us)
        fv_tree(t[3], acc)
    return acc


RESERVED = set("""fst snd map sv zlookup rlookup zmem smem sort2 sort2_by sort2_lex strain_ltb b2z obind digits
    digits_fuel option_eqb strain_eqb modkey_eqb strain modkey voigt_table negb true false Some None if then else
    match with end fun let in as return forall exists fix cofix Type Prop Set Z nat bool list option at using
    where mod is_shear is_longitudinal is_off_diagonal multiplicity strain_from_voigt strain_from_standard
    mod_from_voigt mod_from_standard mod_voigt mod_standard strain_create mod_create mod_create_int""".split())


def ident_ok(name):
    return name.isidentifier() and name.isascii() and name not in RESERVED and not name.startswith("_")


class TreePrinter:
    def __init__(self, params, order_hint, rty):
        self.names = {p: p for p in params}
        self.pr = Printer(self.names)
        self.hint = order_hint
        self.rty = rty

    def pick(self, pool, scope):
        for n in pool:
            if n not in scope:
                return n
        n = 0
        while "x%d" % n in scope:
            n += 1
        return "x%d" % n

    def value(self, v):
        want = {"S": VStrain, "M": VMod}[self.rty]
        if not isinstance(v, want):
            raise Untranslatable("a path returns %r where a %s is expected" % (v, want.__name__[1:]))
        return self.pr.t(v.t)

    def call(self, c):
        if c[0] == "call":
            return "(%s %s)" % (c[1], " ".join(self.pr.t(x) for x in c[2]))
        return "(%s %s voigt_table)" % ({"tlookup": "zlookup", "rlookup": "rlookup"}[c[0]], self.pr.t(c[1]))

    def order(self, br):
        live = [n for n, (_, s) in br.items() if s != FAIL]
        return sorted(live, key=lambda n: (self.hint.get(n, 0), n))

    def pattern(self, us, scope):
        sc = set(scope)
        pool = "abcdefgh" if any(x in sc for x in "ijkl") else "ijklpqrs"
        out = []
        for u in us:
            if u is None:
                out.append("_")
                continue
            n = self.pick(pool, sc)
            sc.add(n)
            self.names[u] = n
            out.append(n)
        return "[" + "; ".join(out) + "]", sc

    def lsrc(self, lv):
        return lv[1] if lv[0] == "listvar" else "digits %s" % self.pr.t(lv[1])

    def tree(self, t, scope, col):
        k = t[0]
        if k == "leaf":
            return "Some " + self.value(t[1])
        if k == "fail":
            return "None"
        if k == "if":
            c = strip(self.pr.t(t[1]))
            a = self.tree(t[2], scope, col)
            if t[3][0] == "lmatch":
                return "if %s then %s else\n%s%s" % (c, a, " " * col, self.tree(t[3], scope, col))
            return "if %s then %s else %s" % (c, a, self.tree(t[3], scope, col))
        if k == "bind":
            c, u, bt, sub = t[1], t[2], t[3], t[4]
            if sub[0] == "leaf" and isinstance(sub[1], (VInt, VStrain, VMod, VPair)) and sub[1].t == ("var", u, bt) \
                    and isinstance(sub[1], {"S": VStrain, "M": VMod}[self.rty]):
                return strip(self.call(c))                                   # obind c Some = c
            n = self.pick("abcdefgh", scope)
            self.names[u] = n
            return "obind %s (fun %s => %s)" % (self.call(c), n, self.tree(sub, scope | {n}, col))
        if k == "let":
            (u1, u2), hints, term, sub = t[1], t[2], t[3], t[4]
            rhs = strip(self.pr.t(term))
            live = {self.names[u] for u in fv_tree(sub, set()) if u in self.names}
            sc = set(scope)
            got = []
            for u, h in zip((u1, u2), hints):
                n = h if ident_ok(h) else "x"
                m = 0
                while n in live or n in got:
                    n = "%s%d" % (h if ident_ok(h) else "x", m)
                    m += 1
                got.append(n)
                self.names[u] = n
                sc.add(n)
            return "let '(%s, %s) := %s in\n%s%s" % (got[0], got[1], rhs, " " * col, self.tree(sub, sc, col))
        if k == "lmatch":
            if t[3] != FAIL:
                raise Untranslatable("an argument list of more than %d elements does not raise" % MAXN)
            parts = []
            for n in self.order(t[2]):
                us, sub = t[2][n]
                pat, sc = self.pattern(us, scope)
                parts.append("%s => %s" % (pat, self.tree(sub, sc, col)))
            return "match %s with %s | _ => None end" % (self.lsrc(t[1]), " | ".join(parts))
        raise AssertionError(t)

    def body(self, t, scope):
        """text after ':=' of a definition (with the leading blank or line break)"""
        k = t[0]
        if k == "lmatch":
            if t[3] != FAIL:
                raise Untranslatable("an argument list of more than %d elements does not raise" % MAXN)
            lines = ["\n  match %s with" % self.lsrc(t[1])]
            for n in self.order(t[2]):
                us, sub = t[2][n]
                pat, sc = self.pattern(us, scope)
                head = "  | %s => " % pat
                lines.append(head + self.tree(sub, sc, len(head)))
            tail = "  | _ => None"
            if t[1][0] == "digits" and t[4]:
                tail += "      (* one digit: create(int)->create(str)->create(int) never returns; others raise *)"
            lines.append(tail)
            lines.append("  end.")
            return "\n".join(lines)
        s = self.tree(t, scope, 2)
        if k in ("leaf", "fail") or (k == "bind" and not s.startswith("obind")):
            return " " + s + "."
        return "\n  " + s + "."


# ---------------------------------------------------------------------------------------------------
# the generated file
# ---------------------------------------------------------------------------------------------------

def params_of(fn, skip, what):
    a = fn.args
    if a.vararg or a.kwarg or a.kwonlyargs or a.defaults or a.posonlyargs:
        bail(fn, "%s must take plain positional parameters" % what)
    names = [x.arg for x in a.args]
    if len(names) < skip:
        bail(fn, "%s has no %s parameter" % (what, "cls/self"))
    for n in names[skip:]:
        if not ident_ok(n):
            bail(fn, "parameter name %s of %s clashes with a Gallina name" % (n, what))
    return names[skip:]


def translate(src: str) -> str:
    """entry point used by the property modules; every failure is an Untranslatable (fail closed)"""
    try:
        return _translate(src)
    except Untranslatable:
        raise
    except SyntaxError as e:
        raise Untranslatable("cij/util/voigt.py does not parse: %s" % e)
    except Exception as e:          # an internal error of the translator is a construct it cannot read
        raise Untranslatable("translator internal error %s: %s" % (type(e).__name__, e))


def _translate(src: str) -> str:
    import warnings
    with warnings.catch_warnings():
        warnings.simplefilter("ignore")
        mod = ast.parse(src)
    ev = Ev(mod)
    S, M = MODELLED
    need_lex = [False]

    def finish(tp):
        need_lex[0] = need_lex[0] or tp.pr.need_ltb

    def scenario(thunk):
        ev.order_hint, ev.cut, ev.stack = {}, False, []
        t = simp(thunk())
        return t, dict(ev.order_hint), ev.cut

    # ---- StrainRepresentation.voigt -> sv -------------------------------------------------------------
    fn, kind = ev.method(S, "voigt")
    if kind != "property":
        bail(fn, "StrainRepresentation.voigt must be a property")
    t, _, _ = scenario(lambda: ev.call_inline(fn, [VStrain(var("s", "S"))], {}, fn))
    if t[0] == "bind" and t[1] == ("rlookup", var("s", "S")) and t[4][0] == "leaf" and isinstance(t[4][1], VInt) \
            and t[4][1].t == ("var", t[2], "Z"):
        sv_def = "Definition sv (s : strain) : Z := match rlookup s voigt_table with Some v => v | None => 0 end."
    elif total(t, (VInt, VBool)) is not None:
        tp = TreePrinter(["s"], {}, "S")
        sv_def = "Definition sv (s : strain) : Z := %s." % strip(tp.pr.t(ev.as_z(total(t, (VInt, VBool)), fn)))
        finish(tp)
        if "(sv " in sv_def:
            bail(fn, "StrainRepresentation.voigt refers to itself")
    else:
        bail(fn, "StrainRepresentation.voigt is neither STANDARD_TO_VOIGT[self] nor a total integer expression")

    # ---- the four from_* constructors -------------------------------------------------------------------
    ctor = {}
    for (cname, mname), (coq, rty) in INTERFACE.items():
        fn, kind = ev.method(cname, mname)
        if kind != "classmethod":
            bail(fn, "%s.%s must be a classmethod" % (cname, mname))
        ps = params_of(fn, 1, "%s.%s" % (cname, mname))
        t, hint, _ = scenario(lambda: ev.call_inline(fn, [VClass(cname)] + [VInt(var(p, "Z")) for p in ps], {}, fn))
        tp = TreePrinter(ps, hint, rty)
        ctor[coq] = "Definition %s (%s : Z) : option %s :=%s" % (
            coq, " ".join(ps), {"S": "strain", "M": "modkey"}[rty], tp.body(t, set(ps)))
        finish(tp)

    # ---- views of a modulus key ---------------------------------------------------------------------------
    def view(mname, n):
        fn, kind = ev.method(M, mname)
        if kind != "property":
            bail(fn, "ModulusRepresentation.%s must be a property" % mname)
        t, _, _ = scenario(lambda: ev.call_inline(fn, [VMod(var("m", "M"))], {}, fn))
        if t[0] == "leaf" and not isinstance(t[1], VTuple):
            t = scenario(lambda: ev.items_of(t[1], fn))[0]
            t = ("leaf", VTuple(t[1])) if t[0] == "leaf" and isinstance(t[1], list) else t
        if t[0] != "leaf" or not isinstance(t[1], VTuple) or len(t[1].items) != n or \
                not all(isinstance(x, VInt) for x in t[1].items):
            bail(fn, "ModulusRepresentation.%s must be a total tuple of %d integers" % (mname, n))
        tp = TreePrinter(["m"], {}, "M")
        out = "(" + ", ".join(strip(tp.pr.t(x.t)) for x in t[1].items) + ")"
        finish(tp)
        return out
    mod_voigt = view("voigt", 2)
    mod_standard = view("standard", 4)

    # ---- create / _ ---------------------------------------------------------------------------------------
    def entry(cname, args):
        fn, kind = ev.method(cname, "_")
        if kind != "classmethod":
            bail(fn, "%s._ must be a classmethod" % cname)
        return ev.apply(VMethod(cname, fn, VClass(cname)), args, {}, fn)

    def by_list(cname):
        return bind(ev.items_of(VList(("listvar", "args")), None),
                    lambda items: entry(cname, [items] if isinstance(items, VLong) else items))

    def show(t, rty, hint, scope):
        tp = TreePrinter(sorted(scope), hint, rty)
        s = tp.body(t, set(scope))
        finish(tp)
        return s

    created = {}
    for cname, rty, coq in ((S, "S", "strain_create"), (M, "M", "mod_create")):
        t_list, hint, _ = scenario(lambda: by_list(cname))
        t_str, _, _ = scenario(lambda: entry(cname, [VStr("of_list", ("listvar", "args"))]))
        a, b = show(t_list, rty, {}, {"args"}), show(t_str, rty, {}, {"args"})
        if a != b:
            raise Untranslatable("%s._(\"digits\") is not %s._(*digits): the string spelling translates to\n%s\nbut the "
                                 "list spelling to\n%s" % (cname, cname, b, a))
        if cname == M and t_list[0] == "lmatch":
            br = dict(t_list[2])
            br[1] = ([None], FAIL)                   # a single int is mod_create_int
            t_list = simp(("lmatch", t_list[1], br, t_list[3], t_list[4]))
        created[coq] = "Definition %s (args : list Z) : option %s :=%s" % (
            coq, {"S": "strain", "M": "modkey"}[rty], show(t_list, rty, hint, {"args"}))
    t_int, hint, cut = scenario(lambda: entry(M, [VInt(var("n", "Z"))]))
    if t_int[0] == "lmatch" and cut:
        t_int = t_int[:4] + (True,)
    created["mod_create_int"] = "Definition mod_create_int (n : Z) : option modkey :=%s" % show(t_int, "M", hint, {"n"})

    # ---- predicates -------------------------------------------------------------------------------------------
    defs = {}
    for name in PREDICATES + ("multiplicity",):
        fn, kind = ev.method(M, name)
        if kind != "property":
            bail(fn, "ModulusRepresentation.%s must be a property" % name)
        t, _, _ = scenario(lambda: ev.call_inline(fn, [VMod(var("m", "M"))], {}, fn))
        want = VInt if name == "multiplicity" else VBool
        tv_ = total(t, want)
        if tv_ is None:
            bail(fn, "ModulusRepresentation.%s must be a total %s expression" % (name, "integer" if want is VInt else "boolean"))
        tp = TreePrinter(["m"], {}, "M")
        defs[name] = tp.pr.t(tv_.t)
        finish(tp)
    mu = defs.pop("multiplicity")
    if "(multiplicity m)" in mu:
        raise Untranslatable("multiplicity refers to itself")
    # the three predicates reference each other; order them so that definitions are well-founded
    order, left = [], dict(defs)
    while left:
        prog = False
        for n, body in list(left.items()):
            if not any(("(%s " % o) in body for o in left if o != n) and ("(%s " % n) not in body:
                order.append(n)
                del left[n]
                prog = True
        if not prog:
            raise Untranslatable("cyclic predicate definitions")
    if any(("(%s " % p) in sv_def or "(multiplicity " in sv_def for p in PREDICATES):
        raise Untranslatable("StrainRepresentation.voigt depends on a modulus predicate")

    out = []
    out.append("(* GENERATED from /repo/cij/util/voigt.py by tools/translate_voigt.py - do not edit *)")
    out.append("From Coq Require Import ZArith List Bool.\nFrom Cij Require Import VoigtBase.\nImport ListNotations.\nLocal Open Scope Z_scope.\n")
    out.append("Definition voigt_table : list (Z * strain) :=\n  [%s]." % "; ".join(
        "(%s, (%s, %s))" % (z(k), z(a), z(b)) for k, (a, b) in ev.table))
    block = ["", (LEX_DEFS if need_lex[0] else "") + sv_def]
    for coq in ("strain_from_voigt", "strain_from_standard", "mod_from_voigt", "mod_from_standard"):
        block.append(ctor[coq])
    block.append("Definition mod_voigt (m : modkey) : Z * Z := %s." % mod_voigt)
    block.append("Definition mod_standard (m : modkey) : Z * Z * Z * Z := %s." % mod_standard)
    block.append("(* create(...) dispatch on the number of indices, as in the two create() classmethods *)")
    block.append(created["strain_create"])
    block.append(created["mod_create"])
    block.append(created["mod_create_int"])
    block.append("")
    out.append("\n".join(block))
    for n in order:
        out.append("Definition %s (m : modkey) : bool := %s." % (n, defs[n]))
    out.append("Definition multiplicity (m : modkey) : Z := %s." % mu)
    return "\n".join(out) + "\n"


if __name__ == "__main__":
    import sys
    print(translate(open(sys.argv[1] if len(sys.argv) > 1 else "/repo/cij/util/voigt.py").read()))
