"""Fail-closed translator  cij/util/voigt.py  ->  Gen_voigt.v  (Gallina over Z).

Accepted grammar (anything else raises Untranslatable, which the check reports as a
broken tie): the VOIGT_TO_STANDARD dict literal of int -> (int, int); the bodies of
from_voigt / from_standard of both classes in the statement forms listed in `stmt`;
the expression bodies of is_shear / is_longitudinal / is_off_diagonal / multiplicity.
"""
import ast


class Untranslatable(Exception):
    pass


def bail(node, why=""):
    raise Untranslatable("translator cannot read %s at line %s %s" % (
        type(node).__name__, getattr(node, "lineno", "?"), why))


def z(n):
    return "(%d)" % n if n < 0 else str(n)


def table(mod):
    for n in mod.body:
        if isinstance(n, ast.Assign) and len(n.targets) == 1 and \
                isinstance(n.targets[0], ast.Name) and n.targets[0].id == "VOIGT_TO_STANDARD":
            d = n.value
            if not isinstance(d, ast.Dict):
                bail(d)
            out = []
            for k, v in zip(d.keys, d.values):
                if not (isinstance(k, ast.Constant) and type(k.value) is int):
                    bail(k)
                if not (isinstance(v, ast.Tuple) and len(v.elts) == 2 and
                        all(isinstance(e, ast.Constant) and type(e.value) is int for e in v.elts)):
                    bail(v)
                out.append((k.value, (v.elts[0].value, v.elts[1].value)))
            return out
    raise Untranslatable("VOIGT_TO_STANDARD not found")


def check_reverse(mod):
    """STANDARD_TO_VOIGT must be the literal inverse-dict construction."""
    want = "dict(((v, k) for k, v in VOIGT_TO_STANDARD.items()))"
    for n in mod.body:
        if isinstance(n, ast.Assign) and isinstance(n.targets[0], ast.Name) and \
                n.targets[0].id == "STANDARD_TO_VOIGT":
            got = ast.unparse(n.value)
            if got.replace(" ", "") != want.replace(" ", ""):
                raise Untranslatable("STANDARD_TO_VOIGT is not the inverse dict: " + got)
            return
    raise Untranslatable("STANDARD_TO_VOIGT not found")


def find_class(mod, name):
    for n in mod.body:
        if isinstance(n, ast.ClassDef) and n.name == name:
            return n
    raise Untranslatable("class %s not found" % name)


def find_def(cls, name):
    for n in cls.body:
        if isinstance(n, ast.FunctionDef) and n.name == name:
            return n
    raise Untranslatable("def %s.%s not found" % (cls.name, name))


# ---- expression translation for the predicates -------------------------------------
# types: 'Z', 'S' (strain), 'B'

def expr(e, env):
    """returns (coq_text, type)"""
    if isinstance(e, ast.Constant) and type(e.value) is int:
        return z(e.value), "Z"
    if isinstance(e, ast.Name) and e.id in env:
        return env[e.id]
    if isinstance(e, ast.Attribute):
        src = ast.unparse(e)
        m = {
            "self.i": ("(fst m)", "S"), "self.j": ("(snd m)", "S"),
            "self.i.voigt": ("(sv (fst m))", "Z"), "self.j.voigt": ("(sv (snd m))", "Z"),
            "self.i.v": ("(sv (fst m))", "Z"), "self.j.v": ("(sv (snd m))", "Z"),
            "self.i.i": ("(fst (fst m))", "Z"), "self.i.j": ("(snd (fst m))", "Z"),
            "self.j.i": ("(fst (snd m))", "Z"), "self.j.j": ("(snd (snd m))", "Z"),
            "self.is_shear": ("(is_shear m)", "B"),
            "self.is_longitudinal": ("(is_longitudinal m)", "B"),
            "self.is_off_diagonal": ("(is_off_diagonal m)", "B"),
        }
        if src in m and env.get("__self__"):
            return m[src]
        bail(e, src)
    if isinstance(e, ast.BoolOp):
        parts = [expr(v, env) for v in e.values]
        if any(t != "B" for _, t in parts):
            bail(e, "non-boolean operand")
        op = " && " if isinstance(e.op, ast.And) else " || "
        return "(" + op.join(p for p, _ in parts) + ")", "B"
    if isinstance(e, ast.UnaryOp) and isinstance(e.op, ast.Not):
        p, t = expr(e.operand, env)
        if t != "B":
            bail(e)
        return "(negb %s)" % p, "B"
    if isinstance(e, ast.Compare) and len(e.ops) == 1:
        a, ta = expr(e.left, env)
        op = e.ops[0]
        r = e.comparators[0]
        if isinstance(op, (ast.In, ast.NotIn)):
            if isinstance(r, ast.Set) and ta == "Z" and all(
                    isinstance(x, ast.Constant) and type(x.value) is int for x in r.elts):
                txt = "(zmem %s [%s])" % (a, "; ".join(z(x.value) for x in r.elts))
                return (txt if isinstance(op, ast.In) else "(negb %s)" % txt), "B"
            bail(e, "membership")
        b, tb = expr(r, env)
        if ta != tb:
            bail(e, "comparison of different types")
        eq = {"Z": "(%s =? %s)", "S": "(strain_eqb %s %s)", "B": "(Bool.eqb %s %s)"}[ta] % (a, b)
        if isinstance(op, ast.Eq):
            return eq, "B"
        if isinstance(op, ast.NotEq):
            return "(negb %s)" % eq, "B"
        bail(e, "comparison operator")
    if isinstance(e, ast.BinOp) and isinstance(e.op, ast.LShift):
        a, ta = expr(e.left, env)
        b, tb = expr(e.right, env)
        if ta == "B":
            a = "(b2z %s)" % a
        if tb == "B":
            b = "(b2z %s)" % b
        return "(Z.shiftl %s %s)" % (a, b), "Z"
    bail(e)


def single_return(fn):
    body = [s for s in fn.body if not (isinstance(s, ast.Expr) and isinstance(s.value, ast.Constant))]
    if len(body) != 1 or not isinstance(body[0], ast.Return):
        bail(fn, "expected a single return")
    return body[0].value


# ---- constructors: template-checked statement forms ----------------------------------

def norm(fn):
    body = [s for s in fn.body if not (isinstance(s, ast.Expr) and isinstance(s.value, ast.Constant))]
    return [ast.unparse(s) for s in body]


S_FROM_VOIGT = [
    "if i not in VOIGT_TO_STANDARD.keys():\n    raise RuntimeError(f'Invalid voigt index {i}')",
    "return cls(*VOIGT_TO_STANDARD[i])",
]
S_FROM_STANDARD = [
    "i, j = sorted((i, j))",
    "if (i, j) not in VOIGT_TO_STANDARD.values():\n    raise RuntimeError(f'Invalid standard index {i}{j}')",
    "return cls(i, j)",
]
M_FROM_VOIGT = [
    "return cls(*sorted((StrainRepresentation.from_voigt(i), StrainRepresentation.from_voigt(j)), key=lambda e: e.voigt))",
]
M_FROM_STANDARD = [
    "return cls(*sorted((StrainRepresentation.from_standard(i, j), StrainRepresentation.from_standard(k, l)), key=lambda e: e.voigt))",
]
S_VOIGT = ["return STANDARD_TO_VOIGT[self]"]
M_VOIGT = ["return (self.i.voigt, self.j.voigt)"]
M_STANDARD = ["return (*self.i, *self.j)"]
S_STANDARD = ["return tuple(self)"]
S_CREATE = [
    "if j is not None and i is not None:\n    return cls.from_standard(i, j)\n"
    "elif j is None and type(i) == int:\n    if i < 10:\n        return cls.from_voigt(i)\n    else:\n        return cls.create(str(i))\n"
    "elif j is None and type(i) == str:\n    return cls.create(*(int(k) for k in i))\n"
    "else:\n    raise RuntimeError(f'Invalid indices ({i}{j})')",
]
M_CREATE = [
    "if len(args) == 4:\n    return cls.from_standard(*args)\n"
    "elif len(args) == 2:\n    return cls.from_voigt(*args)\n"
    "elif len(args) == 1 and type(args[0]) == str:\n    return cls.create(*(int(c) for c in args[0]))\n"
    "elif len(args) == 1 and type(args[0]) == int:\n    return cls.create(str(args[0]))\n"
    "else:\n    raise RuntimeError(f'Invalid modulus representation {args}')",
]


def expect(fn, template, what):
    got = norm(fn)
    if got != template:
        raise Untranslatable("translator cannot read %s (line %d): body differs from the accepted form\n--- got\n%s\n--- accepted\n%s"
                             % (what, fn.lineno, "\n".join(got), "\n".join(template)))


def translate(src: str) -> str:
    mod = ast.parse(src)
    tbl = table(mod)
    check_reverse(mod)
    S = find_class(mod, "StrainRepresentation")
    M = find_class(mod, "ModulusRepresentation")
    expect(find_def(S, "from_voigt"), S_FROM_VOIGT, "StrainRepresentation.from_voigt")
    expect(find_def(S, "from_standard"), S_FROM_STANDARD, "StrainRepresentation.from_standard")
    expect(find_def(S, "voigt"), S_VOIGT, "StrainRepresentation.voigt")
    expect(find_def(S, "standard"), S_STANDARD, "StrainRepresentation.standard")
    expect(find_def(S, "create"), S_CREATE, "StrainRepresentation.create")
    expect(find_def(M, "from_voigt"), M_FROM_VOIGT, "ModulusRepresentation.from_voigt")
    expect(find_def(M, "from_standard"), M_FROM_STANDARD, "ModulusRepresentation.from_standard")
    expect(find_def(M, "voigt"), M_VOIGT, "ModulusRepresentation.voigt")
    expect(find_def(M, "standard"), M_STANDARD, "ModulusRepresentation.standard")
    expect(find_def(M, "create"), M_CREATE, "ModulusRepresentation.create")
    # field order of the NamedTuples
    for cls_, want in ((S, ["i", "j"]), (M, ["i", "j"])):
        fields = [n.target.id for n in cls_.body if isinstance(n, ast.AnnAssign)]
        if fields != want:
            raise Untranslatable("%s fields %s" % (cls_.name, fields))
    env = {"__self__": True}
    sh, t1 = expr(single_return(find_def(M, "is_shear")), env)
    lo, t2 = expr(single_return(find_def(M, "is_longitudinal")), env)
    of, t3 = expr(single_return(find_def(M, "is_off_diagonal")), env)
    mu, t4 = expr(single_return(find_def(M, "multiplicity")), env)
    if (t1, t2, t3) != ("B", "B", "B") or t4 != "Z":
        raise Untranslatable("predicate types")
    # the three predicates reference each other; order them so that definitions are well-founded
    defs = {"is_shear": sh, "is_longitudinal": lo, "is_off_diagonal": of}
    order, left = [], dict(defs)
    while left:
        prog = False
        for n, body in list(left.items()):
            if not any(("(%s m)" % o) in body for o in left if o != n) and ("(%s m)" % n) not in body:
                order.append(n)
                del left[n]
                prog = True
        if not prog:
            raise Untranslatable("cyclic predicate definitions")
    out = []
    out.append("(* GENERATED from /repo/cij/util/voigt.py by tools/translate_voigt.py - do not edit *)")
    out.append("From Coq Require Import ZArith List Bool.\nFrom Cij Require Import VoigtBase.\nImport ListNotations.\nLocal Open Scope Z_scope.\n")
    out.append("Definition voigt_table : list (Z * strain) :=\n  [%s]." % "; ".join(
        "(%s, (%s, %s))" % (z(k), z(a), z(b)) for k, (a, b) in tbl))
    out.append("""
Definition sv (s : strain) : Z := match rlookup s voigt_table with Some v => v | None => 0 end.
Definition strain_from_voigt (i : Z) : option strain := zlookup i voigt_table.
Definition strain_from_standard (i j : Z) : option strain :=
  let '(i, j) := sort2 i j in
  if smem (i, j) (map snd voigt_table) then Some (i, j) else None.
Definition mod_from_voigt (i j : Z) : option modkey :=
  obind (strain_from_voigt i) (fun a => obind (strain_from_voigt j) (fun b => Some (sort2_by sv a b))).
Definition mod_from_standard (i j k l : Z) : option modkey :=
  obind (strain_from_standard i j) (fun a => obind (strain_from_standard k l) (fun b => Some (sort2_by sv a b))).
Definition mod_voigt (m : modkey) : Z * Z := (sv (fst m), sv (snd m)).
Definition mod_standard (m : modkey) : Z * Z * Z * Z := (fst (fst m), snd (fst m), fst (snd m), snd (snd m)).
(* create(...) dispatch on the number of indices, as in the two create() classmethods *)
Definition strain_create (args : list Z) : option strain :=
  match args with
  | [i] => if i <? 10 then strain_from_voigt i else
           match digits i with [a; b] => strain_from_standard a b | _ => None end
  | [i; j] => strain_from_standard i j
  | _ => None
  end.
Definition mod_create (args : list Z) : option modkey :=
  match args with
  | [i; j; k; l] => mod_from_standard i j k l
  | [i; j] => mod_from_voigt i j
  | _ => None
  end.
Definition mod_create_int (n : Z) : option modkey :=
  match digits n with
  | [i; j; k; l] => mod_from_standard i j k l
  | [i; j] => mod_from_voigt i j
  | _ => None      (* one digit: create(int)->create(str)->create(int) never returns; others raise *)
  end.
""")
    for n in order:
        out.append("Definition %s (m : modkey) : bool := %s." % (n, defs[n]))
    out.append("Definition multiplicity (m : modkey) : Z := %s." % mu)
    return "\n".join(out) + "\n"


if __name__ == "__main__":
    import sys
    print(translate(open(sys.argv[1] if len(sys.argv) > 1 else "/repo/cij/util/voigt.py").read()))
