"""Synthetic-but-physical cij data sets (phonon file, static table, settings) for the
Calculator-based ties.  All randomness comes from the rng passed in.

Units: volumes bohr^3, energies Ry, frequencies cm^-1, moduli GPa, pressures in the phonon
file are not used by cij (only V, E, frequencies, weights are).
"""
import math
from pathlib import Path

import yaml

ALL_KEYS = ["11", "22", "33", "12", "13", "23", "44", "55", "66",
            "14", "15", "16", "24", "25", "26", "34", "35", "36", "45", "46", "56"]
ORTHO = ["11", "22", "33", "12", "13", "23", "44", "55", "66"]


def bm3_energy(v, v0, b0, bp, e0):
    """third-order Birch-Murnaghan energy; b0 in Ry/bohr^3"""
    eta = (v0 / v) ** (2.0 / 3.0)
    return e0 + 9.0 * v0 * b0 / 16.0 * ((eta - 1) ** 3 * bp + (eta - 1) ** 2 * (6 - 4 * eta))


def make_dataset(rng, nv=6, nq=2, na=2, lattice=True, keys=None, v0=None, spectrum="powerlaw",
                 nm=1, positive_definite=True, grun=(0.4, 2.2), table_volumes="same"):
    """returns dict(qha=<QHAInputData-like dict>, elast=<dict>) of plain python numbers rounded to the
    precision the file formats carry"""
    np_ = 3 * na
    v0 = v0 or rng.uniform(150.0, 400.0) * na / 2
    ratios = [1.06 - 0.035 * k * (6.0 / max(nv, 2)) * rng.uniform(0.9, 1.1) for k in range(nv)]
    ratios = sorted(set(round(r, 6) for r in ratios), reverse=True)
    while len(ratios) < nv:
        ratios.append(round(ratios[-1] - 0.02, 6))
    vols = [round(v0 * r, 6) for r in ratios]          # strictly decreasing
    b0 = rng.uniform(120, 260) / 14710.507            # GPa -> Ry/bohr^3
    bp = rng.uniform(3.6, 4.6)
    e0 = -rng.uniform(50, 300)
    energies = [round(bm3_energy(v, v0, b0, bp, e0), 6) for v in vols]
    # q points and weights
    qcoords = [(0.0, 0.0, 0.0)] + [(round(rng.uniform(-0.5, 0.5), 4), round(rng.uniform(-0.5, 0.5), 4),
                                    round(rng.uniform(-0.5, 0.5), 4)) for _ in range(nq - 1)]
    weights = [round(rng.choice([1, 2, 3, 4, 6, 8]) * 1.0, 6) for _ in range(nq)]
    # mode parameters: w(V) = w0 * (V/v0)^(-g) * exp(-h/2 * ln(V/v0)^2)
    modes = []
    for q in range(nq):
        row = []
        for m in range(np_):
            w0 = rng.uniform(80.0, 1100.0)
            g = rng.uniform(*grun)
            h = 0.0 if spectrum == "powerlaw" else rng.uniform(-1.0, 1.0)
            # "wiggly": not a polynomial in ln V of any low degree (node choice of an interpolator matters)
            a, k = (rng.uniform(0.004, 0.02), rng.uniform(15.0, 40.0)) if spectrum == "wiggly" else (0.0, 0.0)
            row.append((w0, g, h, a, k))
        row.sort()
        modes.append(row)
    volumes = []
    for v, e in zip(vols, energies):
        x = math.log(v / v0)
        qpts = []
        for q in range(nq):
            fr = []
            for m in range(np_):
                w0, g, h, a, k = modes[q][m]
                w = w0 * math.exp(-g * x - 0.5 * h * x * x + a * math.sin(k * x))
                if q == 0 and m < 3:
                    w = round(rng.uniform(-0.2, -0.01), 6)   # acoustic at Gamma: small negative, QHA treats as 0
                fr.append(round(w, 6))
            qpts.append((qcoords[q], fr))
        p = round(-(bm3_energy(v * 1.0005, v0, b0, bp, e0) - bm3_energy(v * 0.9995, v0, b0, bp, e0))
                  / (v * 0.001) * 147105.07, 6)   # kbar, informational
        volumes.append(dict(pressure=p, volume=v, energy=e, q_points=qpts))
    qha = dict(nv=nv, nq=nq, np=np_, nm=nm, na=na, weights=list(zip(qcoords, weights)), volumes=volumes)

    keys = list(keys or ORTHO)
    cellmass = round(rng.uniform(20, 60) * na, 3)
    # static moduli: orthotropic-dominant, linear-ish in compression, positive definite
    base = {}
    for k in keys:
        if k in ("11", "22", "33"):
            base[k] = rng.uniform(300, 500)
        elif k in ("12", "13", "23"):
            base[k] = rng.uniform(80, 160)
        elif k in ("44", "55", "66"):
            base[k] = rng.uniform(90, 200)
        else:
            base[k] = rng.uniform(-25, 25)
    slope = {k: rng.uniform(2.0, 6.0) if k in ORTHO else rng.uniform(-0.5, 0.5) for k in keys}
    rows = []
    # the static table may be tabulated on its own volume points (docs: "at a series of volume points"), not the
    # phonon file's: "shifted" = same count, other points; "more"/"fewer" = another count
    pvols = vols
    if table_volumes != "same":
        r2 = random_like(rng)
        nt_ = {"shifted": nv, "more": nv + 2, "fewer": max(4, nv - 1)}[table_volumes]
        hi, lo = vols[0] * 1.004, vols[-1] * 0.996
        vols = sorted({round(hi - (hi - lo) * (k + r2.uniform(-0.3, 0.3)) / (nt_ - 1), 6) for k in range(nt_)}, reverse=True)
    for v in vols:
        comp = (v0 / v - 1.0) * 100.0
        rows.append([round(base[k] + slope[k] * comp * 3 + 0.05 * comp * comp, 3) for k in keys])
    lat = []
    if lattice:
        a0, b0_, c0 = rng.uniform(4, 6), rng.uniform(4, 6), rng.uniform(5, 9)
        ka, kb = rng.uniform(0.25, 0.4), rng.uniform(0.25, 0.4)
        kc = 1.0 - ka - kb
        for v in vols:
            x = math.log(v / v0)
            lat.append((round(a0 * math.exp(ka * x), 8), round(b0_ * math.exp(kb * x), 8),
                        round(c0 * math.exp(kc * x), 8)))
    elast = dict(vref=pvols[min(1, nv - 1)], nv=len(vols), cellmass=cellmass, keys=keys, volumes=vols, rows=rows,
                 lattice=lat)
    return dict(qha=qha, elast=elast)


def random_like(rng):
    """an independent generator seeded from rng WITHOUT advancing it (keeps the default stream of make_dataset stable)"""
    import random
    return random.Random(repr(rng.getstate()[1][:4]))


def write_qha(path, qha, comment="QHA Input data"):
    from cij.io.traditional.qha_input import write_energy, QHAInputData, VolumeData, QPointData, QPointWeight
    data = QHAInputData(qha["nv"], qha["nq"], qha["np"], qha["nm"], qha["na"],
                        [QPointWeight(tuple(c), w) for c, w in qha["weights"]],
                        [VolumeData(v["pressure"], v["volume"], v["energy"],
                                    [QPointData(tuple(c), list(m)) for c, m in v["q_points"]])
                         for v in qha["volumes"]])
    write_energy(str(path), data, comment)


def elast_text(elast, prefix="c", header="V_0 N cellmass synthetic", lattice_header="lattice_a lattice_b lattice_c"):
    lines = [header, "%.6f %d %.3f" % (elast["vref"], elast["nv"], elast["cellmass"])]
    lines.append("V " + " ".join("%s%s" % (prefix, k) for k in elast["keys"]))
    for v, row in zip(elast["volumes"], elast["rows"]):
        lines.append("%.6f " % v + " ".join("%.3f" % x for x in row))
    if elast["lattice"]:
        lines.append(lattice_header)
        for a, b, c in elast["lattice"]:
            lines.append("%.8f %.8f %.8f" % (a, b, c))
    return "\n".join(lines) + "\n"


def default_settings(**over):
    s = dict(
        qha=dict(input="input01", settings=dict(T_MIN=0, DT=100, DT_SAMPLE=100, NT=6, P_MIN=0, DELTA_P=1,
                                                 DELTA_P_SAMPLE=1, NTV=21, order=3, static_only=False,
                                                 volume_ratio=1.2)),
        elast=dict(input="elast.dat", settings=dict(mode_gamma=dict(interpolator="lsq_poly", order=2),
                                                    symmetry=dict(system="triclinic"))),
        output=dict(pressure_base=["cij", "bm_VRH", "G_VRH", "v", "vs", "vp"], volume_base=["p"]),
    )

    def merge(a, b):
        for k, v in b.items():
            if isinstance(v, dict) and isinstance(a.get(k), dict):
                merge(a[k], v)
            else:
                a[k] = v
    merge(s, over)
    return s


def write_case(dirpath, ds, settings=None):
    d = Path(dirpath)
    d.mkdir(parents=True, exist_ok=True)
    write_qha(d / "input01", ds["qha"])
    (d / "elast.dat").write_text(elast_text(ds["elast"]))
    s = settings or default_settings()
    (d / "settings.yaml").write_text(yaml.safe_dump(s, sort_keys=False))
    return d / "settings.yaml"


def run_calculator(settings_path):
    import cij.core.calculator
    return cij.core.calculator.Calculator(str(settings_path))
