#!/bin/bash
# usage: ingest_round.sh <round> "ID checks" ...   (worktrees /tmp/w<round>_<ID>; result in seeded/<ID>-r<round>)
cd /verif
r=$1; shift
for spec in "$@"; do
  set -- $spec
  python3 tools/ingest_seed.py $1 /tmp/w${r}_$1 --name r$r --checks $2 > /verif/coq/run/ingest${r}_$1.log 2>&1
done
