#!/usr/bin/env python3
"""Confirm a seeded change produced by an independent sub-agent and store it under /verif/seeded/<ID>[-n]/.

usage: ingest_seed.py ID /tmp/wt_ID [--checks C01,C02] [--name suffix]
Steps (all in a fresh scratch worktree of /repo, removed afterwards):
  demo on original (must exit 0) -> apply patch -> demo (must exit != 0) -> unedited test suite
  (same pass set as the unchanged tree) -> ./check <ID> with VERIF_REPO pointing at the changed copy.
"""
import json, os, shutil, subprocess, sys, time

def sh(cmd, cwd=None, env=None, timeout=3000):
    p = subprocess.run(cmd, shell=True, cwd=cwd, env=env, stdout=subprocess.PIPE, stderr=subprocess.STDOUT, text=True, timeout=timeout)
    return p.returncode, p.stdout

def main():
    pid, wt = sys.argv[1], sys.argv[2]
    checks = [pid]
    name = pid
    for i, a in enumerate(sys.argv):
        if a == "--checks": checks = sys.argv[i+1].split(",")
        if a == "--name": name = pid + "-" + sys.argv[i+1]
    dst = "/verif/seeded/%s" % name
    os.makedirs(dst, exist_ok=True)
    patch = open(os.path.join(wt, "patch.diff")).read()
    demo = [f for f in os.listdir(wt) if f.startswith("demo_") and f.endswith(".py")]
    assert demo, "no demo file"
    demo = demo[0]
    open(os.path.join(dst, "patch.diff"), "w").write(patch)
    shutil.copy(os.path.join(wt, demo), os.path.join(dst, demo))
    cf = "/tmp/cf_%s" % name
    sh("git -C /repo worktree remove --force %s" % cf)
    rc, out = sh("git -C /repo worktree add -q --detach %s HEAD" % cf); assert rc == 0, out
    env = dict(os.environ, PYTHONPATH=cf, NUMBA_CACHE_DIR="/verif/coq/run/.numba", PYTHONHASHSEED="0", MPLBACKEND="Agg")
    shutil.copy(os.path.join(dst, demo), os.path.join(cf, demo))
    meta = dict(property=pid, name=name, repo_head=sh("git -C /repo rev-parse --short HEAD")[1].strip())
    rc0, out0 = sh("/venv/bin/python -W ignore %s" % demo, cwd=cf, env=env)
    meta["demo_on_original"] = dict(exit=rc0, tail=out0[-600:])
    rc, out = sh("git apply %s" % os.path.join(dst, "patch.diff"), cwd=cf)
    meta["patch_applies"] = (rc == 0)
    rc1, out1 = sh("/venv/bin/python -W ignore %s" % demo, cwd=cf, env=env)
    meta["demo_on_changed"] = dict(exit=rc1, tail=out1[-900:])
    t0 = time.time()
    rct, outt = sh("timeout 1500 /venv/bin/python -m pytest -q -p no:cacheprovider --timeout=900 --continue-on-collection-errors 2>&1 | tail -6", cwd=cf, env=env)
    meta["test_suite_on_changed"] = outt.strip().splitlines()[-4:]
    meta["checks"] = {}
    for c in checks:
        rc2, out2 = sh("VERIF_TAG=ing_%s VERIF_REPO=%s /verif/check %s" % (name, cf, c), cwd="/verif", timeout=3000)
        lines = [l for l in out2.splitlines() if l.startswith("VIOLATION") or l.startswith("KNOWN-FINDING") or l.startswith(c + " tier=")]
        replays = []
        for l in lines:
            if l.startswith("VIOLATION") and "replay=" in l:
                rp = l.split("replay=")[1].split()[0]
                try:
                    r = json.load(open(rp))
                    fi = r.get("failing_input") or {}
                    replays.append(dict(key=fi.get("key"), what=(fi.get("what") or "")[:300], no_failing_input=("no-failing-input-found" in l)))
                except Exception as e:
                    replays.append(dict(error=str(e)))
        meta["checks"][c] = dict(exit=rc2, lines=lines[:12], replays=replays[:8])
    sh("git -C /repo worktree remove --force %s" % cf)
    shutil.rmtree(cf, ignore_errors=True)
    sh("git -C /repo worktree prune")
    ok_demo = (rc0 == 0 and rc1 != 0)
    meta["confirmed"] = bool(ok_demo and meta["patch_applies"])
    meta["detected_by"] = [c for c in checks if meta["checks"][c]["exit"] == 1]
    json.dump(meta, open(os.path.join(dst, "meta.json"), "w"), indent=1)
    print(json.dumps({k: meta[k] for k in ("name", "confirmed", "detected_by", "test_suite_on_changed")}, indent=1))
    print("demo original exit", rc0, "changed exit", rc1)

main()
