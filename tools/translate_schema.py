"""Fail-closed translator for C16.

  config.schema.json          ->  Gen_schema.v    (Cij.SchemaModel.schema terms: `definitions`, `root`)
  default/settings.yaml,
  examples/*/settings.yaml    ->  Gen_defaults.v  (Cij.JsonModel.json terms)

Accepted JSON-Schema subset (anything else raises Untranslatable, which the check reports as a
broken tie):
  * a schema is `true`, `false` or an object; no "$schema" (jsonschema then selects Draft 2020-12,
    where the siblings of "$ref" are evaluated too - asserted at run time by the property module);
  * modelled keywords: type (one of / list of the seven JSON types), required (list of strings),
    properties (object of subschemas - a member called "additionalProperties" here is an ordinary
    property name), enum (list of strings), minimum (finite int/float, not bool),
    additionalProperties (subschema), "$ref": "#/definitions/<name>" with <name> defined at the root;
  * "definitions" at the root only: object of subschemas that contain no "$ref";
  * every other member is IGNORED iff jsonschema ignores it too, i.e. it is not a keyword of any
    JSON-Schema draft known to jsonschema (hard-coded list ACTIVE plus, when importable, the
    VALIDATORS table of the selected validator class); the ignored names are listed in the output.
    A known keyword outside the modelled subset aborts.
  Sets (properties, required, enum, type lists, definitions) are emitted in sorted order - their
  order has no meaning in JSON Schema - so that the re-proved characterisation does not depend on
  the textual order in the schema file.

Accepted YAML subset: block/flow mappings with plain-string keys, sequences, scalars resolved to
str / int / float / bool / null; no aliases, no merge keys, no explicit non-core tags, no duplicate
keys, ASCII strings only.  The values are the ones `yaml.load(..., Loader=yaml.FullLoader)` returns
(the loader cij uses); the node graph is only inspected to reject everything outside the subset.
"""
import json
import math
import re


class Untranslatable(Exception):
    pass


# ----------------------------------------------------------------------------------------
# Python value -> Gallina json term
# ----------------------------------------------------------------------------------------

def zlit(n):
    return "(%d)" % n if n < 0 else "%d" % n


def coq_string(s):
    if not isinstance(s, str):
        raise Untranslatable("not a string: %r" % (s,))
    if not all(32 <= ord(c) < 127 for c in s):
        raise Untranslatable("non-ASCII or control character in string %r" % (s,))
    return '"' + s.replace('"', '""') + '"'


def float_parts(x):
    """finite float -> (m, e) with x == m * 2**e, m odd or (0, 0)"""
    n, d = x.as_integer_ratio()
    if n == 0:
        return 0, 0
    e = -(d.bit_length() - 1)
    assert d == 1 << (-e)
    tz = (n & -n).bit_length() - 1
    return n >> tz, e + tz


def num_term(x):
    if type(x) is int:
        return "NInt %s" % zlit(x)
    if type(x) is float:
        if math.isnan(x):
            return "NNan"
        if math.isinf(x):
            return "NInf %s" % ("true" if x < 0 else "false")
        m, e = float_parts(x)
        return "NFlt %s %s" % (zlit(m), zlit(e))
    raise Untranslatable("not a number: %r" % (x,))


def json_term(v, ind=0):
    """Python value (as loaded by json / yaml) -> Gallina term of type json"""
    pad = " " * ind
    if v is None:
        return "JNull"
    if type(v) is bool:
        return "JBool %s" % ("true" if v else "false")
    if type(v) in (int, float):
        return "JNum (%s)" % num_term(v)
    if type(v) is str:
        return "JStr %s" % coq_string(v)
    if type(v) is list:
        if not v:
            return "JArr []"
        return "JArr [" + "; ".join(json_term(x, ind + 2) for x in v) + "]"
    if type(v) is dict:
        if not v:
            return "JObj []"
        items = []
        for k, x in v.items():
            if type(k) is not str:
                raise Untranslatable("non-string dict key %r" % (k,))
            items.append("(%s, %s)" % (coq_string(k), json_term(x, ind + 2)))
        return "JObj [\n" + pad + "  " + (";\n" + pad + "  ").join(items) + "]"
    raise Untranslatable("value of unsupported type %s: %r" % (type(v).__name__, v))


# ----------------------------------------------------------------------------------------
# JSON Schema -> Gallina schema term
# ----------------------------------------------------------------------------------------

MODELLED = {"type", "required", "properties", "enum", "minimum", "additionalProperties", "$ref"}
# every keyword some JSON-Schema draft (3 .. 2020-12) gives a meaning to and that is not modelled
ACTIVE = {
    "$schema", "$id", "id", "$anchor", "$dynamicRef", "$dynamicAnchor", "$recursiveRef", "$recursiveAnchor",
    "$vocabulary", "$defs", "allOf", "anyOf", "oneOf", "not", "if", "then", "else", "const", "contains",
    "minContains", "maxContains", "dependencies", "dependentRequired", "dependentSchemas", "exclusiveMaximum",
    "exclusiveMinimum", "format", "items", "additionalItems", "prefixItems", "maxItems", "minItems",
    "maxLength", "minLength", "maxProperties", "minProperties", "maximum", "multipleOf", "divisibleBy",
    "pattern", "patternProperties", "propertyNames", "unevaluatedItems", "unevaluatedProperties",
    "uniqueItems", "extends", "disallow", "contentEncoding", "contentMediaType", "contentSchema",
}
TYPES = {"null": "TNull", "boolean": "TBoolean", "integer": "TInteger", "number": "TNumber",
         "string": "TString", "array": "TArray", "object": "TObject"}
TYPE_ORDER = ["null", "boolean", "integer", "number", "string", "array", "object"]
REF = re.compile(r"^#/definitions/([A-Za-z0-9_]+)$")


def _no_dups(pairs):
    d = {}
    for k, v in pairs:
        if k in d:
            raise Untranslatable("duplicate member %r in a JSON object" % k)
        d[k] = v
    return d


def _reject_constant(name):
    raise Untranslatable("non-standard JSON constant %s" % name)


def load_json_strict(text):
    return json.loads(text, object_pairs_hook=_no_dups, parse_constant=_reject_constant)


def lib_keywords(schema):
    try:
        from jsonschema import validators
        return set(validators.validator_for(schema).VALIDATORS)
    except Exception:
        return set()


class SchemaTranslator:
    def __init__(self, root):
        if not isinstance(root, dict):
            raise Untranslatable("root schema is not an object")
        self.root = root
        self.active = ACTIVE | lib_keywords(root)
        self.ignored = set()
        defs = root.get("definitions", {})
        if not isinstance(defs, dict):
            raise Untranslatable('"definitions" is not an object')
        self.defnames = set(defs)
        for n in defs:
            if not re.match(r"^[A-Za-z0-9_]+$", n):
                raise Untranslatable("definition name %r" % n)

    def schema(self, s, where, ind, allow_ref=True, is_root=False):
        pad = " " * ind
        if s is True or s is False:
            return "SBool %s" % ("true" if s else "false")
        if not isinstance(s, dict):
            raise Untranslatable("%s: a schema must be an object or a boolean, got %r" % (where, s))
        for k in s:
            if k in MODELLED:
                continue
            if k == "definitions":
                if not is_root:
                    raise Untranslatable('%s: "definitions" below the root' % where)
                continue
            if k in self.active:
                raise Untranslatable("%s: JSON-Schema keyword %r is outside the modelled subset" % (where, k))
            self.ignored.add(k)
        # type
        ty = "None"
        if "type" in s:
            t = s["type"]
            ts = [t] if isinstance(t, str) else t
            if not (isinstance(ts, list) and ts and all(isinstance(x, str) and x in TYPES for x in ts)):
                raise Untranslatable("%s: type %r" % (where, t))
            ty = "(Some [%s])" % "; ".join(TYPES[x] for x in sorted(set(ts), key=TYPE_ORDER.index))
        # required
        req = "[]"
        if "required" in s:
            r = s["required"]
            if not (isinstance(r, list) and all(isinstance(x, str) for x in r)):
                raise Untranslatable("%s: required %r" % (where, r))
            req = "[%s]" % "; ".join(coq_string(x) for x in sorted(set(r)))
        # properties
        props = "[]"
        if "properties" in s:
            p = s["properties"]
            if not isinstance(p, dict):
                raise Untranslatable("%s: properties is not an object" % where)
            if p:
                items = ["(%s, %s)" % (coq_string(k), self.schema(p[k], where + "/properties/" + k, ind + 4,
                                                                   allow_ref)) for k in sorted(p)]
                props = "[\n" + pad + "    " + (";\n" + pad + "    ").join(items) + "]"
        # enum
        en = "None"
        if "enum" in s:
            e = s["enum"]
            if not (isinstance(e, list) and all(type(x) is str for x in e)):
                raise Untranslatable("%s: enum with non-string members %r" % (where, e))
            en = "(Some [%s])" % "; ".join(coq_string(x) for x in sorted(set(e)))
        # minimum
        mn = "None"
        if "minimum" in s:
            m = s["minimum"]
            if type(m) not in (int, float) or (type(m) is float and not math.isfinite(m)):
                raise Untranslatable("%s: minimum %r" % (where, m))
            mn = "(Some (%s))" % num_term(m)
        # additionalProperties
        ap = "(SBool true)"
        if "additionalProperties" in s:
            ap = "(%s)" % self.schema(s["additionalProperties"], where + "/additionalProperties", ind + 4, allow_ref)
        # $ref
        ref = "None"
        if "$ref" in s:
            r = s["$ref"]
            m = REF.match(r) if isinstance(r, str) else None
            if not m:
                raise Untranslatable("%s: $ref %r is not of the form #/definitions/<name>" % (where, r))
            if not allow_ref:
                raise Untranslatable("%s: $ref inside definitions" % where)
            if m.group(1) not in self.defnames:
                raise Untranslatable("%s: $ref %r does not resolve" % (where, r))
            ref = "(Some %s)" % coq_string(m.group(1))
        return "SObj %s %s %s %s %s %s %s" % (ty, req, props, en, mn, ap, ref)


def translate_schema(text):
    """text of config.schema.json -> (text of Gen_schema.v, sorted list of ignored members)"""
    root = load_json_strict(text)
    tr = SchemaTranslator(root)
    defs = root.get("definitions", {})
    dterms = ["(%s, %s)" % (coq_string(n), tr.schema(defs[n], "#/definitions/" + n, 2, allow_ref=False))
              for n in sorted(defs)]
    rterm = tr.schema(root, "#", 0, allow_ref=True, is_root=True)
    ignored = sorted(tr.ignored)
    out = [
        "(* generated by tools/translate_schema.py from cij/data/schema/config.schema.json - do not edit *)",
        "From Coq Require Import ZArith List String.",
        "From Cij Require Import JsonModel SchemaModel.",
        "Import ListNotations.",
        "Local Open Scope Z_scope.",
        "Local Open Scope string_scope.",
        "",
        "Definition definitions : list (string * schema) := [" + (";\n  ".join([""] + dterms)[1:] if dterms else "")
        + "].",
        "",
        "Definition root : schema :=\n  " + rterm + ".",
        "",
        "(* members ignored by jsonschema and therefore absent above *)",
        "Definition ignored_members : list string := [%s]." % "; ".join(coq_string(x) for x in ignored),
        "",
    ]
    return "\n".join(out), ignored


# ----------------------------------------------------------------------------------------
# YAML (strict subset) -> Gallina json term
# ----------------------------------------------------------------------------------------

YAML_OK = {"tag:yaml.org,2002:%s" % t for t in ("map", "seq", "str", "int", "float", "bool", "null")}


def check_yaml_graph(node, seen, where):
    import yaml
    if id(node) in seen:
        raise Untranslatable("%s: YAML alias (shared node)" % where)
    seen.add(id(node))
    if node.tag not in YAML_OK:
        raise Untranslatable("%s: YAML tag %s" % (where, node.tag))
    if isinstance(node, yaml.MappingNode):
        ks = set()
        for k, v in node.value:
            if not (isinstance(k, yaml.ScalarNode) and k.tag == "tag:yaml.org,2002:str"):
                raise Untranslatable("%s: mapping key %r is not a plain string" % (where, getattr(k, "value", k)))
            if k.value in ks:
                raise Untranslatable("%s: duplicate key %r" % (where, k.value))
            ks.add(k.value)
            check_yaml_graph(v, seen, where + "/" + k.value)
    elif isinstance(node, yaml.SequenceNode):
        for i, v in enumerate(node.value):
            check_yaml_graph(v, seen, "%s[%d]" % (where, i))
    elif not isinstance(node, yaml.ScalarNode):
        raise Untranslatable("%s: unknown YAML node %r" % (where, node))


def load_yaml_strict(text, where="yaml"):
    import yaml
    docs = list(yaml.compose_all(text, Loader=yaml.FullLoader))
    if len(docs) != 1:
        raise Untranslatable("%s: %d YAML documents" % (where, len(docs)))
    check_yaml_graph(docs[0], set(), where)
    return yaml.load(text, Loader=yaml.FullLoader)


def translate_defaults(default_text, examples):
    """examples: list of (name, yaml text) -> text of Gen_defaults.v"""
    d = load_yaml_strict(default_text, "default/settings.yaml")
    out = [
        "(* generated by tools/translate_schema.py from cij/data/default/settings.yaml and examples/*/settings.yaml *)",
        "From Coq Require Import ZArith List String.",
        "From Cij Require Import JsonModel.",
        "Import ListNotations.",
        "Local Open Scope Z_scope.",
        "Local Open Scope string_scope.",
        "",
        "Definition default_settings : json :=\n  " + json_term(d, 2) + ".",
        "",
    ]
    names = []
    for name, text in examples:
        ident = "example_" + re.sub(r"[^A-Za-z0-9_]", "_", name)
        v = load_yaml_strict(text, "examples/%s/settings.yaml" % name)
        out += ["Definition %s : json :=\n  %s." % (ident, json_term(v, 2)), ""]
        names.append((name, ident))
    out += ["Definition examples : list (string * json) := [%s]."
            % "; ".join("(%s, %s)" % (coq_string(n), i) for n, i in names), ""]
    return "\n".join(out)
