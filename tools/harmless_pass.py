#!/usr/bin/env python3
"""Robustness round: behaviour-preserving refactorings (harmless/<tag>/patch.diff, produced by independent sub-agents
that saw only the repository) are applied to a scratch worktree of /repo and EVERY registered quick check is run on
it.  Wanted outcome: exit 0 everywhere.  A VIOLATION with a concrete failing input on such a patch would be a false
alarm of the dynamic stages (to be fixed); `no-failing-input-found` is a static obligation that a harmless rewrite
broke (allowed by the task brief, but each one is looked at: widen the translator grammar where that is sound).
usage: harmless_pass.py <tag> [checks...]      writes harmless/<tag>/result.json"""
import json
import subprocess
import sys
from pathlib import Path

V = Path("/verif")
ALL = ["C%02d" % i for i in range(1, 21)]


def sh(cmd, **k):
    return subprocess.run(cmd, shell=True, capture_output=True, text=True, **k)


def main():
    tag = sys.argv[1]
    checks = sys.argv[2:] or ALL
    d = V / "harmless" / tag
    wt = "/tmp/hl_%s" % tag
    sh("git -C /repo worktree remove --force %s" % wt)
    r = sh("git -C /repo worktree add -q --detach %s HEAD" % wt)
    assert r.returncode == 0, r.stderr
    out = dict(tag=tag, repo_head=sh("git -C /repo rev-parse --short HEAD").stdout.strip(), checks={})
    if (d / "result.json").exists() and sys.argv[2:]:        # re-run of selected checks: keep the other results
        try:
            out["checks"] = json.loads((d / "result.json").read_text()).get("checks", {})
        except Exception:      # noqa: BLE001
            pass
    try:
        r = sh("git -C %s apply %s" % (wt, d / "patch.diff"))
        out["patch_applies"] = r.returncode == 0
        if r.returncode:
            out["error"] = r.stderr[-400:]
        else:
            for c in checks:
                p = sh("VERIF_TAG=hl_%s VERIF_REPO=%s %s/check %s --tier quick" % (tag, wt, V, c), timeout=3000)
                lines = [ln for ln in p.stdout.splitlines() if ln.startswith("VIOLATION")]
                det = []
                for ln in lines:
                    rp = ln.split("replay=")[1].split()[0]
                    try:
                        rj = json.load(open(rp))
                        fi = rj.get("failing_input") or {}
                        det.append(dict(no_failing_input="no-failing-input-found" in ln, key=fi.get("key"),
                                        what=(fi.get("what") or "")[:200],
                                        broken=[(o.get("name") if isinstance(o, dict) else str(o))[:160] for o in
                                                (rj.get("no_longer_checks") or rj.get("broken_obligations") or [])][:6]))
                    except Exception as e:     # noqa: BLE001
                        det.append(dict(error=str(e)))
                out["checks"][c] = dict(exit=p.returncode, violations=det)
                print(tag, c, p.returncode, [(x.get("key"), x.get("no_failing_input")) for x in det][:4], flush=True)
                (d / "result.json").write_text(json.dumps(out, indent=1))
    finally:
        sh("git -C /repo worktree remove --force %s" % wt)
    (d / "result.json").write_text(json.dumps(out, indent=1))


if __name__ == "__main__":
    main()
