"""Fail-closed translator for the two table-extraction command-line tools of cij (C19).

    cij/cli/extract.py     load_data, main
    cij/cli/geotherm.py    load_data, fit_data, main
  ->  Gallina definitions over the class `Ops F` (Gen_cli.v), written against the vocabulary of
      tools/tie_cli/CliTieBase.v (glob / fnmatch, DataFrame and numpy operations on label lists, dict, frames) and
      proved equal to theories/ExtractModel.v by the lemma files tools/tie_cli/Tie_cli_*.v.

The statement level (assignments, if / elif / else, `X != None` on click options, for loops with computed loop-carried
state, unbound locals, return / raise) is translate_core.FunTr.  EXPRESSION GRAMMAR accepted here (anything else raises
TranslateError naming file, line and construct):

  load_data(var)            e ::= f"...{var}..."  (pieces: the parameter, literal text without [ ] /)      -> string ++
                                | "...{}...".format(var)  (plain positional fields only, str arguments)    -> the same ++
                                | glob(e)  (glob bound by `from glob import glob`; also glob.glob)          -> py_glob listing e
                                | sorted(e)                                                                -> py_sorted e
                                | e[INT]                                                                   -> py_index e INT (IndexError = None)
                                | pandas.read_table(e, sep=<"\\s+">, index_col=0)                           -> read_table e
                                | local bound by `name = e`
  main of extract.py        temperature / pressure : Optional[float] (click.FLOAT, no default);  `X != None`, `X is not None`
                            load_data(var)                      -> load_data var        (may raise)
                            df.T | df.columns | df.index | (Index).to_numpy() / .values
                            arr - y                             -> np_sub_s             (array minus scalar)
                            numpy.abs / numpy.absolute / numpy.fabs (arr)   -> np_abs
                            numpy.argmin(arr) | arr.argmin()    -> np_argmin
                            df.iloc[k]                          -> df_iloc df k
                            {} ; d[k] = series ; d[k]           -> dict_empty, dict_set, dict_get (KeyError = None)
                            for k, v in d.items():              -> py_for over dict_items d (insertion order; the body may not assign d)
                            pandas.DataFrame(columns=<list of names>, index=<labels>)   -> oframe_new
                            table[k] = series                   -> oframe_set  (assignment ALIGNS on the index labels)
  fit_data(df)              df.index.to_numpy(), df.columns.to_numpy(), df.to_numpy(), RectBivariateSpline(x, y, z) -> mk_spline
  main of geotherm.py       pandas.read_table(geotherm, sep="\\s+", index_col=None, header=0)       -> the parameter geo
                            load_data(var) | fit_data(df)       -> gg_fit_data df
                            spl(a, b, grid=False)               -> spline_call spline spl a b   (pointwise evaluation)
                            table[name]  | table[name] = column -> fget (KeyError = None), fset

  all functions            NAME(args) with NAME another module-level function whose body is straight-line ([imports] (local = e)*
                            return e, no decorators / defaults / keywords): INLINED (translate_core.inline_call) - arguments first,
                            body in an environment holding only its parameters, names through ITS OWN imports
                            dict()  ==  {}  ;  variables.split(',') used in place (e.g. as the loop iterable)

ONLY PATTERN-CHECKED (exact text after ast.unparse; no semantics in Coq) - glue:
  * the import statements at the top of each function;  `variables = variables.split(',')` as the first use of variables;
  * in load_data: `df.columns = [float(x) for x in df.columns]` or `df.columns = list(map(float, df.columns))` (the same list
    when list / map / float are not rebound in the module - checked), likewise for df.index (labels become floats; the
    model's tables carry float labels) and the keyword arguments of read_table;
  * the click decorators are READ (option strings -> parameter name by click's rule, default, type, flag) and the
    defaults of --t-col / --p-col are emitted as Gallina strings; click itself is trusted;
  * `print(table.to_string(header=not hide_header[, index=False]))` as the last statement: the result IS `table`;
  * `if __name__ == '__main__': main()`.
"""
import ast
import re

from translate_core import (TranslateError, FunTr, Val, src_of, parse, body_no_doc, coq_str, find_function, plain_params,
                            forbid_dynamic, leading_imports, assigned_names, builtins_unshadowed)

EXTRACT = "cij/cli/extract.py"
GEOTHERM = "cij/cli/geotherm.py"

LOAD_IMPORTS = {"import pandas": {"pandas": "pandas"}, "from glob import glob": {"glob": "glob.glob"},
                "import glob": {"glob": "glob"}}
MAIN_IMPORTS = {"import glob": {"glob": "glob"}, "import pandas": {"pandas": "pandas"}, "import numpy": {"numpy": "numpy"}}
FIT_IMPORTS = {"from scipy.interpolate import RectBivariateSpline": {"RectBivariateSpline": "scipy.interpolate.RectBivariateSpline"},
               "import scipy.interpolate": {"scipy": "scipy"}}
HELPER_IMPORTS = dict(MAIN_IMPORTS)
SEP_WS = "\\s+"
SPLIT_GLUE = "variables = variables.split(',')"


# ==========================================================================================================
# click decorators
# ==========================================================================================================

def click_signature(fn, file, command):
    """reads @click.command / @click.option decorators: returns {param: dict(opts, default, type, flag, required)}"""
    decs = list(fn.decorator_list)
    if not decs or not isinstance(decs[0], ast.Call) or src_of(decs[0].func) != "click.command":
        raise TranslateError(file, fn, "first decorator of main is not @click.command(...)")
    c = decs[0]
    if not (len(c.args) == 1 and isinstance(c.args[0], ast.Constant) and c.args[0].value == command) or \
            any(k.arg not in ("help", "short_help") for k in c.keywords):
        raise TranslateError(file, c, "@click.command is not click.command(%r, help=...)" % command)
    out = {}
    for d in decs[1:]:
        if not isinstance(d, ast.Call) or src_of(d.func) != "click.option":
            raise TranslateError(file, d, "decorator `%s` (only @click.option)" % src_of(d)[:60])
        if not d.args or not all(isinstance(a, ast.Constant) and isinstance(a.value, str) for a in d.args):
            raise TranslateError(file, d, "click.option with non-literal option names")
        names = [a.value for a in d.args]
        explicit = [n for n in names if not n.startswith("-")]
        dashed = [n for n in names if n.startswith("-")]
        if len(explicit) > 1 or not dashed or any(not re.fullmatch(r"--?[A-Za-z][A-Za-z0-9-]*", n) for n in dashed):
            raise TranslateError(file, d, "click.option names %r" % names)
        if explicit:
            param = explicit[0]
        else:
            # click (Option._parse_decls): candidates sorted by the length of their dash prefix, longest first, stable;
            # the first one names the parameter, dashes -> underscores, lower case
            best = sorted(dashed, key=lambda n: -(len(n) - len(n.lstrip("-"))))[0]
            param = best.lstrip("-").replace("-", "_").lower()
            if not param.isidentifier():
                raise TranslateError(file, d, "click.option name %r does not give an identifier" % best)
        info = dict(opts=dashed, default=None, has_default=False, type=None, flag=False, required=False)
        for k in d.keywords:
            if k.arg in ("help", "show_default"):
                continue
            if k.arg == "default":
                if not isinstance(k.value, ast.Constant):
                    raise TranslateError(file, d, "non-literal default of option %s" % param)
                info["default"], info["has_default"] = k.value.value, True
            elif k.arg == "type":
                info["type"] = src_of(k.value)
            elif k.arg == "is_flag":
                if not isinstance(k.value, ast.Constant) or not isinstance(k.value.value, bool):
                    raise TranslateError(file, d, "is_flag of option %s" % param)
                info["flag"] = k.value.value
            elif k.arg == "required":
                if not isinstance(k.value, ast.Constant) or not isinstance(k.value.value, bool):
                    raise TranslateError(file, d, "required of option %s" % param)
                info["required"] = k.value.value
            else:
                raise TranslateError(file, d, "keyword `%s` of click.option (accepted: help, show_default, default, type, "
                                              "is_flag, required)" % k.arg)
        if param in out:
            raise TranslateError(file, d, "two options bind the parameter `%s`" % param)
        out[param] = info
    got = [a.arg for a in fn.args.args]
    if sorted(got) != sorted(out) or fn.args.vararg or fn.args.kwarg or fn.args.kwonlyargs or fn.args.posonlyargs:
        raise TranslateError(file, fn, "parameters of main (%s) are not the parameters click passes (%s)"
                             % (", ".join(got), ", ".join(sorted(out))))
    return out


def want_option(sig, file, fn, param, **kw):
    i = sig.get(param)
    if i is None:
        raise TranslateError(file, fn, "main has no click option for `%s`" % param)
    for k, v in kw.items():
        if i[k] != v:
            raise TranslateError(file, fn, "click option `%s`: %s is %r (the translation assumes %r)" % (param, k, i[k], v))
    return i


def helper_table(mod, special):
    """module-level functions other than the translated entry points: candidates for inlining at their call sites"""
    return {s.name: (s, mod) for s in mod.body if isinstance(s, ast.FunctionDef) and s.name not in special}


def main_guard_ok(mod, file, names):
    """module level: only imports, the translated functions and `if __name__ == '__main__': main()`"""
    for s in mod.body:
        if isinstance(s, (ast.Import, ast.ImportFrom)):
            for a in s.names:
                if (a.asname or a.name).split(".")[0] in names:
                    raise TranslateError(file, s, "module-level import rebinding `%s`" % (a.asname or a.name))
            continue
        if isinstance(s, ast.FunctionDef):
            continue          # other helpers may exist; calling one from a translated function is refused at the call
        if isinstance(s, ast.If) and src_of(s) == "if __name__ == '__main__':\n    main()":
            continue
        if isinstance(s, ast.Expr) and isinstance(s.value, ast.Constant) and isinstance(s.value.value, str):
            continue
        raise TranslateError(file, s, "module-level statement `%s`" % src_of(s)[:80].replace("\n", " | "))


# ==========================================================================================================
# shared expression vocabulary
# ==========================================================================================================

class CliTr(FunTr):
    mutable_types = frozenset(["dict:series", "oframe", "frame"])    # the types the grammar has in-place stores for

    def __init__(self, file, source, module_functions=()):
        super().__init__(file, source)
        self.module_functions = set(module_functions)

    def str_const(self, e, what):
        if not (isinstance(e, ast.Constant) and isinstance(e.value, str)):
            self.bail(e, "%s is not a string literal" % what)
        return e.value

    def constant(self, e):
        if e.value is None:
            return Val("None", "none")
        if type(e.value) is int and e.value >= 0:
            return Val("%d" % e.value, "intlit", e.value)
        if type(e.value) is bool:
            return Val("true" if e.value else "false", "boollit", e.value)
        if isinstance(e.value, str):
            try:
                return Val(coq_str(e.value), "str", ("lit", e.value))
            except ValueError as x:
                self.bail(e, str(x))
        self.bail(e, "literal %r" % (e.value,))

    def args_vals(self, args, env, B):
        return [self.expr(a, env, B) for a in args]

    def no_kwargs(self, kwargs, e, what):
        if kwargs:
            self.bail(e, "%s with keyword arguments (%s)" % (what, ", ".join(kwargs)))

    # ---- f-strings and str.format ------------------------------------------------------------------------
    def pattern_text(self, text, e):
        if re.search(r"[\[\]/\\]", text):
            self.bail(e, "string text %r contains one of [ ] / \\ (character classes, directories and escapes of glob "
                         "patterns are not modelled)" % text)
        try:
            return coq_str(text)
        except ValueError as x:
            self.bail(e, str(x))

    @staticmethod
    def concat(parts):
        if not parts:
            return Val('""', "str")
        t = parts[-1]
        for p in reversed(parts[:-1]):
            t = "(%s ++ %s)" % (p, t)
        return Val("(%s)%%string" % t, "str")

    def str_format(self, v, args, kwargs, e, env, B):
        """"literal {} literal".format(a, ..): positional auto-numbered fields only, no conversion / format spec, every
        argument a str - then format(a, "") is a itself and the result is the same concatenation as the f-string"""
        import string
        if kwargs or not (isinstance(v.extra, tuple) and v.extra[0] == "lit"):
            self.bail(e, "`%s` (only <string literal>.format(positional str arguments))" % src_of(e)[:80])
        vals = self.args_vals(args, env, B)
        parts, k = [], 0
        try:
            pieces = list(string.Formatter().parse(v.extra[1]))
        except ValueError as x:
            self.bail(e, "format string %r: %s" % (v.extra[1], x))
        for lit, field, spec, conv in pieces:
            if lit:
                parts.append(self.pattern_text(lit, e))
            if field is None:
                continue
            if field != "" or spec or conv:
                self.bail(e, "format field `{%s%s%s}` (only the plain positional `{}`)"
                          % (field, "!" + conv if conv else "", ":" + spec if spec else ""))
            if k >= len(vals):
                self.bail(e, "more `{}` fields than arguments in `%s`" % src_of(e)[:80])
            if vals[k].ty != "str":
                self.bail(e, "format argument of type %s" % vals[k].ty)
            parts.append(vals[k].term)
            k += 1
        if k != len(vals):
            self.bail(e, "unused format arguments in `%s`" % src_of(e)[:80])
        return self.concat(parts)

    def other_expr(self, e, env, B):
        if isinstance(e, ast.JoinedStr):
            parts = []
            for p in e.values:
                if isinstance(p, ast.Constant) and isinstance(p.value, str):
                    parts.append(self.pattern_text(p.value, e))
                elif isinstance(p, ast.FormattedValue):
                    if p.conversion != -1 or p.format_spec is not None:
                        self.bail(e, "f-string field with conversion / format spec in `%s`" % src_of(e))
                    v = self.expr(p.value, env, B)
                    if v.ty != "str":
                        self.bail(e, "f-string field of type %s" % v.ty)
                    parts.append(v.term)
                else:
                    self.bail(e, "f-string piece `%s`" % src_of(p))
            return self.concat(parts)
        if isinstance(e, ast.Dict) and not e.keys:
            return Val("dict_empty", "dict:series")
        self.bail(e)

    # ---- attributes / methods ------------------------------------------------------------------------------
    def attribute(self, v, attr, e, env, B):
        if v.ty == "table":
            if attr == "T":
                return Val("(df_T %s)" % v.term, "table")
            if attr == "columns":
                return Val("(df_columns %s)" % v.term, "labels")
            if attr == "index":
                return Val("(df_index %s)" % v.term, "labels")
            if attr == "iloc":
                return Val(v.term, "iloc")
            if attr == "values":
                return Val("(df_values %s)" % v.term, "mat")
        if v.ty == "labels" and attr == "values":
            return Val(v.term, "arr")
        self.bail(e, "attribute `.%s` of a value of type %s" % (attr, v.ty))

    def method(self, v, attr, args, kwargs, e, env, B):
        if attr == "format" and v.ty == "str":
            return self.str_format(v, args, kwargs, e, env, B)
        if attr == "to_numpy" and not args and not kwargs:
            if v.ty == "labels":
                return Val(v.term, "arr")
            if v.ty == "table":
                return Val("(df_values %s)" % v.term, "mat")
        if attr == "items" and not args and not kwargs and v.ty == "dict:series":
            return Val("(dict_items %s)" % v.term, "items:series")      # (key, value) pairs in insertion order
        if attr == "argmin" and not args and not kwargs and v.ty == "arr":
            return Val("(np_argmin %s)" % v.term, "nat")
        self.bail(e, "method `.%s(...)` of a value of type %s" % (attr, v.ty))

    def subscript(self, v, sl, e, env, B):
        if v.ty == "iloc":
            k = self.expr(sl, env, B)
            if k.ty not in ("nat", "intlit"):
                self.bail(e, "df.iloc[...] with an index of type %s" % k.ty)
            return Val("(df_iloc %s %s)" % (v.term, k.term), "series")
        if v.ty == "liststr":
            k = self.expr(sl, env, B)
            if k.ty != "intlit":
                self.bail(e, "list index `%s` (only a non-negative integer literal)" % src_of(sl))
            return Val(self.bind(B, "item", "(py_index %s %s)" % (v.term, k.term)), "str")
        if v.ty == "dict:series":
            k = self.expr(sl, env, B)
            if k.ty != "str":
                self.bail(e, "dict key of type %s" % k.ty)
            return Val(self.bind(B, "got", "(dict_get %s %s)" % (k.term, v.term)), "series")
        if v.ty == "frame":
            k = self.expr(sl, env, B)
            if k.ty != "str":
                self.bail(e, "column key of type %s" % k.ty)
            return Val(self.bind(B, "col", "(fget %s %s)" % (k.term, v.term)), "col")
        self.bail(e, "subscript `%s` on a value of type %s" % (src_of(e)[:80], v.ty))

    def store(self, v, sl, value, s, env, B):
        k = self.expr(sl, env, B)
        if k.ty != "str":
            self.bail(s, "key of type %s in `%s`" % (k.ty, src_of(s)[:60]))
        if v.ty == "dict:series" and value.ty == "series":
            return Val("(dict_set %s %s %s)" % (k.term, value.term, v.term), "dict:series")
        if v.ty == "oframe" and value.ty == "series":
            return Val("(oframe_set %s %s %s)" % (k.term, value.term, v.term), "oframe")
        if v.ty == "frame" and value.ty == "col":
            return Val("(fset %s %s %s)" % (k.term, value.term, v.term), "frame")
        self.bail(s, "store of a %s into a %s" % (value.ty, v.ty))

    def binop(self, op, l, r, e):
        if isinstance(op, ast.Sub) and l.ty == "arr" and r.ty == "F":
            return Val("(np_sub_s %s %s)" % (l.term, r.term), "arr")
        self.bail(e, "operator %s on (%s, %s) in `%s`" % (type(op).__name__, l.ty, r.ty, src_of(e)[:60]))

    def unpack(self, v, n, node, ident):
        if v.ty == "item:series" and n == 2:       # (key, value) of dict.items()
            return [Val("(fst %s)" % ident, "str"), Val("(snd %s)" % ident, "series")]
        self.bail(node, "unpacking of a value of type %s into %d names" % (v.ty, n))

    def iterable(self, v, e):
        if v.ty == "items:series":
            return v.term, "item:series"
        if v.ty == "liststr":
            return v.term, "str"
        self.bail(e, "iteration over a value of type %s" % v.ty)

    # ---- calls -----------------------------------------------------------------------------------------
    def call(self, q, args, kwargs, e, env, B):
        if q in ("numpy.abs", "numpy.absolute", "numpy.fabs"):
            self.no_kwargs(kwargs, e, q)
            a = self.args_vals(args, env, B)
            if len(a) == 1 and a[0].ty == "arr":
                return Val("(np_abs %s)" % a[0].term, "arr")
            self.bail(e, "%s on %s" % (q, [x.ty for x in a]))
        if q == "numpy.argmin":
            self.no_kwargs(kwargs, e, q)
            a = self.args_vals(args, env, B)
            if len(a) == 1 and a[0].ty == "arr":
                return Val("(np_argmin %s)" % a[0].term, "nat")
            self.bail(e, "numpy.argmin on %s" % [x.ty for x in a])
        if q == "pandas.DataFrame":
            if args or sorted(kwargs) != ["columns", "index"]:
                self.bail(e, "pandas.DataFrame(...) other than DataFrame(columns=.., index=..)")
            c = self.expr(kwargs["columns"], env, B)
            i = self.expr(kwargs["index"], env, B)
            if c.ty != "liststr" or i.ty != "labels":
                self.bail(e, "pandas.DataFrame(columns : %s, index : %s)" % (c.ty, i.ty))
            return Val("(oframe_new %s %s)" % (c.term, i.term), "oframe")
        if q == "load_data" and "load_data" in self.module_functions:
            self.no_kwargs(kwargs, e, q)
            a = self.args_vals(args, env, B)
            if len(a) != 1 or a[0].ty != "str":
                self.bail(e, "load_data(%s)" % ", ".join(x.ty for x in a))
            return Val(self.bind(B, "loaded", "(load_data %s)" % a[0].term), "table")
        if q == "dict" and not args and not kwargs and isinstance(e.func, ast.Name):
            return Val("dict_empty", "dict:series")
        return self.unknown_call(q, args, kwargs, e, env, B)


# ==========================================================================================================
# load_data
# ==========================================================================================================

class LoadTr(CliTr):
    # `[float(x) for x in df.columns]` or the equivalent `list(map(float, df.columns))` (list / map / float unshadowed)
    LABEL_GLUE = re.compile(r"df\.(columns|index) = (?:\[float\((\w+)\) for \2 in df\.\1\]|list\(map\(float, df\.\1\)\))")

    def __init__(self, file, source):
        super().__init__(file, source)
        self.labels_float = set()
        self.read_kwargs = None

    def call(self, q, args, kwargs, e, env, B):
        if q in ("glob.glob", "glob.iglob"):
            self.no_kwargs(kwargs, e, q)
            a = self.args_vals(args, env, B)
            if len(a) != 1 or a[0].ty != "str":
                self.bail(e, "glob(%s)" % ", ".join(x.ty for x in a))
            if q == "glob.iglob":
                self.bail(e, "glob.iglob (an iterator, not subscriptable)")
            return Val("(py_glob listing %s)" % a[0].term, "liststr")
        if q == "sorted":
            self.no_kwargs(kwargs, e, q)
            a = self.args_vals(args, env, B)
            if len(a) != 1 or a[0].ty != "liststr":
                self.bail(e, "sorted(%s)" % ", ".join(x.ty for x in a))
            return Val("(py_sorted %s)" % a[0].term, "liststr")
        if q in ("pandas.read_table", "pandas.read_csv"):
            if q != "pandas.read_table":
                self.bail(e, "pandas.read_csv (default separator differs)")
            a = self.args_vals(args, env, B)
            if len(a) != 1 or a[0].ty != "str":
                self.bail(e, "read_table(%s)" % ", ".join(x.ty for x in a))
            if sorted(kwargs) != ["index_col", "sep"]:
                self.bail(e, "read_table keywords (%s), expected exactly sep and index_col" % ", ".join(sorted(kwargs)))
            if self.str_const(kwargs["sep"], "sep") != SEP_WS:
                self.bail(e, "read_table sep=%r (expected the regex \\s+)" % kwargs["sep"].value)
            ic = kwargs["index_col"]
            if not (isinstance(ic, ast.Constant) and type(ic.value) is int and ic.value == 0):
                self.bail(e, "read_table index_col=%s (expected 0: first column = row labels)" % src_of(ic))
            self.read_kwargs = dict(sep=SEP_WS, index_col=0)
            return Val(self.bind(B, "df", "(read_table %s)" % a[0].term), "table")
        return self.unknown_call(q, args, kwargs, e, env, B)

    def glue(self, s, env):
        m = self.LABEL_GLUE.fullmatch(src_of(s))
        if m and "df" in env and env["df"].ty == "table" and not self.in_loop:
            self.labels_float.add(m.group(1))
            self.facts.append("%s:%s: `%s` matched literally (labels converted with float())" % (self.file, s.lineno, src_of(s)))
            return True
        return False


def translate_load_data(mod, file, source, prefix):
    fn = find_function(mod, file, "load_data")
    plain_params(fn, file, ["var"])
    if fn.args.defaults or fn.decorator_list:
        raise TranslateError(file, fn, "load_data has defaults / decorators")
    forbid_dynamic(fn, file)
    aliases, body = leading_imports(fn, file, LOAD_IMPORTS)
    tr = LoadTr(file, source)
    tr.helpers, tr.helper_imports = helper_table(mod, {"load_data", "fit_data", "main"}), dict(LOAD_IMPORTS)
    tr.aliases = aliases
    tr.function_locals = frozenset(assigned_names(body))
    tr.protected = frozenset(["var", "listing", "read_table"])
    term = tr.block(body, {"var": Val("var", "str")}, lambda env: tr.bail(fn, "load_data can end without `return`"))
    if tr.labels_float != {"columns", "index"}:
        raise TranslateError(file, fn, "load_data does not convert both the column and the index labels with float() "
                                       "(found: %s)" % (", ".join(sorted(tr.labels_float)) or "none"))
    if tr.read_kwargs is None:
        raise TranslateError(file, fn, "load_data does not call pandas.read_table")
    txt = ("  (* %s: load_data(var).  listing = the directory in os.scandir order (what glob returns, filtered);\n"
           "     read_table = pandas.read_table(., sep=\"\\s+\", index_col=0) followed by float() on all labels *)\n"
           "  Definition %s_load_data (listing : list string) (read_table : string -> option table) (var : string)\n"
           "    : option table :=\n    %s.\n" % (file, prefix, term.replace("\n", "\n    ")))
    return txt, tr.facts


# ==========================================================================================================
# extract main
# ==========================================================================================================

class MainTr(CliTr):
    def __init__(self, file, source, module_functions, print_glue):
        super().__init__(file, source, module_functions)
        self.print_glue = print_glue
        self.split_seen = False

    def glue(self, s, env):
        if src_of(s) == SPLIT_GLUE and not self.in_loop and "variables" in env and env["variables"].ty == "rawstr" \
                and not any(self.rest_stack[:-1]):
            env["variables"] = Val("variables", "liststr")
            self.split_seen = True
            self.facts.append("%s:%s: `%s` matched literally: the generated function takes the list of names" % (self.file, s.lineno, SPLIT_GLUE))
            return True
        return False

    def method(self, v, attr, args, kwargs, e, env, B):
        # `variables.split(',')` used in place (e.g. as the loop iterable): the same glue as the separate statement
        if v.ty == "rawstr" and attr == "split" and not kwargs and len(args) == 1 \
                and isinstance(args[0], ast.Constant) and args[0].value == ",":
            self.split_seen = True
            if self.discover is None:
                self.facts.append("%s:%s: `%s` matched literally: the generated function takes the list of names"
                                  % (self.file, e.lineno, src_of(e)))
            return Val(v.term, "liststr")
        return super().method(v, attr, args, kwargs, e, env, B)

    def final_expr(self, s, env, B):
        t = src_of(s)
        if t in self.print_glue and "table" in env:
            v = self.expr(ast.Name(id="table", ctx=ast.Load()), env, B)
            self.facts.append("%s:%s: `%s` matched literally: the result is `table`" % (self.file, s.lineno, t))
            return v
        return None


def translate_extract(source):
    """-> dict(load_data=(text, facts) | TranslateError, main=(text, info) | TranslateError)"""
    mod = parse(source)
    main_guard_ok(mod, EXTRACT, {"load_data", "main"})
    builtins_unshadowed(mod, EXTRACT, {"sorted", "float", "print", "list", "map", "dict"})
    out = {}
    try:
        out["load_data"] = translate_load_data(mod, EXTRACT, source, "gx")
    except TranslateError as e:
        out["load_data"] = e
    try:
        out["main"] = _extract_main(mod, source)
    except TranslateError as e:
        out["main"] = e
    return out


def _extract_main(mod, source):
    fn = find_function(mod, EXTRACT, "main")
    sig = click_signature(fn, EXTRACT, "extract")
    want_option(sig, EXTRACT, fn, "variables", required=True, type=None, flag=False, has_default=False)
    for p in ("temperature", "pressure"):
        want_option(sig, EXTRACT, fn, p, type="click.FLOAT", has_default=False, required=False, flag=False)
    want_option(sig, EXTRACT, fn, "hide_header", flag=True, default=False)
    if sorted(sig) != ["hide_header", "pressure", "temperature", "variables"]:
        raise TranslateError(EXTRACT, fn, "options of extract: %s" % ", ".join(sorted(sig)))
    for a, d in zip(fn.args.args[len(fn.args.args) - len(fn.args.defaults):], fn.args.defaults):
        if not (isinstance(d, ast.Constant) and d.value is None):
            raise TranslateError(EXTRACT, fn, "default of parameter %s is not None" % a.arg)
    forbid_dynamic(fn, EXTRACT)
    aliases, body = leading_imports(fn, EXTRACT, MAIN_IMPORTS)
    tr = MainTr(EXTRACT, source, {"load_data"},
                {"print(table.to_string(header=not hide_header))"})
    tr.helpers, tr.helper_imports = helper_table(mod, {"load_data", "fit_data", "main"}), dict(HELPER_IMPORTS)
    tr.aliases = aliases
    tr.function_locals = frozenset(assigned_names(body))
    tr.protected = frozenset(["load_data", "temperature", "pressure", "hide_header"])
    env = {"variables": Val("variables", "rawstr"), "temperature": Val("temperature", "opt:F"),
           "pressure": Val("pressure", "opt:F"), "hide_header": Val("hide_header", "flag")}
    term = tr.block(body, env, lambda e2: tr.bail(fn, "main can end without printing the table"))
    if not tr.split_seen:
        raise TranslateError(EXTRACT, fn, "`%s` not found at the top level of main" % SPLIT_GLUE)
    txt = ("  (* %s: main.  load_data = the function above applied to the current directory; variables = the -v value\n"
           "     after .split(','); temperature / pressure = the click.FLOAT options -T / -P (None when absent) *)\n"
           "  Definition gx_main (load_data : string -> option table) (variables : list string)\n"
           "    (temperature pressure : option F) : option oframe :=\n    %s.\n" % (EXTRACT, term.replace("\n", "\n    ")))
    info = dict(facts=tr.facts, loops=getattr(tr, "loops", []),
                options={k: dict(opts=v["opts"], default=v["default"], type=v["type"]) for k, v in sig.items()})
    return txt, info


# ==========================================================================================================
# geotherm
# ==========================================================================================================

class FitTr(CliTr):
    def call(self, q, args, kwargs, e, env, B):
        if q == "scipy.interpolate.RectBivariateSpline":
            self.no_kwargs(kwargs, e, q)       # kx = ky = 3, s = 0: the interpolating bicubic spline
            a = self.args_vals(args, env, B)
            if [x.ty for x in a] != ["arr", "arr", "mat"]:
                self.bail(e, "RectBivariateSpline(%s), expected (1-D array, 1-D array, 2-D array)" % ", ".join(x.ty for x in a))
            return Val("(mk_spline %s %s %s)" % tuple(x.term for x in a), "spline")
        return super().call(q, args, kwargs, e, env, B)


class GeoMainTr(MainTr):
    def call(self, q, args, kwargs, e, env, B):
        if q == "pandas.read_table":
            a = self.args_vals(args, env, B)
            if len(a) != 1 or a[0].ty != "geopath":
                self.bail(e, "read_table(%s) in main (expected the --geotherm path)" % ", ".join(x.ty for x in a))
            if sorted(kwargs) != ["header", "index_col", "sep"]:
                self.bail(e, "read_table keywords (%s), expected exactly sep, index_col, header" % ", ".join(sorted(kwargs)))
            if self.str_const(kwargs["sep"], "sep") != SEP_WS:
                self.bail(e, "read_table sep=%r" % kwargs["sep"].value)
            if src_of(kwargs["index_col"]) != "None" or src_of(kwargs["header"]) != "0":
                self.bail(e, "read_table index_col=%s, header=%s (expected None, 0: every column is data, first line = names)"
                          % (src_of(kwargs["index_col"]), src_of(kwargs["header"])))
            self.facts.append("%s:%s: the geotherm file is read by `%s`: parameter geo = its named columns in file order"
                              % (self.file, e.lineno, src_of(e)))
            return Val("geo", "frame")
        if q == "fit_data" and "fit_data" in self.module_functions:
            self.no_kwargs(kwargs, e, q)
            a = self.args_vals(args, env, B)
            if len(a) != 1 or a[0].ty != "table":
                self.bail(e, "fit_data(%s)" % ", ".join(x.ty for x in a))
            return Val(self.bind(B, "fitted", "(gg_fit_data %s)" % a[0].term), "spline")
        return super().call(q, args, kwargs, e, env, B)

    def call_value(self, f, args, kwargs, e, env, B):
        if f.ty == "spline":
            a = self.args_vals(args, env, B)
            if [x.ty for x in a] != ["col", "col"]:
                self.bail(e, "spline called on (%s), expected two table columns" % ", ".join(x.ty for x in a))
            g = kwargs.get("grid")
            if sorted(kwargs) != ["grid"] or not (isinstance(g, ast.Constant) and g.value is False):
                self.bail(e, "spline call keywords `%s` (expected exactly grid=False: pointwise evaluation)"
                          % ", ".join("%s=%s" % (k, src_of(v)) for k, v in kwargs.items()))
            return Val("(spline_call spline %s %s %s)" % (f.term, a[0].term, a[1].term), "col")
        self.bail(e, "call of a value of type %s" % f.ty)


def translate_geotherm(source):
    """-> dict(load_data=(text, facts) | TranslateError, main=(text, consts, info) | TranslateError)"""
    mod = parse(source)
    main_guard_ok(mod, GEOTHERM, {"load_data", "fit_data", "main"})
    builtins_unshadowed(mod, GEOTHERM, {"sorted", "float", "print", "list", "map", "dict"})
    out = {}
    try:
        out["load_data"] = translate_load_data(mod, GEOTHERM, source, "gg")
    except TranslateError as e:
        out["load_data"] = e
    try:
        out["main"] = _geotherm_main(mod, source)
    except TranslateError as e:
        out["main"] = e
    return out


def _geotherm_main(mod, source):
    # fit_data
    ff = find_function(mod, GEOTHERM, "fit_data")
    plain_params(ff, GEOTHERM, ["df"])
    if ff.args.defaults or ff.decorator_list:
        raise TranslateError(GEOTHERM, ff, "fit_data has defaults / decorators")
    forbid_dynamic(ff, GEOTHERM)
    al, body = leading_imports(ff, GEOTHERM, FIT_IMPORTS)
    ft = FitTr(GEOTHERM, source)
    ft.helpers, ft.helper_imports = helper_table(mod, {"load_data", "fit_data", "main"}), dict(HELPER_IMPORTS)
    ft.aliases = al
    ft.function_locals = frozenset(assigned_names(body))
    ft.protected = frozenset()
    fterm = ft.block(body, {"df": Val("df", "table")}, lambda env: ft.bail(ff, "fit_data can end without `return`"))
    fit_txt = ("  (* %s: fit_data(df) - the arguments RectBivariateSpline is built from *)\n"
               "  Definition gg_fit_data (df : table) : option spline_obj :=\n    %s.\n" % (GEOTHERM, fterm.replace("\n", "\n    ")))
    # main
    fn = find_function(mod, GEOTHERM, "main")
    sig = click_signature(fn, GEOTHERM, "geotherm")
    want_option(sig, GEOTHERM, fn, "variables", required=True, type=None, flag=False, has_default=False)
    want_option(sig, GEOTHERM, fn, "geotherm", required=True, flag=False, has_default=False)
    want_option(sig, GEOTHERM, fn, "hide_header", flag=True, default=False)
    tcol = want_option(sig, GEOTHERM, fn, "t_col", type=None, flag=False, has_default=True, required=False)
    pcol = want_option(sig, GEOTHERM, fn, "p_col", type=None, flag=False, has_default=True, required=False)
    if sorted(sig) != ["geotherm", "hide_header", "p_col", "t_col", "variables"]:
        raise TranslateError(GEOTHERM, fn, "options of geotherm: %s" % ", ".join(sorted(sig)))
    for nm, i in (("t_col", tcol), ("p_col", pcol)):
        if not isinstance(i["default"], str):
            raise TranslateError(GEOTHERM, fn, "default of --%s is not a string" % nm.replace("_", "-"))
    forbid_dynamic(fn, GEOTHERM)
    aliases, body = leading_imports(fn, GEOTHERM, MAIN_IMPORTS)
    tr = GeoMainTr(GEOTHERM, source, {"load_data", "fit_data"},
                   {"print(table.to_string(header=not hide_header, index=False))"})
    tr.helpers, tr.helper_imports = helper_table(mod, {"load_data", "fit_data", "main"}), dict(HELPER_IMPORTS)
    tr.aliases = aliases
    tr.function_locals = frozenset(assigned_names(body))
    tr.protected = frozenset(["load_data", "fit_data", "t_col", "p_col", "geotherm", "hide_header"])
    env = {"variables": Val("variables", "rawstr"), "t_col": Val("t_col", "str"), "p_col": Val("p_col", "str"),
           "geotherm": Val("geotherm", "geopath"), "hide_header": Val("hide_header", "flag")}
    term = tr.block(body, env, lambda e2: tr.bail(fn, "main can end without printing the table"))
    if not tr.split_seen:
        raise TranslateError(GEOTHERM, fn, "`%s` not found at the top level of main" % SPLIT_GLUE)
    txt = ("  (* %s: main.  spline xs ys z x y = RectBivariateSpline(xs, ys, z)(x, y, grid=False) at one point (oracle);\n"
           "     geo = the geotherm file as named columns; t_col / p_col = the values of --t-col / --p-col *)\n"
           "  Definition gg_main (spline : spline_t) (load_data : string -> option table) (variables : list string)\n"
           "    (t_col p_col : string) (geo : frame) : option frame :=\n    %s.\n" % (GEOTHERM, term.replace("\n", "\n    ")))
    consts = ("Definition gg_default_t_col : string := %s.   (* default of %s *)\n"
              "Definition gg_default_p_col : string := %s.   (* default of %s *)\n"
              % (coq_str(tcol["default"]), "/".join(tcol["opts"]), coq_str(pcol["default"]), "/".join(pcol["opts"])))
    info = dict(facts=ft.facts + tr.facts, loops=getattr(tr, "loops", []),
                options={k: dict(opts=v["opts"], default=v["default"], type=v["type"]) for k, v in sig.items()})
    return fit_txt + "\n" + txt, consts, info


GEN_HEADER = """(* GENERATED by tools/translate_cli.py from the current source tree - do not edit *)
From Coq Require Import String List Bool Arith.
From Cij Require Import Ops ExtractModel.
From CijGen Require Import CliTieBase.
Import ListNotations.

"""


def gen_file(section_texts, tail_texts):
    out = [GEN_HEADER, "Section GenCli.", "  Context {F : Type} {OF : Ops F}.", "  Local Notation table := (@table F).",
           "  Local Notation frame := (@frame F).", "  Local Notation spline_t := (@spline_t F).",
           "  Local Notation oframe := (@oframe F).", "  Local Notation spline_obj := (@spline_obj F).", ""]
    out += [t for t in section_texts if t]
    out.append("End GenCli.\n")
    if any(tail_texts):
        out.append("Local Open Scope string_scope.")
        out += [t for t in tail_texts if t]
    return "\n".join(out)


def translate_all(root):
    """-> (Gen_cli.v text, errors {piece: message}, info {piece: ...}); pieces: extract.load_data, extract.main,
    geotherm.load_data, geotherm.main"""
    import os
    sec, tail, errors, info = [], [], {}, {}
    for key, file, fun in (("extract", EXTRACT, translate_extract), ("geotherm", GEOTHERM, translate_geotherm)):
        try:
            r = fun(open(os.path.join(str(root), file)).read())
        except TranslateError as e:
            errors[key + ".load_data"] = errors[key + ".main"] = "TranslateError: %s" % e
            continue
        except (SyntaxError, OSError, ValueError) as e:
            errors[key + ".load_data"] = errors[key + ".main"] = "%s cannot be read/parsed: %r" % (file, e)
            continue
        for piece in ("load_data", "main"):
            v = r[piece]
            if isinstance(v, TranslateError):
                errors["%s.%s" % (key, piece)] = "TranslateError: %s" % v
                sec.append("  (* %s.%s: NOT TRANSLATED - %s *)\n" % (key, piece, str(v).replace("*)", "* )")))
            elif piece == "load_data":
                sec.append(v[0])
                info["%s.%s" % (key, piece)] = dict(facts=v[1])
            elif key == "extract":
                sec.append(v[0])
                info["%s.%s" % (key, piece)] = v[1]
            else:
                sec.append(v[0])
                tail.append(v[1])
                info["%s.%s" % (key, piece)] = v[2]
    return gen_file(sec, tail), errors, info


if __name__ == "__main__":
    import sys
    txt, errors, info = translate_all(sys.argv[1] if len(sys.argv) > 1 else "/repo")
    for k, e in errors.items():
        print("(* ERROR %s: %s *)" % (k, e))
    print(txt)
