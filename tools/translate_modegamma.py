"""Fail-closed DATA-FLOW translator for cij/core/mode_gamma.py  ->  Gen_modegamma.v   (property C11).

What is regenerated on every run (closed terms of the types of tools/tie_modegamma/MGFlowBase.v):

    gen_spline gen_lagrange gen_krogh gen_lsq_poly : helper_flow
    gen_ppoly : list (string * helper_flow)          one entry per literal of the `method == "..."` chain
    gen_loop : loop_flow                             the double loop of interpolate_modes

A helper_flow says, for each of the three returned arrays, WHICH object is evaluated (constructor kind, the
arrays it is built from, its degree argument), at WHICH derivative order, at WHICH points, and the post-processing
(numpy.exp / unary minus).  The translator is a symbolic evaluator of straight-line code: every Python value is a
symbolic term; rebinding a name (`mode_volumes = mode_volumes[::interval]`) simply rebinds the symbol, so
"a local variable for log(mode_volumes)" or reordered statements give the same term.

GRAMMAR (anything else raises TranslateError(file, line, construct))

 module     `import numpy`, `import scipy.interpolate[, scipy.misc]`, other imports; top-level `def`s and `NAME = ...`
            (such names are never resolved: a use inside a translated function is refused); the names
            numpy / scipy / every translated function are bound exactly once in the whole module (no shadowing,
            no global/nonlocal, no decorators, no nested def/lambda/class, no star-args)
 helper     def interpolate_mode_<m>(mode_volumes, mode_freqs, v_array[, method], order=<int>); annotations are inert
            expressions (no calls), defaults are literals
 statements NAME = e | NAME, NAME, .. = e (tuple value of that length; `_` allowed repeatedly) | order += <int>
            | if method == "lit": S* [elif ..]* [else: S*]   (only with `method` bound to a KNOWN string: the helper is
              evaluated once per literal of the chain)        | return e | docstring | pass
 arrays     mode_volumes | mode_freqs | v_array | local | numpy.log(A) | numpy.flip(A, axis=0) | numpy.flip(A, 0)
            | numpy.flip(A) | numpy.flipud(A) | A[::I]
 integers   A.shape[0] | len(A) | <that> / order | numpy.ceil(<that>) | int(<ceil>)                     -> stride RCeil
            | A.shape[0] // order | max(<that>, 1) | max(1, <that>)                                        -> stride RFloorMax1
            | order | order + <int> | <int> + order   (degree expressions)
 objects    scipy.interpolate.UnivariateSpline(A, A, k=<degree>)          called: o(X) | o(X, nu=n) | o(X, n)
            scipy.interpolate.KroghInterpolator(A, A)                     called: o(X) | o.derivative(X, der=n) | o.derivative(X, n) | o.derivative(X)
            scipy.interpolate.{PchipInterpolator,Akima1DInterpolator,CubicHermiteSpline}(A, A), also through a local
              name bound to the class                                     called: o(X[, nu=n][, extrapolate=True|False])
            scipy.interpolate.lagrange(A, A)   -> poly1d                  called: p(X)
            numpy.vander(A, <degree>) ; numpy.linalg.lstsq(<vander>, A[, rcond=None]) -> 4-tuple whose [0] is a
              coefficient array ; numpy.poly1d(<coeffs|poly1d>) ; numpy.polyder(P[, m=n | n]) ; numpy.polyval(P, X)
            f(args) for any OTHER function f defined in the module (lstsq_polyfit, a private helper such as
              _log_nodes): evaluated symbolically = inlined, fresh environment holding only its parameters (bound by
              Python's positional / keyword rules, no reliance on defaults), its body must be inside this grammar,
              call depth <= 3;  g(a, *T, k=..) where T evaluates to a tuple display of known length = g(a, T0, .., Tn-1, k=..)
 results    numpy.exp(E) | - E | + E | (E, E, E)
 loop       def interpolate_modes(qha_input, v_array, method=<str>, order=None) with body, in this order:
              NAME = qha_input.nv|nq|np | NAME = v_array.shape[0] | NAME = numpy.zeros((d, d, d)) (d: such a NAME)
              | NAME = numpy.array([volume.volume for volume in qha_input.volumes])             (any number, any order)
              for J in range(<dim>): for K in range(<dim>):  BODY
              return A0, A1, A2        (three distinct zeros arrays; they are numbered by position here)
            BODY: [if <test>: continue]  then  NAME = numpy.array([volume.q_points[<J|K>].modes[<J|K>] for volume in
              qha_input.volumes])*  then one if/elif chain (no else) with tests `method == "s"` / `method in [..]|(..)`
              and bodies  (A[:, x, y], A[:, x, y], A[:, x, y]) = interpolate_mode_<m>(args)  with positional / keyword
              arguments bound to the helper's parameters: mode_volumes, mode_freqs, v_array <- volumes array | column
              array | v_array ; order=order ; method=method
            <test>: J == n | J < n | J in range(n) | not t | t and t | t or t

ONLY PATTERN-CHECKED (exact shape, no semantics in Coq): the comprehension texts (`volume.volume`, `volume.q_points[a]
.modes[b]` over `qha_input.volumes`), `numpy.zeros` shape tuple, `qha_input.nq/np` as loop bounds, numpy/scipy names
taken at face value (numpy.log is the elementwise logarithm, flip reverses, [::i] strides, lstsq/vander conventions,
rcond ignored), default arguments of the helpers (recorded, not asserted).
"""
import ast

SRC = "cij/core/mode_gamma.py"

HELPERS = {"interpolate_mode_spline": "HSpline", "interpolate_mode_lagrange": "HLagrange",
           "interpolate_mode_krogh": "HKrogh", "interpolate_mode_ppoly": "HPpoly",
           "interpolate_mode_lsq_poly": "HLsqPoly"}
GROUP_OF = {"interpolate_mode_spline": "spline", "interpolate_mode_lagrange": "lagrange",
            "interpolate_mode_krogh": "krogh", "interpolate_mode_ppoly": "ppoly",
            "interpolate_mode_lsq_poly": "lsq_poly"}
GROUPS = ["spline", "lagrange", "krogh", "ppoly", "lsq_poly", "loop"]
CKINDS = {"scipy.interpolate.UnivariateSpline": "CUnivariateSpline",
          "scipy.interpolate.KroghInterpolator": "CKrogh",
          "scipy.interpolate.PchipInterpolator": "CPchip",
          "scipy.interpolate.Akima1DInterpolator": "CAkima",
          "scipy.interpolate.CubicHermiteSpline": "CCubicHermite"}
PPOLY_KINDS = ("CPchip", "CAkima", "CCubicHermite")


class TranslateError(Exception):
    def __init__(self, node, what, file=SRC):
        self.file = file
        self.line = getattr(node, "lineno", "?") if node is not None else "?"
        self.what = what
        super().__init__("%s:%s: not in the translatable grammar: %s" % (file, self.line, what))


def src_of(node):
    try:
        s = ast.unparse(node)
    except Exception:
        s = type(node).__name__
    s = s.replace("\n", " | ")
    return s if len(s) <= 140 else s[:137] + "..."


def bail(node, what=None):
    raise TranslateError(node, what or "%s `%s`" % (type(node).__name__, src_of(node)))


# ------------------------------------------------------------------------------------------------
# symbolic values
# ------------------------------------------------------------------------------------------------

class V:
    """symbolic value: kind + payload (Coq term as nested tuple)"""
    def __init__(self, kind, term=None, **kw):
        self.kind, self.term = kind, term
        self.__dict__.update(kw)

    def __repr__(self):
        return "<%s %r>" % (self.kind, self.term)


def coq(t):
    """nested tuple -> Coq term"""
    if isinstance(t, tuple):
        if len(t) == 1:
            return t[0]
        return "(" + " ".join(coq(x) for x in t) + ")"
    if isinstance(t, bool):
        return "true" if t else "false"
    if isinstance(t, int):
        return str(t)
    return t


def int_const(node):
    if isinstance(node, ast.Constant) and type(node.value) is int and node.value >= 0:
        return node.value
    return None


def is_full_slice(s):
    return isinstance(s, ast.Slice) and s.lower is None and s.upper is None and s.step is None


class Helper:
    """symbolic evaluation of one helper body"""

    def __init__(self, tr, fn, env, depth=0):
        self.tr, self.fn, self.env, self.depth = tr, fn, env, depth

    # ---- statements ---------------------------------------------------------------------------
    def run(self, stmts):
        """returns the returned value or None"""
        for s in stmts:
            r = self.stmt(s)
            if r is not None:
                return r
        return None

    def stmt(self, s):
        if isinstance(s, ast.Expr) and isinstance(s.value, ast.Constant) and isinstance(s.value.value, str):
            return None
        if isinstance(s, ast.Pass):
            return None
        if isinstance(s, ast.Assign):
            if len(s.targets) != 1:
                bail(s, "chained assignment `%s`" % src_of(s))
            v = self.ex(s.value)
            self.bind(s.targets[0], v, s)
            return None
        if isinstance(s, ast.AnnAssign) and isinstance(s.target, ast.Name) and s.value is not None:
            self.bind(s.target, self.ex(s.value), s)
            return None
        if isinstance(s, ast.AugAssign):
            if isinstance(s.target, ast.Name) and isinstance(s.op, ast.Add) and int_const(s.value) is not None:
                cur = self.lookup(s.target)
                if cur.kind == "ord":
                    self.env[s.target.id] = V("ord", cur.term + int_const(s.value))
                    return None
            bail(s, "augmented assignment `%s` (only `<order> += <int>`)" % src_of(s))
        if isinstance(s, ast.If):
            c = self.cond(s.test)
            return self.run(s.body if c else s.orelse)
        if isinstance(s, ast.Return):
            if s.value is None:
                bail(s, "bare return")
            return self.ex(s.value)
        bail(s, "statement `%s`" % src_of(s))

    def cond(self, t):
        """concrete test on the method string"""
        if isinstance(t, ast.Compare) and len(t.ops) == 1 and isinstance(t.left, ast.Name):
            l = self.lookup(t.left)
            r = t.comparators[0]
            if l.kind == "str":
                if isinstance(t.ops[0], (ast.Eq, ast.NotEq)) and isinstance(r, ast.Constant) and isinstance(r.value, str):
                    return (l.term == r.value) == isinstance(t.ops[0], ast.Eq)
                if isinstance(t.ops[0], (ast.In, ast.NotIn)) and isinstance(r, (ast.List, ast.Tuple)) and \
                        all(isinstance(e, ast.Constant) and isinstance(e.value, str) for e in r.elts):
                    return (l.term in [e.value for e in r.elts]) == isinstance(t.ops[0], ast.In)
        bail(t, "condition `%s` (only `method == \"literal\"` / `method in [literals]` on the method parameter)" % src_of(t))

    def bind(self, tgt, v, s):
        if isinstance(tgt, ast.Name):
            if tgt.id in ("numpy", "scipy") or tgt.id in self.tr.funcs:
                bail(s, "assignment to the reserved name `%s`" % tgt.id)
            self.env[tgt.id] = v
            return
        if isinstance(tgt, (ast.Tuple, ast.List)):
            if v.kind != "tuple" or len(v.term) != len(tgt.elts):
                bail(s, "tuple assignment `%s`: the value is not a tuple of %d items" % (src_of(s), len(tgt.elts)))
            for t, x in zip(tgt.elts, v.term):
                self.bind(t, x, s)
            return
        bail(s, "assignment target `%s`" % src_of(tgt))

    def lookup(self, n):
        if n.id not in self.env:
            bail(n, "name `%s` is not bound on this path" % n.id)
        return self.env[n.id]

    # ---- expressions --------------------------------------------------------------------------
    def arr(self, e, what="array"):
        v = self.ex(e)
        if v.kind != "arr":
            bail(e, "`%s` is not one of the translated arrays (needed as %s)" % (src_of(e), what))
        return v

    def ex(self, e):
        if isinstance(e, ast.Name):
            return self.lookup(e)
        if isinstance(e, ast.Constant):
            if isinstance(e.value, bool):
                return V("bool", e.value)
            if type(e.value) is int:
                return V("int", e.value)
            if e.value is None:
                return V("none")
            if isinstance(e.value, str):
                return V("str", e.value)
            bail(e, "literal %r" % (e.value,))
        if isinstance(e, ast.Tuple):
            return V("tuple", [self.ex(x) for x in e.elts])
        if isinstance(e, ast.UnaryOp):
            v = self.ex(e.operand)
            if v.kind == "ev" and isinstance(e.op, ast.USub):
                return V("ev", ("ENeg", v.term))
            if v.kind == "ev" and isinstance(e.op, ast.UAdd):
                return v
            bail(e, "unary `%s` (only -/+ of an evaluated interpolant)" % src_of(e))
        if isinstance(e, ast.BinOp):
            return self.binop(e)
        if isinstance(e, ast.Subscript):
            return self.subscript(e)
        if isinstance(e, ast.Attribute):
            f = src_of(e)
            if f in CKINDS:
                return V("class", CKINDS[f])
            bail(e, "attribute `%s`" % f)
        if isinstance(e, ast.Call):
            return self.call(e)
        bail(e)

    def binop(self, e):
        l, r = self.ex(e.left), self.ex(e.right)
        if isinstance(e.op, ast.Div) and l.kind == "len" and r.kind == "ord" and r.term == 0:
            return V("ratio", l.term)
        if isinstance(e.op, ast.FloorDiv) and l.kind == "len" and r.kind == "ord" and r.term == 0:
            return V("floordiv", l.term)
        if isinstance(e.op, ast.Add):
            if l.kind == "ord" and r.kind == "int":
                return V("ord", l.term + r.term)
            if l.kind == "int" and r.kind == "ord":
                return V("ord", l.term + r.term)
        bail(e, "arithmetic `%s` (only <n>.shape[0] / order, <n>.shape[0] // order, order + <int>)" % src_of(e))

    def subscript(self, e):
        # A.shape[0]
        if isinstance(e.value, ast.Attribute) and e.value.attr == "shape" and int_const(e.slice) == 0:
            a = self.arr(e.value.value, "the array whose length is taken")
            return V("len", a.term)
        # tuple[int]
        if int_const(e.slice) is not None:
            v = self.ex(e.value)
            if v.kind == "tuple" and e.slice.value < len(v.term):
                return v.term[e.slice.value]
            bail(e, "subscript `%s`" % src_of(e))
        # A[::interval]
        s = e.slice
        if isinstance(s, ast.Slice) and s.lower is None and s.upper is None and s.step is not None:
            a = self.arr(e.value, "the array that is strided")
            st = self.ex(s.step)
            if st.kind != "interval":
                bail(e, "`%s`: the step is not int(numpy.ceil(<array>.shape[0] / order)) nor max(<array>.shape[0] // order, 1)"
                     % src_of(e))
            return V("arr", ("AStride", a.term, st.term, (st.rounding,)))
        bail(e, "subscript `%s` (only A[::interval], A.shape[0], <tuple>[i])" % src_of(e))

    def kwargs(self, e, allowed):
        out = {}
        for k in e.keywords:
            if k.arg is None or k.arg not in allowed or k.arg in out:
                bail(e, "keyword `%s` in `%s` (accepted: %s)" % (k.arg, src_of(e), ", ".join(allowed) or "none"))
            out[k.arg] = k.value
        return out

    def nonneg(self, node, what):
        v = self.ex(node)
        if v.kind != "int":
            bail(node, "%s `%s` is not an integer literal" % (what, src_of(node)))
        return v.term

    def deg(self, node):
        v = self.ex(node)
        if v.kind != "ord":
            bail(node, "degree argument `%s` is not the helper's order (+ <int>)" % src_of(node))
        return ("DOrder", v.term)

    def unstar(self, e):
        """f(a, *t, b, k=..)  ->  f(a, t0, .., tn-1, b, k=..)  when t evaluates to a symbolic TUPLE of known length n
        (a tuple display, possibly returned by an inlined module function).  That is exactly Python's meaning of a
        starred positional argument for a tuple; anything else (a list, an array, an unknown value) is refused.  The
        items are handed on as already-evaluated values under names that are not Python identifiers."""
        args = []
        for a in e.args:
            if not isinstance(a, ast.Starred):
                args.append(a)
                continue
            v = self.ex(a.value)
            if v.kind != "tuple":
                bail(a, "starred argument `%s` is not a tuple of known length" % src_of(a))
            for i, item in enumerate(v.term):
                self.tr.star_count += 1
                nm = "*%d.%d" % (self.tr.star_count, i)
                self.env[nm] = item
                args.append(ast.copy_location(ast.Name(id=nm, ctx=ast.Load()), a))
        return ast.copy_location(ast.Call(func=e.func, args=args, keywords=e.keywords), e)

    def call(self, e):
        if any(k.arg is None for k in e.keywords):
            bail(e, "**-arguments in `%s`" % src_of(e))
        if any(isinstance(a, ast.Starred) for a in e.args):
            e = self.unstar(e)
        f = src_of(e.func)
        # ---- numpy array functions
        if f == "numpy.log":
            self.kwargs(e, [])
            if len(e.args) != 1:
                bail(e, "numpy.log with %d arguments" % len(e.args))
            return V("arr", ("ALog", self.arr(e.args[0]).term))
        if f == "numpy.flip":
            kw = self.kwargs(e, ["axis"])
            if len(e.args) == 2 and "axis" not in kw:
                kw["axis"] = e.args[1]
            elif len(e.args) != 1:
                bail(e, "`%s`: numpy.flip(A[, axis=0])" % src_of(e))
            if "axis" in kw and not (int_const(kw["axis"]) == 0 or
                                     (isinstance(kw["axis"], ast.Constant) and kw["axis"].value is None)):
                bail(e, "`%s`: axis other than 0 / None of a 1-d array" % src_of(e))
            return V("arr", ("AFlip", self.arr(e.args[0]).term))
        if f == "numpy.flipud":
            self.kwargs(e, [])
            if len(e.args) != 1:
                bail(e, "numpy.flipud with %d arguments" % len(e.args))
            return V("arr", ("AFlip", self.arr(e.args[0]).term))
        if f == "numpy.exp":
            self.kwargs(e, [])
            if len(e.args) != 1:
                bail(e, "numpy.exp with %d arguments" % len(e.args))
            v = self.ex(e.args[0])
            if v.kind != "ev":
                bail(e, "`%s`: numpy.exp of something that is not an evaluated interpolant" % src_of(e))
            return V("ev", ("EExp", v.term))
        # ---- stride arithmetic
        if f == "len":
            self.kwargs(e, [])
            if len(e.args) != 1:
                bail(e)
            return V("len", self.arr(e.args[0]).term)
        if f == "numpy.ceil":
            self.kwargs(e, [])
            v = self.ex(e.args[0]) if len(e.args) == 1 else None
            if v is None or v.kind != "ratio":
                bail(e, "`%s`: ceil of something other than <array>.shape[0] / order" % src_of(e))
            return V("ceil", v.term, rounding="RCeil")
        if f == "int":
            self.kwargs(e, [])
            v = self.ex(e.args[0]) if len(e.args) == 1 else None
            if v is None or v.kind != "ceil":
                bail(e, "`%s`: int() of something other than numpy.ceil(<array>.shape[0] / order)" % src_of(e))
            return V("interval", v.term, rounding=v.rounding)
        if f == "max":
            self.kwargs(e, [])
            if len(e.args) == 2:
                a, b = self.ex(e.args[0]), self.ex(e.args[1])
                if a.kind == "int":
                    a, b = b, a
                if a.kind == "floordiv" and b.kind == "int" and b.term == 1:
                    return V("interval", a.term, rounding="RFloorMax1")
            bail(e, "`%s` (only max(<array>.shape[0] // order, 1))" % src_of(e))
        # ---- constructors
        if f in CKINDS or (isinstance(e.func, ast.Name) and e.func.id in self.env and self.env[e.func.id].kind == "class"):
            kind = CKINDS[f] if f in CKINDS else self.env[e.func.id].term
            kw = self.kwargs(e, ["k"] if kind == "CUnivariateSpline" else [])
            if len(e.args) != 2:
                bail(e, "`%s`: constructor with %d positional arguments (expected the two node arrays)" % (src_of(e), len(e.args)))
            xs, ys = self.arr(e.args[0], "abscissae"), self.arr(e.args[1], "ordinates")
            d = self.deg(kw["k"]) if "k" in kw else ("DNone",)
            return V("cobj", ("CBuild", (kind,), d, xs.term, ys.term), ckind=kind)
        if f == "scipy.interpolate.lagrange":
            self.kwargs(e, [])
            if len(e.args) != 2:
                bail(e, "`%s`: lagrange(x, w)" % src_of(e))
            xs, ys = self.arr(e.args[0], "abscissae"), self.arr(e.args[1], "ordinates")
            return V("pobj", ("PBuild", ("PLagrange",), ("DNone",), xs.term, ys.term), callable=True)
        if f == "numpy.vander":
            kw = self.kwargs(e, ["N"])
            if len(e.args) == 2 and "N" not in kw:
                kw["N"] = e.args[1]
            elif len(e.args) != 1 or "N" not in kw:
                bail(e, "`%s`: numpy.vander(x, N)" % src_of(e))
            return V("vander", (self.arr(e.args[0], "abscissae").term, self.deg(kw["N"])))
        if f == "numpy.linalg.lstsq":
            kw = self.kwargs(e, ["rcond"])
            if "rcond" in kw and not (isinstance(kw["rcond"], ast.Constant) and kw["rcond"].value in (None, -1)):
                bail(e, "`%s`: rcond other than None / -1" % src_of(e))
            if len(e.args) != 2:
                bail(e, "`%s`: lstsq(a, b)" % src_of(e))
            a = self.ex(e.args[0])
            if a.kind != "vander":
                bail(e, "`%s`: the matrix is not numpy.vander(xs, <degree>)" % src_of(e))
            ys = self.arr(e.args[1], "right-hand side")
            c = V("pobj", ("PBuild", ("PLstsq",), a.term[1], a.term[0], ys.term), callable=False)
            return V("tuple", [c, V("junk"), V("junk"), V("junk")])
        if f == "numpy.poly1d":
            self.kwargs(e, [])
            v = self.ex(e.args[0]) if len(e.args) == 1 else None
            if v is None or v.kind != "pobj":
                bail(e, "`%s`: poly1d of something that is not a coefficient array / poly1d" % src_of(e))
            return V("pobj", v.term, callable=True)
        if f == "numpy.polyder":
            kw = self.kwargs(e, ["m"])
            if len(e.args) == 2 and "m" not in kw:
                kw["m"] = e.args[1]
            elif len(e.args) != 1:
                bail(e, "`%s`: numpy.polyder(p[, m])" % src_of(e))
            v = self.ex(e.args[0])
            if v.kind != "pobj":
                bail(e, "`%s`: polyder of something that is not a coefficient array / poly1d" % src_of(e))
            m = self.nonneg(kw["m"], "derivative order") if "m" in kw else 1
            return V("pobj", ("PDer", v.term, m), callable=v.callable)
        if f == "numpy.polyval":
            self.kwargs(e, [])
            if len(e.args) != 2:
                bail(e, "`%s`: numpy.polyval(p, x)" % src_of(e))
            v = self.ex(e.args[0])
            if v.kind != "pobj":
                bail(e, "`%s`: polyval of something that is not a coefficient array / poly1d" % src_of(e))
            return V("ev", ("EPoly", v.term, self.arr(e.args[1], "evaluation points").term))
        # ---- the module's own lstsq_polyfit (inlined)
        if isinstance(e.func, ast.Name) and e.func.id in self.tr.funcs and e.func.id not in HELPERS \
                and e.func.id != "interpolate_modes":
            if self.depth >= 3:
                bail(e, "call depth in `%s`" % src_of(e))
            callee = self.tr.funcs[e.func.id]
            params, defaults = self.tr.signature(callee)
            env = {}
            for i, a in enumerate(e.args):
                if i >= len(params):
                    bail(e, "too many arguments in `%s`" % src_of(e))
                env[params[i]] = self.ex(a)
            for k in e.keywords:
                if k.arg not in params or k.arg in env:
                    bail(e, "keyword `%s` in `%s`" % (k.arg, src_of(e)))
                env[k.arg] = self.ex(k.value)
            for p in params:
                if p not in env:
                    if p not in defaults:
                        bail(e, "missing argument `%s` in `%s`" % (p, src_of(e)))
                    d = defaults[p]
                    bail(e, "`%s` relies on the default `%s=%s` (pass the order explicitly)" % (src_of(e), p, src_of(d)))
            r = Helper(self.tr, callee, env, self.depth + 1).run(callee.body)
            if r is None:
                bail(callee, "function %s does not return on every path" % callee.name)
            return r
        # ---- calls of objects
        if isinstance(e.func, ast.Name) and e.func.id in self.env:
            o = self.env[e.func.id]
            if o.kind == "cobj":
                allowed = {"CUnivariateSpline": ["nu"], "CKrogh": []}.get(o.ckind, ["nu", "extrapolate"])
                kw = self.kwargs(e, allowed)
                if len(e.args) == 2 and "nu" in allowed and "nu" not in kw:
                    kw["nu"] = e.args[1]
                elif len(e.args) != 1:
                    bail(e, "`%s`: call with %d positional arguments" % (src_of(e), len(e.args)))
                nu = self.nonneg(kw["nu"], "nu") if "nu" in kw else 0
                ext = False
                if "extrapolate" in kw:
                    x = self.ex(kw["extrapolate"])
                    if x.kind != "bool":
                        bail(e, "`%s`: extrapolate is not True / False" % src_of(e))
                    ext = x.term
                return V("ev", ("ECall", o.term, nu, ext, self.arr(e.args[0], "evaluation points").term))
            if o.kind == "pobj":
                if not o.callable:
                    bail(e, "`%s`: a coefficient array is called (only poly1d objects are callable)" % src_of(e))
                self.kwargs(e, [])
                if len(e.args) != 1:
                    bail(e, "`%s`: poly1d call with %d arguments" % (src_of(e), len(e.args)))
                return V("ev", ("EPoly", o.term, self.arr(e.args[0], "evaluation points").term))
        if isinstance(e.func, ast.Attribute) and e.func.attr == "derivative" and isinstance(e.func.value, ast.Name) \
                and e.func.value.id in self.env and self.env[e.func.value.id].kind == "cobj" \
                and self.env[e.func.value.id].ckind == "CKrogh":
            o = self.env[e.func.value.id]
            kw = self.kwargs(e, ["der"])
            if len(e.args) == 2 and "der" not in kw:
                kw["der"] = e.args[1]
            elif len(e.args) != 1:
                bail(e, "`%s`: derivative(x[, der])" % src_of(e))
            der = self.nonneg(kw["der"], "der") if "der" in kw else 1
            return V("ev", ("ECall", o.term, der, False, self.arr(e.args[0], "evaluation points").term))
        bail(e, "call `%s`" % src_of(e))


# ------------------------------------------------------------------------------------------------
# module
# ------------------------------------------------------------------------------------------------

class Translator:
    def __init__(self, source):
        self.source = source
        import warnings
        with warnings.catch_warnings():
            warnings.simplefilter("ignore")
            try:
                self.mod = ast.parse(source)
            except SyntaxError as e:
                err = TranslateError(None, "syntax error: %s" % e)
                err.line = e.lineno or "?"
                err.args = ("%s:%s: not in the translatable grammar: syntax error: %s" % (SRC, err.line, e.msg),)
                raise err
        self.funcs = {}
        self.star_count = 0
        self.module_error = None
        self.errors = {}       # group -> TranslateError
        self.flows = {}        # helper function name -> flow triple | {literal: flow triple}
        self.defaults = {}     # function name -> {param: text}
        self.loop = None
        try:
            self.module_checks()
        except TranslateError as e:
            self.module_error = e
            for g in GROUPS:
                self.errors[g] = e
            return
        for fname, g in GROUP_OF.items():
            try:
                self.flows[fname] = self.helper(fname)
            except TranslateError as e:
                self.errors[g] = e
        try:
            self.loop = self.loop_flow()
        except TranslateError as e:
            self.errors["loop"] = e

    # ---- module-level hygiene -------------------------------------------------------------------
    def module_checks(self):
        mod = self.mod
        for s in mod.body:
            if isinstance(s, ast.FunctionDef):
                if s.name in self.funcs:
                    bail(s, "function %s is defined twice" % s.name)
                if s.decorator_list:
                    bail(s, "decorated function %s" % s.name)
                self.funcs[s.name] = s
            elif isinstance(s, (ast.Import, ast.ImportFrom)):
                pass
            elif isinstance(s, ast.Expr) and isinstance(s.value, ast.Constant) and isinstance(s.value.value, str):
                pass
            elif isinstance(s, ast.Assign) and all(isinstance(t, ast.Name) for t in s.targets):
                pass      # a module constant: the symbolic evaluator never resolves such a name (a use inside a
                          # translated function is refused there); rebinding numpy / scipy / a function is refused below
            else:
                bail(s, "module-level statement `%s` (only imports, function definitions, NAME = ...)" % src_of(s))
        reserved = {"numpy": 0, "scipy": 0}
        for n in ast.walk(mod):
            names = []
            if isinstance(n, (ast.Import, ast.ImportFrom)):
                if n not in mod.body:
                    bail(n, "import inside a function")
                for a in n.names:
                    if a.name == "*":
                        bail(n, "star import")
                    nm = (a.asname or a.name).split(".")[0]
                    names.append(nm)
                    if nm in ("numpy", "scipy") and (not isinstance(n, ast.Import) or a.asname is not None
                                                     or a.name.split(".")[0] != nm):
                        bail(n, "`%s` does not bind %s to the package of that name" % (src_of(n), nm))
            elif isinstance(n, (ast.FunctionDef, ast.AsyncFunctionDef, ast.ClassDef, ast.Lambda)):
                if n not in mod.body:
                    bail(n, "nested def / lambda / class")
                if isinstance(n, ast.FunctionDef):
                    a = n.args
                    if a.vararg or a.kwarg or a.kwonlyargs or a.posonlyargs:
                        bail(n, "star / keyword-only / positional-only parameters of %s" % n.name)
                    # annotations and defaults are evaluated when the def statement runs: only inert expressions
                    for x in [y.annotation for y in a.args if y.annotation is not None] + \
                            ([n.returns] if n.returns is not None else []):
                        for z in ast.walk(x):
                            if not isinstance(z, (ast.Name, ast.Attribute, ast.Subscript, ast.Tuple, ast.Constant,
                                                  ast.Load, ast.Slice)):
                                bail(x, "annotation `%s` of %s (only names, attributes, subscripts, constants)"
                                     % (src_of(x), n.name))
                    for x in a.defaults:
                        if not isinstance(x, ast.Constant):
                            bail(x, "default value `%s` of %s (only literals)" % (src_of(x), n.name))
                    continue
                bail(n, "async def / class / lambda")
            elif isinstance(n, ast.Name) and isinstance(n.ctx, (ast.Store, ast.Del)):
                names.append(n.id)
            elif isinstance(n, ast.arg):
                names.append(n.arg)
            elif isinstance(n, (ast.Global, ast.Nonlocal)):
                bail(n, "global / nonlocal")
            elif isinstance(n, ast.NamedExpr):
                bail(n, "assignment expression")
            elif isinstance(n, ast.Name) and n.id in ("exec", "eval", "globals", "locals", "vars", "setattr", "getattr",
                                                      "__import__"):
                bail(n, "use of `%s`" % n.id)
            for nm in names:
                if nm in reserved and not isinstance(n, ast.Import):
                    bail(n, "name `%s` is rebound" % nm)
                if nm in self.funcs and not isinstance(n, (ast.Import, ast.ImportFrom)):
                    bail(n, "function name `%s` is rebound" % nm)
                if nm in self.funcs and isinstance(n, (ast.Import, ast.ImportFrom)):
                    bail(n, "function name `%s` is also imported" % nm)
                if nm in ("int", "len", "max", "range"):
                    bail(n, "builtin / module name `%s` is rebound" % nm)
        imported = set()
        for s in mod.body:
            if isinstance(s, ast.Import):
                for a in s.names:
                    imported.add(a.name)
        if "numpy" not in imported:
            bail(None, "`import numpy` not found")
        if not any(x == "scipy.interpolate" for x in imported):
            bail(None, "`import scipy.interpolate` not found")

    def signature(self, fn):
        a = fn.args
        params = [x.arg for x in a.args]
        defaults = dict(zip(params[len(params) - len(a.defaults):], a.defaults))
        return params, defaults

    # ---- helpers ------------------------------------------------------------------------------------
    def helper(self, fname):
        fn = self.funcs.get(fname)
        if fn is None:
            bail(None, "function %s is not defined at module level" % fname)
        params, defaults = self.signature(fn)
        want = ["mode_volumes", "mode_freqs", "v_array"] + (["method"] if fname == "interpolate_mode_ppoly" else []) + ["order"]
        if params != want:
            bail(fn, "signature of %s is (%s), expected (%s)" % (fname, ", ".join(params), ", ".join(want)))
        self.defaults[fname] = {p: src_of(d) for p, d in defaults.items()}

        def once(method):
            env = {"mode_volumes": V("arr", ("AVols",)), "mode_freqs": V("arr", ("AFreqs",)),
                   "v_array": V("arr", ("AGrid",)), "order": V("ord", 0)}
            if method is not None:
                env["method"] = V("str", method)
            r = Helper(self, fn, env).run(fn.body)
            if r is None:
                bail(fn, "%s does not return on every path" % fname)
            if r.kind != "tuple" or len(r.term) != 3 or any(x.kind != "ev" for x in r.term):
                bail(fn, "%s does not return a 3-tuple of evaluated interpolants" % fname)
            return tuple(x.term for x in r.term)

        if fname != "interpolate_mode_ppoly":
            return once(None)
        lits = []
        for n in ast.walk(fn):
            if isinstance(n, ast.Compare) and isinstance(n.left, ast.Name) and n.left.id == "method":
                for c in n.comparators:
                    for x in ([c] if isinstance(c, ast.Constant) else getattr(c, "elts", [])):
                        if isinstance(x, ast.Constant) and isinstance(x.value, str) and x.value not in lits:
                            lits.append(x.value)
        if not lits:
            bail(fn, "%s has no `method == \"...\"` chain" % fname)
        out = {}
        for l in lits:
            if not all(32 <= ord(ch) < 127 and ch != '"' for ch in l):
                bail(fn, "method literal %r" % l)
            out[l] = once(l)
        return out

    # ---- the loop -----------------------------------------------------------------------------------
    def loop_flow(self):
        fn = self.funcs.get("interpolate_modes")
        if fn is None:
            bail(None, "function interpolate_modes is not defined at module level")
        params, defaults = self.signature(fn)
        if params != ["qha_input", "v_array", "method", "order"]:
            bail(fn, "signature of interpolate_modes is (%s)" % ", ".join(params))
        self.defaults["interpolate_modes"] = {p: src_of(d) for p, d in defaults.items()}
        body = [s for s in fn.body if not (isinstance(s, ast.Expr) and isinstance(s.value, ast.Constant)
                                           and isinstance(s.value.value, str))]
        env = {}          # name -> ('dim', D) | ('out', index-in-creation, shape) | ('vols',) | ('col', a, b)
        i = 0
        while i < len(body) and isinstance(body[i], ast.Assign):
            s = body[i]
            if len(s.targets) != 1 or not isinstance(s.targets[0], ast.Name):
                bail(s, "assignment `%s` in the prologue of interpolate_modes" % src_of(s))
            nm = s.targets[0].id
            if nm in params or nm in env:
                bail(s, "`%s` is rebound" % nm)
            env[nm] = self.prologue_value(s.value, env)
            i += 1
        if i >= len(body) or not isinstance(body[i], ast.For):
            bail(body[i] if i < len(body) else fn, "expected the `for .. in range(..)` nest after the prologue")
        outer = body[i]
        rest = body[i + 1:]
        if len(rest) != 1 or not isinstance(rest[0], ast.Return):
            bail(rest[0] if rest else fn, "expected exactly `return a, b, c` after the loop nest")
        rv = rest[0].value
        if not (isinstance(rv, ast.Tuple) and len(rv.elts) == 3 and all(isinstance(x, ast.Name) for x in rv.elts)):
            bail(rest[0], "`%s` (expected three array names)" % src_of(rest[0]))
        ret = [x.id for x in rv.elts]
        if len(set(ret)) != 3 or any(env.get(x, ("",))[0] != "out" for x in ret):
            bail(rest[0], "`%s`: not three distinct numpy.zeros arrays" % src_of(rest[0]))
        out_index = {nm: k for k, nm in enumerate(ret)}
        shapes = [env[nm][1] for nm in ret]

        jv, jd, inner_body = self.for_header(outer, env, params)
        if len(inner_body) != 1 or not isinstance(inner_body[0], ast.For):
            bad = [x for x in inner_body if not isinstance(x, ast.For)]
            bail(bad[0] if bad else outer, "the outer loop body is not exactly the inner `for`: statement `%s`"
                 % (src_of(bad[0]) if bad else "(nothing)"))
        kv, kd, stmts = self.for_header(inner_body[0], env, params + [jv])
        if kv == jv:
            bail(inner_body[0], "both loops use the variable `%s`" % jv)
        lv = {jv: "LJ", kv: "LK"}
        stmts = [s for s in stmts if not isinstance(s, ast.Pass)]
        skip = ("BFalse",)
        k = 0
        if stmts and isinstance(stmts[0], ast.If) and len(stmts[0].body) == 1 and isinstance(stmts[0].body[0], ast.Continue):
            if stmts[0].orelse:
                bail(stmts[0], "`if ..: continue` with an else branch")
            skip = self.bexp(stmts[0].test, lv)
            k = 1
        lenv = dict(env)
        while k < len(stmts) and isinstance(stmts[k], ast.Assign):
            s = stmts[k]
            if len(s.targets) != 1 or not isinstance(s.targets[0], ast.Name):
                bail(s, "assignment `%s` in the loop body" % src_of(s))
            nm = s.targets[0].id
            if nm in params or nm in lv or (nm in lenv and lenv[nm][0] != "col"):
                bail(s, "`%s` is rebound in the loop body" % nm)
            lenv[nm] = self.column(s.value, lv)
            k += 1
        if k != len(stmts) - 1 or not isinstance(stmts[k], ast.If):
            bail(stmts[k] if k < len(stmts) else inner_body[0],
                 "expected [if ..: continue], column assignments, then ONE if/elif dispatch chain; found `%s`"
                 % (src_of(stmts[k]) if k < len(stmts) else "nothing"))
        branches = []
        node = stmts[k]
        seen = []
        while True:
            lits = self.method_test(node.test)
            for l in lits:
                if l in seen:
                    bail(node.test, "method literal %r appears twice in the chain" % l)
                seen.append(l)
            branches.append(self.branch(node, lits, lenv, lv, out_index))
            if not node.orelse:
                break
            if len(node.orelse) != 1 or not isinstance(node.orelse[0], ast.If):
                bail(node.orelse[0], "`else:` branch in the dispatch chain")
            node = node.orelse[0]
        return dict(outer=jd, inner=kd, shapes=shapes, skip=skip, branches=branches, ret=ret, vars=(jv, kv))

    def prologue_value(self, v, env):
        t = src_of(v)
        if t in ("qha_input.nv", "qha_input.nq", "qha_input.np"):
            return ("dim", {"nv": "DimNv", "nq": "DimNq", "np": "DimNp"}[t.split(".")[1]])
        if t == "v_array.shape[0]" or t == "len(v_array)":
            return ("dim", "DimNtv")
        if isinstance(v, ast.Call) and src_of(v.func) == "numpy.zeros" and len(v.args) == 1 and not v.keywords \
                and isinstance(v.args[0], ast.Tuple) and len(v.args[0].elts) == 3:
            ds = []
            for x in v.args[0].elts:
                if not (isinstance(x, ast.Name) and env.get(x.id, ("",))[0] == "dim"):
                    bail(v, "`%s`: shape entry `%s` is not one of the dimension names" % (t, src_of(x)))
                ds.append(env[x.id][1])
            return ("out", tuple(ds))
        if t == "numpy.array([volume.volume for volume in qha_input.volumes])":
            return ("vols",)
        bail(v, "prologue value `%s` (only qha_input.nv/nq/np, v_array.shape[0], numpy.zeros((d, d, d)), "
                "numpy.array([volume.volume for volume in qha_input.volumes]))" % t)

    def for_header(self, f, env, taken):
        if f.orelse:
            bail(f, "for-else")
        if not isinstance(f.target, ast.Name) or f.target.id in taken or f.target.id in env:
            bail(f, "loop target `%s`" % src_of(f.target))
        it = f.iter
        if not (isinstance(it, ast.Call) and src_of(it.func) == "range" and len(it.args) == 1 and not it.keywords
                and isinstance(it.args[0], ast.Name) and env.get(it.args[0].id, ("",))[0] == "dim"):
            bail(f, "loop range `%s` (only range(<dimension name>))" % src_of(it))
        return f.target.id, env[it.args[0].id][1], f.body

    def bexp(self, t, lv):
        if isinstance(t, ast.BoolOp):
            op = "BAnd" if isinstance(t.op, ast.And) else "BOr"
            r = self.bexp(t.values[0], lv)
            for x in t.values[1:]:
                r = (op, r, self.bexp(x, lv))
            return r
        if isinstance(t, ast.UnaryOp) and isinstance(t.op, ast.Not):
            return ("BNot", self.bexp(t.operand, lv))
        if isinstance(t, ast.Compare) and len(t.ops) == 1 and isinstance(t.left, ast.Name) and t.left.id in lv:
            v, op, r = lv[t.left.id], t.ops[0], t.comparators[0]
            n = int_const(r)
            if isinstance(op, ast.Eq) and n is not None:
                return ("BEq", (v,), n)
            if isinstance(op, ast.Lt) and n is not None:
                return ("BLt", (v,), n)
            if isinstance(op, ast.LtE) and n is not None:
                return ("BLt", (v,), n + 1)
            if isinstance(op, ast.In) and isinstance(r, ast.Call) and src_of(r.func) == "range" and len(r.args) == 1 \
                    and not r.keywords and int_const(r.args[0]) is not None:
                return ("BLt", (v,), int_const(r.args[0]))
        bail(t, "skip test `%s` (only J == n, J < n, J <= n, J in range(n), not / and / or)" % src_of(t))

    def column(self, v, lv):
        if not (isinstance(v, ast.Call) and src_of(v.func) == "numpy.array" and len(v.args) == 1 and not v.keywords
                and isinstance(v.args[0], ast.ListComp)):
            bail(v, "`%s` (only numpy.array([volume.q_points[a].modes[b] for volume in qha_input.volumes]))" % src_of(v))
        lc = v.args[0]
        if len(lc.generators) != 1:
            bail(v, "nested comprehension")
        g = lc.generators[0]
        if g.ifs or g.is_async or not isinstance(g.target, ast.Name) or src_of(g.iter) != "qha_input.volumes":
            bail(v, "`%s`: the comprehension does not run over all of qha_input.volumes" % src_of(v))
        vn = g.target.id
        if vn in lv:
            bail(v, "comprehension variable shadows a loop variable")
        e = lc.elt
        ok = isinstance(e, ast.Subscript) and isinstance(e.value, ast.Attribute) and e.value.attr == "modes" \
            and isinstance(e.value.value, ast.Subscript) and isinstance(e.value.value.value, ast.Attribute) \
            and e.value.value.value.attr == "q_points" and isinstance(e.value.value.value.value, ast.Name) \
            and e.value.value.value.value.id == vn
        if ok:
            a, b = e.value.value.slice, e.slice
            ok = isinstance(a, ast.Name) and a.id in lv and isinstance(b, ast.Name) and b.id in lv
        if not ok:
            bail(v, "`%s`: the element is not %s.q_points[<loop var>].modes[<loop var>]" % (src_of(v), vn))
        return ("col", lv[a.id], lv[b.id])

    def method_test(self, t):
        if isinstance(t, ast.Compare) and len(t.ops) == 1 and isinstance(t.left, ast.Name) and t.left.id == "method":
            r = t.comparators[0]
            if isinstance(t.ops[0], ast.Eq) and isinstance(r, ast.Constant) and isinstance(r.value, str):
                lits = [r.value]
            elif isinstance(t.ops[0], ast.In) and isinstance(r, (ast.List, ast.Tuple, ast.Set)) and r.elts and \
                    all(isinstance(x, ast.Constant) and isinstance(x.value, str) for x in r.elts):
                lits = [x.value for x in r.elts]
            else:
                lits = None
            if lits is not None and all(all(32 <= ord(ch) < 127 and ch != '"' for ch in l) for l in lits):
                return lits
        bail(t, "dispatch test `%s` (only method == \"s\" / method in [\"s\", ..])" % src_of(t))

    def branch(self, node, lits, lenv, lv, out_index):
        if len(node.body) != 1 or not isinstance(node.body[0], ast.Assign) or len(node.body[0].targets) != 1:
            bail(node.body[0] if node.body else node, "dispatch branch body is not one assignment")
        s = node.body[0]
        tg = s.targets[0]
        if not (isinstance(tg, (ast.Tuple, ast.List)) and len(tg.elts) == 3):
            bail(s, "`%s`: the target is not a 3-tuple of array slots" % src_of(tg))
        targets = []
        for t in tg.elts:
            ok = isinstance(t, ast.Subscript) and isinstance(t.value, ast.Name) and t.value.id in out_index \
                and isinstance(t.slice, ast.Tuple) and len(t.slice.elts) == 3 and is_full_slice(t.slice.elts[0]) \
                and all(isinstance(x, ast.Name) and x.id in lv for x in t.slice.elts[1:])
            if not ok:
                bail(t, "store target `%s` (only <returned array>[:, <loop var>, <loop var>])" % src_of(t))
            targets.append((out_index[t.value.id], lv[t.slice.elts[1].id], lv[t.slice.elts[2].id]))
        c = s.value
        if not (isinstance(c, ast.Call) and isinstance(c.func, ast.Name) and c.func.id in HELPERS):
            bail(s, "`%s`: not a call of one of %s" % (src_of(c), ", ".join(sorted(HELPERS))))
        if c.func.id not in self.funcs:
            bail(s, "`%s` is not defined in this module" % c.func.id)
        if any(isinstance(a, ast.Starred) for a in c.args) or any(k.arg is None for k in c.keywords):
            bail(c, "star-arguments in `%s`" % src_of(c))
        hparams, hdefaults = self.signature(self.funcs[c.func.id])
        bound = {}
        for i, a in enumerate(c.args):
            if i >= len(hparams):
                bail(c, "too many arguments in `%s`" % src_of(c))
            bound[hparams[i]] = a
        for kw in c.keywords:
            if kw.arg not in hparams or kw.arg in bound:
                bail(c, "keyword `%s` in `%s`" % (kw.arg, src_of(c)))
            bound[kw.arg] = kw.value
        args = []
        for p in ("mode_volumes", "mode_freqs", "v_array"):
            if p not in bound:
                bail(c, "`%s` does not pass %s" % (src_of(c), p))
            a = bound.pop(p)
            if isinstance(a, ast.Name) and a.id == "v_array":
                args.append(("LGrid",))
            elif isinstance(a, ast.Name) and lenv.get(a.id, ("",))[0] == "vols":
                args.append(("LVolumes",))
            elif isinstance(a, ast.Name) and lenv.get(a.id, ("",))[0] == "col":
                args.append(("LCol", (lenv[a.id][1],), (lenv[a.id][2],)))
            else:
                bail(a, "argument `%s` for %s (only the volumes array, a column array, v_array)" % (src_of(a), p))
        order = "OrdHelperDefault"
        if "order" in bound:
            a = bound.pop("order")
            if not (isinstance(a, ast.Name) and a.id == "order"):
                bail(a, "order argument `%s` (only order=order)" % src_of(a))
            order = "OrdCaller"
        elif "order" not in hdefaults:
            bail(c, "`%s` does not pass order and the helper has no default" % src_of(c))
        passes = False
        if "method" in bound:
            a = bound.pop("method")
            if not (isinstance(a, ast.Name) and a.id == "method"):
                bail(a, "method argument `%s` (only method=method)" % src_of(a))
            passes = True
        elif "method" in hparams and "method" not in hdefaults:
            bail(c, "`%s` does not pass method" % src_of(c))
        if bound:
            bail(c, "unexpected arguments %s in `%s`" % (", ".join(sorted(bound)), src_of(c)))
        return dict(methods=lits, helper=HELPERS[c.func.id], targets=targets, args=args, order=order, passes=passes)


# ------------------------------------------------------------------------------------------------
# emission
# ------------------------------------------------------------------------------------------------

GEN_HEADER = """(* GENERATED by tools/translate_modegamma.py from %s of the current source tree - do not edit *)
From Coq Require Import String.
From Coq Require Import List Bool.
From CijGen Require Import MGFlowBase.
Import ListNotations.
Local Open Scope string_scope.

"""


def flow_text(f):
    return "{| hf_omega := %s;\n     hf_gamma := %s;\n     hf_third := %s |}" % tuple(coq(x) for x in f)


def emit(tr: Translator) -> str:
    out = [GEN_HEADER % SRC]
    short = {"interpolate_mode_spline": "gen_spline", "interpolate_mode_lagrange": "gen_lagrange",
             "interpolate_mode_krogh": "gen_krogh", "interpolate_mode_lsq_poly": "gen_lsq_poly"}
    for fname, g in GROUP_OF.items():
        if g in tr.errors:
            out.append("(* %s: NOT TRANSLATED - %s *)\n" % (fname, str(tr.errors[g]).replace("*)", "* )")))
            continue
        fl = tr.flows[fname]
        d = tr.defaults.get(fname, {})
        out.append("(* %s  (defaults: %s) *)" % (fname, ", ".join("%s=%s" % kv for kv in d.items()).replace("*)", "* )") or "none"))
        if fname == "interpolate_mode_ppoly":
            out.append("Definition gen_ppoly : list (string * helper_flow) :=\n  [%s].\n" % ";\n   ".join(
                '("%s",\n    %s)' % (l, flow_text(f)) for l, f in fl.items()))
        else:
            out.append("Definition %s : helper_flow :=\n  %s.\n" % (short[fname], flow_text(fl)))
    if "loop" in tr.errors:
        out.append("(* interpolate_modes: NOT TRANSLATED - %s *)\n" % str(tr.errors["loop"]).replace("*)", "* )"))
    else:
        L = tr.loop
        brs = []
        for b in L["branches"]:
            brs.append("{| br_methods := [%s]; br_helper := %s;\n       br_targets := [%s];\n       br_args := (%s, %s, %s); "
                       "br_order := %s; br_passes_method := %s |}" % (
                           "; ".join('"%s"' % m for m in b["methods"]), b["helper"],
                           "; ".join("{| t_array := %d; t_slot := (%s, %s) |}" % t for t in b["targets"]),
                           coq(b["args"][0]), coq(b["args"][1]), coq(b["args"][2]), b["order"], coq(b["passes"])))
        d = tr.defaults.get("interpolate_modes", {})
        out.append("(* interpolate_modes  (defaults: %s; loop variables %s -> LJ, %s -> LK; returned arrays %s -> 0, 1, 2) *)"
                   % (", ".join("%s=%s" % kv for kv in d.items()).replace("*)", "* )"), L["vars"][0], L["vars"][1],
                      ", ".join(L["ret"])))
        out.append("Definition gen_loop : loop_flow :=\n  {| lf_outer := %s; lf_inner := %s;\n     lf_shapes := [%s];\n"
                   "     lf_skip := %s;\n     lf_branches :=\n     [%s] |}.\n" % (
                       L["outer"], L["inner"], "; ".join("(%s, %s, %s)" % s for s in L["shapes"]), coq(L["skip"]),
                       ";\n      ".join(brs)))
    return "\n".join(out)


def translate(source):
    return Translator(source)


STD_TARGETS = [(0, "LJ", "LK"), (1, "LJ", "LK"), (2, "LJ", "LK")]
STD_ARGS = [("LVolumes",), ("LCol", ("LJ",), ("LK",)), ("LGrid",)]


def diagnose(tr, group):
    """human-readable hint for a lemma group that failed in Coq (the verdict itself is Coq's)"""
    if group != "loop" or tr.loop is None:
        return ""
    L, out = tr.loop, []
    j, k = L["vars"]
    nm = {"LJ": j, "LK": k}
    if (L["outer"], L["inner"]) != ("DimNq", "DimNp"):
        out.append("loops run over (%s, %s), expected (DimNq, DimNp)" % (L["outer"], L["inner"]))
    if any(s != ("DimNtv", "DimNq", "DimNp") for s in L["shapes"]):
        out.append("returned arrays have shapes %s" % (L["shapes"],))
    for b in L["branches"]:
        who = "branch %s" % "/".join(b["methods"])
        if b["targets"] != STD_TARGETS:
            out.append("%s stores components 0,1,2 into %s (expected %s[:, %s, %s], ...)" % (
                who, ", ".join("%s[:, %s, %s]" % (L["ret"][a], nm[x], nm[y]) for a, x, y in b["targets"]), L["ret"][0], j, k))
        if b["args"] != STD_ARGS:
            out.append("%s calls its helper on %s" % (who, ", ".join(coq(a) for a in b["args"])))
        if b["order"] != "OrdCaller":
            out.append("%s does not pass order=order" % who)
    return "; ".join(out)


if __name__ == "__main__":
    import sys
    root = sys.argv[1] if len(sys.argv) > 1 else "/repo"
    t = Translator(open(root + "/" + SRC).read())
    for g, e in t.errors.items():
        print("(* ERROR %s: %s *)" % (g, e))
    print(emit(t))
