"""Fail-closed translator for cij/io/config/config.py  (static tie of C16).

    update_config            -> g_step      : the if/elif chain of the loop body as a decision function over the observable
                                              facts (k in input_dict, k in default_dict, isinstance(input_dict[k], dict),
                                              isinstance(default_dict[k], dict)) with Python's evaluation order: a
                                              subscript D[k] that is evaluated while k is not in D is a KeyError
                                -> g_loop_keys : the list expression inside `set(...)` the loop ranges over
                                -> g_update_config := merge_skel ord g_step g_loop_keys   (ConfigTieBase.v)
    apply_default_config     -> g_apply_default_config (which value is passed in which argument position of
                                update_config), g_default_file (the packaged file name)
    read_config              -> g_read_dispatch (suffix -> parser / exception), g_read_config

Anything outside the grammar raises TranslateError(file, line, construct).

GRAMMAR
  update_config(input_dict, default_dict):
        OUT = {} | dict()
        for K in KEYSET: STEP
        return OUT
    KEYSET ::= set(LIST) | SETX            SETX ::= SETX `|` SETX | set(LIST) | D.keys() | {*LIST, ...}
    LIST   ::= [*LIST, ...] | LIST + LIST | list(LIST) | D.keys() | D | sorted(LIST) | tuple(LIST)
    STEP   ::= S*                                   (symbolically executed once per key, statements in order)
    S      ::= OUT[K] = VALUE | <local> = VALUE | if COND: S* [elif ...] [else: S*] | continue | pass
               `continue` ends the iteration for this key (what has been stored so far is the outcome); a later store
               overwrites an earlier one; a local must be assigned earlier IN THE SAME iteration on every path that
               reads it; the result of a recursive call must be what is finally stored (otherwise refused)
    VALUE  ::= D[K] | <local> | update_config(ARG, ARG)          ARG ::= D[K] | <local holding D[K]>
    COND   ::= K in D | K not in D | K in D.keys() | K not in D.keys() | isinstance(D[K], dict)
             | isinstance(<local holding D[K]>, dict) | not COND | COND and COND | COND or COND   (short-circuit)
             every evaluation of a subscript D[K] is guarded at the place where Python evaluates it (v_guard)
    D      ::= input_dict | default_dict   (the two parameters, whatever their names)
  apply_default_config(input_dict):
        import yaml / import cij.data                                   (glue, exact text)
        with open(cij.data.get_data_fname("<file>")) as fp: NAME = yaml.load(fp, Loader=yaml.FullLoader)
        return update_config(A, B)            A, B ::= the parameter | NAME
  read_config(fname, validate=True):
        suffix = Path(fname).suffix
        with open(fname) as fp:
            if suffix in {lits}: import yaml; config = yaml.load(fp, Loader=yaml.FullLoader)
            elif suffix in {lits}: import json; config = json.load(fp)
            else: raise <Exc>(...)
        if validate: validate_config(config)
        return config
    (branches may come in any order / number; `suffix == "lit"` and tuple/list/set literals accepted)

ONLY PATTERN-CHECKED (glue): the import lines, `with open(..) as fp`, yaml.load(fp, Loader=yaml.FullLoader) /
json.load(fp) - inline after the lazy import, or through a module-level helper whose whole body is that import and
`return yaml.load(<param>, Loader=yaml.FullLoader)` / `return json.load(<param>)` - read as "the parsed tree" (parsers
are oracles of C16), cij.data.get_data_fname =
pkg_resources.resource_filename(__name__, fname), `from .validate import validate_config`.
"""
import ast

from tie_common import (TranslateError, parse, src_of, body_no_doc, module_function, arg_names, no_reflection,
                        bindings_of, coq_str)

FILE = "cij/io/config/config.py"
DATA_INIT = "cij/data/__init__.py"
YAML_LOAD = "yaml.load(fp, Loader=yaml.FullLoader)"
JSON_LOAD = "json.load(fp)"


def bail(node, what):
    raise TranslateError(FILE, node, what)


# ---------------------------------------------------------------------------------------------------
# update_config
# ---------------------------------------------------------------------------------------------------

class Update:
    def __init__(self, fn):
        self.fn = fn
        arg_names(fn, FILE, [a.arg for a in fn.args.args])
        if len(fn.args.args) != 2:
            bail(fn, "update_config does not take exactly two parameters")
        self.inp, self.dfl = [a.arg for a in fn.args.args]
        self.side = {self.inp: "SInput", self.dfl: "SDefault"}
        self.present = {self.inp: "in_input", self.dfl: "in_default"}
        self.isdict = {self.inp: "input_is_dict", self.dfl: "default_is_dict"}
        no_reflection(fn, FILE)
        b = body_no_doc(fn)
        if len(b) != 3:
            bail(b[3] if len(b) > 3 else fn, "update_config body is not `OUT = {}` / `for K in set(...): ...` / `return OUT`")
        init, loop, ret = b
        if not (isinstance(init, ast.Assign) and len(init.targets) == 1 and isinstance(init.targets[0], ast.Name)
                and src_of(init.value) in ("{}", "dict()")):
            bail(init, "`%s` (expected `<name> = {}`)" % src_of(init)[:80])
        self.out = init.targets[0].id
        if not (isinstance(ret, ast.Return) and ret.value is not None and src_of(ret.value) == self.out):
            bail(ret, "`%s` (expected `return %s`)" % (src_of(ret)[:80], self.out))
        if not (isinstance(loop, ast.For) and isinstance(loop.target, ast.Name) and not loop.orelse):
            bail(loop, "`%s` (expected `for <name> in set(...):` without else)" % src_of(loop)[:60].split("\n")[0])
        self.k = loop.target.id
        if len({self.out, self.k, self.inp, self.dfl, fn.name}) != 5:
            bail(loop, "the names of parameters, result, loop variable and function are not distinct")
        # names bound once
        for nm, n_expected in ((self.out, 1), (self.k, 1), (self.inp, 1), (self.dfl, 1)):
            if len(bindings_of(fn, nm)) != n_expected:
                bail(fn, "name `%s` is bound more than once inside update_config" % nm)
        for n in ast.walk(fn):
            if isinstance(n, (ast.Break, ast.Try, ast.With, ast.While, ast.Delete, ast.AugAssign, ast.Global,
                              ast.Nonlocal)):
                bail(n, "%s inside update_config" % type(n).__name__)
            if isinstance(n, ast.Return) and n is not ret:
                bail(n, "a second `return`")
            if isinstance(n, ast.For) and n is not loop:
                bail(n, "a second loop")
        self.keys = self.keyset(loop.iter)
        self.loop = loop
        self.step = self.run(list(loop.body), {}, None, [], "    ")

    # -- the key set -----------------------------------------------------------------------------
    def keyset(self, e):
        """outermost: something that is a SET (each key once)"""
        if isinstance(e, ast.Call) and src_of(e.func) == "set" and len(e.args) == 1 and not e.keywords:
            return self.klist(e.args[0])
        return self.setx(e)

    def setx(self, e):
        if isinstance(e, ast.BinOp) and isinstance(e.op, ast.BitOr):
            return "(%s ++ %s)" % (self.setx(e.left), self.setx(e.right))
        if isinstance(e, ast.Call) and src_of(e.func) == "set" and len(e.args) == 1 and not e.keywords:
            return self.klist(e.args[0])
        if isinstance(e, ast.Set):
            return self.starred(e.elts, e)
        d = self.keys_view(e, allow_bare=False)
        if d:
            return d
        bail(e, "`%s` is not a set of keys (accepted: set(<list of keys>), a | b of sets / .keys() views, {*a, *b})" % src_of(e)[:100])

    def keys_view(self, e, allow_bare=True):
        if isinstance(e, ast.Call) and isinstance(e.func, ast.Attribute) and e.func.attr == "keys" and not e.args \
                and not e.keywords and isinstance(e.func.value, ast.Name) and e.func.value.id in self.side:
            return "ik" if e.func.value.id == self.inp else "dk"
        if allow_bare and isinstance(e, ast.Name) and e.id in self.side:
            return "ik" if e.id == self.inp else "dk"          # iterating a dict iterates its keys
        return None

    def starred(self, elts, node):
        parts = []
        for x in elts:
            if not isinstance(x, ast.Starred):
                bail(x, "element `%s` of the key list is not a `*keys` unpacking" % src_of(x)[:60])
            parts.append(self.klist(x.value))
        if not parts:
            return "(@nil string)"
        out = parts[-1]
        for p in reversed(parts[:-1]):
            out = "(%s ++ %s)" % (p, out)
        return out

    def klist(self, e):
        d = self.keys_view(e)
        if d:
            return d
        if isinstance(e, (ast.List, ast.Tuple, ast.Set)):
            return self.starred(e.elts, e)
        if isinstance(e, ast.BinOp) and isinstance(e.op, ast.Add):
            l, r = e.left, e.right
            # list + list only: a keys() view does not support +
            for s in (l, r):
                if self.keys_view(s):
                    bail(s, "`+` applied to a dict / keys view")
            return "(%s ++ %s)" % (self.klist(l), self.klist(r))
        if isinstance(e, ast.BinOp) and isinstance(e.op, ast.BitOr):
            return self.setx(e)
        if isinstance(e, ast.Call) and src_of(e.func) in ("list", "tuple", "set") and len(e.args) == 1 and not e.keywords:
            return self.klist(e.args[0])
        bail(e, "`%s` inside the key list" % src_of(e)[:100])

    # -- the step --------------------------------------------------------------------------------
    def sub(self, e):
        """D[K] -> D, else None"""
        if isinstance(e, ast.Subscript) and isinstance(e.value, ast.Name) and e.value.id in self.side \
                and isinstance(e.slice, ast.Name) and e.slice.id == self.k and isinstance(e.ctx, ast.Load):
            return e.value.id
        return None

    def cond(self, t, env):
        if isinstance(t, ast.Compare) and len(t.ops) == 1 and isinstance(t.ops[0], (ast.In, ast.NotIn)) \
                and isinstance(t.left, ast.Name) and t.left.id == self.k:
            r = t.comparators[0]
            d = None
            if isinstance(r, ast.Name) and r.id in self.side:
                d = r.id
            elif isinstance(r, ast.Call) and isinstance(r.func, ast.Attribute) and r.func.attr == "keys" and not r.args \
                    and not r.keywords and isinstance(r.func.value, ast.Name) and r.func.value.id in self.side:
                d = r.func.value.id
            if d is not None:
                c = "(c_fact %s)" % self.present[d]
                return "(c_not %s)" % c if isinstance(t.ops[0], ast.NotIn) else c
        if isinstance(t, ast.Call) and src_of(t.func) == "isinstance" and len(t.args) == 2 and not t.keywords \
                and src_of(t.args[1]) == "dict":
            d = self.sub(t.args[0])
            if d is not None:
                return "(c_sub %s %s)" % (self.present[d], self.isdict[d])
            a = t.args[0]
            if isinstance(a, ast.Name) and a.id in env:
                # a local that holds D[K]: the subscript was evaluated (and guarded) when the local was bound
                v = env[a.id]
                if v[0] == "take":
                    return "(c_fact %s)" % self.isdict[v[1]]
                bail(t, "isinstance of the local `%s`, which holds the result of a recursive call" % a.id)
        if isinstance(t, ast.UnaryOp) and isinstance(t.op, ast.Not):
            return "(c_not %s)" % self.cond(t.operand, env)
        if isinstance(t, ast.BoolOp):
            f = "c_and" if isinstance(t.op, ast.And) else "c_or"
            parts = [self.cond(v, env) for v in t.values]
            out = parts[-1]
            for p in reversed(parts[:-1]):
                out = "(%s %s %s)" % (f, p, out)
            return out
        bail(t, "condition `%s` (accepted: `%s [not] in D[.keys()]`, isinstance(D[%s], dict), isinstance(<local holding D[%s]>, dict), "
                "not / and / or)" % (src_of(t)[:100], self.k, self.k, self.k))

    def operand(self, e, env):
        """an argument of the recursive call / a stored value that is D[K] or a local holding D[K]:
        -> (dict name, guards evaluated now)"""
        d = self.sub(e)
        if d is not None:
            return d, [self.present[d]]
        if isinstance(e, ast.Name) and e.id in env and env[e.id][0] == "take":
            return env[e.id][1], []
        return None, None

    def value(self, e, env):
        """-> (symbolic value, guards in evaluation order); symbolic value: ('take', D) | ('rec', A, B, id)"""
        d, g = self.operand(e, env)
        if d is not None:
            return ("take", d), g
        if isinstance(e, ast.Name) and e.id in env:
            return env[e.id], []
        if isinstance(e, ast.Call) and isinstance(e.func, ast.Name) and e.func.id == self.fn.name and len(e.args) == 2 \
                and not e.keywords:
            a, ga = self.operand(e.args[0], env)
            b, gb = self.operand(e.args[1], env)
            if a is not None and b is not None:
                return ("rec", a, b, id(e)), ga + gb
        bail(e, "value `%s` (accepted: D[%s], a local holding such a value, %s(<D[%s] or local>, <D[%s] or local>))"
             % (src_of(e)[:100], self.k, self.fn.name, self.k, self.k))

    def final(self, stored, recs, node):
        """end of the iteration for this key"""
        for r in recs:
            if stored != r:
                bail(node, "the result of a recursive call is computed but not what is stored (its exceptions would be lost "
                           "in the translation)")
        if stored is None:
            return "NoStore"
        if stored[0] == "take":
            return "(Take %s)" % self.side[stored[1]]
        return "(Rec %s %s)" % (self.side[stored[1]], self.side[stored[2]])

    def guard(self, guards, term):
        for g in reversed(guards):
            term = "(v_guard %s %s)" % (g, term)
        return term

    def run(self, ss, env, stored, recs, ind):
        """symbolic execution of the rest `ss` of the loop body for one key.  env: local -> symbolic value (locals read
        before being assigned IN THIS ITERATION are refused); stored: the value last stored under OUT[K];
        recs: recursive calls evaluated so far.  `continue` = this key is done."""
        if not ss:
            return self.final(stored, recs, self.loop)
        s, rest = ss[0], ss[1:]
        if isinstance(s, ast.Continue):
            return self.final(stored, recs, s)
        if isinstance(s, ast.Pass):
            return self.run(rest, env, stored, recs, ind)
        if isinstance(s, ast.Assign) and len(s.targets) == 1:
            t = s.targets[0]
            if isinstance(t, ast.Subscript) and isinstance(t.value, ast.Name) and t.value.id == self.out \
                    and isinstance(t.slice, ast.Name) and t.slice.id == self.k:
                v, g = self.value(s.value, env)
                nrecs = recs + ([v] if v[0] == "rec" and v not in recs else [])
                return self.guard(g, self.run(rest, env, v, nrecs, ind))
            if isinstance(t, ast.Name) and t.id not in (self.out, self.k, self.inp, self.dfl, self.fn.name) \
                    and t.id.isidentifier():
                v, g = self.value(s.value, env)
                nrecs = recs + ([v] if v[0] == "rec" and v not in recs else [])
                env2 = dict(env)
                env2[t.id] = v
                return self.guard(g, self.run(rest, env2, stored, nrecs, ind))
            bail(s, "statement `%s` (accepted: `%s[%s] = VALUE`, `<local> = VALUE`)" % (src_of(s)[:80], self.out, self.k))
        if isinstance(s, ast.If):
            c = self.cond(s.test, env)
            th = self.run(list(s.body) + rest, env, stored, recs, ind + "  ")
            el = self.run(list(s.orelse) + rest, env, stored, recs, ind + "  ")
            return "(ite %s\n%s %s\n%s %s)" % (c, ind, th, ind, el)
        bail(s, "statement `%s` in the loop body (accepted: stores, local assignments, if / elif / else, continue)"
             % src_of(s)[:80].split("\n")[0])


def loader_kind(mod, e, fp="fp"):
    """the expression `e` loads the open file `fp` with a parser: -> 'yaml-inline' | 'json-inline' | 'yaml-helper' |
    'json-helper' | None.  A helper is a module-level, undecorated function bound once whose whole body is the lazy import
    followed by `return yaml.load(<its parameter>, Loader=yaml.FullLoader)` / `return json.load(<its parameter>)`:
    calling it is the inline form with the helper inlined."""
    s = src_of(e)
    if s == YAML_LOAD.replace("(fp,", "(%s," % fp):
        return "yaml-inline"
    if s == JSON_LOAD.replace("(fp)", "(%s)" % fp):
        return "json-inline"
    if isinstance(e, ast.Call) and isinstance(e.func, ast.Name) and [src_of(a) for a in e.args] == [fp] and not e.keywords:
        try:
            h = module_function(mod, FILE, e.func.id)
        except TranslateError:
            return None
        if len(h.args.args) != 1:
            return None
        arg_names(h, FILE, [h.args.args[0].arg])
        par = h.args.args[0].arg
        body = [src_of(x) for x in body_no_doc(h)]
        if par in ("yaml", "json"):
            return None
        if body == ["import yaml", "return yaml.load(%s, Loader=yaml.FullLoader)" % par]:
            return "yaml-helper"
        if body == ["import json", "return json.load(%s)" % par]:
            return "json-helper"
    return None



# ---------------------------------------------------------------------------------------------------
# apply_default_config
# ---------------------------------------------------------------------------------------------------

def translate_apply(fn, update_name, data_init_src, mod):
    arg_names(fn, FILE, [a.arg for a in fn.args.args])
    if len(fn.args.args) != 1:
        bail(fn, "apply_default_config does not take exactly one parameter")
    par = fn.args.args[0].arg
    no_reflection(fn, FILE)
    b = body_no_doc(fn)
    imports = [s for s in b if isinstance(s, (ast.Import, ast.ImportFrom))]
    rest = [s for s in b if s not in imports]
    imps = sorted(src_of(s) for s in imports)
    if imps not in (["import cij.data", "import yaml"], ["import cij.data"]):
        bail(imports[0] if imports else fn, "imports of apply_default_config are not `import cij.data` (+ `import yaml`)")
    if len(rest) != 2 or not isinstance(rest[0], ast.With) or not isinstance(rest[1], ast.Return):
        bail(rest[0] if rest else fn, "apply_default_config body is not `with open(...) as fp: NAME = yaml.load(...)` / `return ...`")
    w, ret = rest
    ok = len(w.items) == 1 and w.items[0].optional_vars is not None and src_of(w.items[0].optional_vars) == "fp"
    ce = w.items[0].context_expr if ok else None
    ok = ok and isinstance(ce, ast.Call) and src_of(ce.func) == "open" and len(ce.args) == 1 and not ce.keywords
    inner = ce.args[0] if ok else None
    ok = ok and isinstance(inner, ast.Call) and src_of(inner.func) == "cij.data.get_data_fname" and len(inner.args) == 1 \
        and not inner.keywords and isinstance(inner.args[0], ast.Constant) and isinstance(inner.args[0].value, str)
    if not ok:
        bail(w, "`%s` (expected `with open(cij.data.get_data_fname(\"<file>\")) as fp:`)" % src_of(w).split("\n")[0][:100])
    fname = inner.args[0].value
    kind = loader_kind(mod, w.body[0].value) if (len(w.body) == 1 and isinstance(w.body[0], ast.Assign)) else None
    if len(w.body) != 1 or not (isinstance(w.body[0], ast.Assign) and len(w.body[0].targets) == 1
                                and isinstance(w.body[0].targets[0], ast.Name)) \
            or not ((kind == "yaml-inline" and "import yaml" in imps) or (kind == "yaml-helper" and "import yaml" not in imps)):
        bail(w.body[0], "`%s` (expected `NAME = %s` after `import yaml`, or `NAME = <yaml helper>(fp)`)" % (src_of(w.body[0])[:80], YAML_LOAD))
    loaded = w.body[0].targets[0].id
    if loaded == par or loaded in ("fp", "yaml", "cij", update_name):
        bail(w.body[0], "the loaded defaults are bound to `%s`" % loaded)
    for nm in (par, loaded, "fp", "cij") + (("yaml",) if "import yaml" in imps else ()):
        if len(bindings_of(fn, nm)) != 1:
            bail(fn, "name `%s` is bound more than once in apply_default_config" % nm)
    c = ret.value
    if not (isinstance(c, ast.Call) and isinstance(c.func, ast.Name) and c.func.id == update_name and len(c.args) == 2
            and not c.keywords and all(isinstance(a, ast.Name) and a.id in (par, loaded) for a in c.args)):
        bail(ret, "`%s` (expected `return %s(A, B)` with A, B the parameter / the loaded defaults)" % (src_of(ret)[:100], update_name))
    pick = {par: "u", loaded: "packaged"}
    # glue: get_data_fname
    dm = parse(data_init_src)
    g = module_function(dm, DATA_INIT, "get_data_fname")
    if [src_of(s) for s in body_no_doc(g)] != ["return pkg_resources.resource_filename(__name__, fname)"] or \
            [a.arg for a in g.args.args] != ["fname"]:
        raise TranslateError(DATA_INIT, g, "get_data_fname is not `return pkg_resources.resource_filename(__name__, fname)`")
    return dict(args=(pick[c.args[0].id], pick[c.args[1].id]), file=fname)


# ---------------------------------------------------------------------------------------------------
# read_config
# ---------------------------------------------------------------------------------------------------

def str_lits(e):
    if isinstance(e, (ast.Set, ast.Tuple, ast.List)) and all(isinstance(x, ast.Constant) and isinstance(x.value, str) for x in e.elts):
        return [x.value for x in e.elts]
    return None


def translate_read(fn, mod):
    dflt = arg_names(fn, FILE, ["fname", "validate"], defaults_ok=True)
    if list(dflt) != ["validate"] or src_of(dflt["validate"]) != "True":
        bail(fn, "read_config: defaults are not `validate=True` only")
    no_reflection(fn, FILE)
    b = body_no_doc(fn)
    if len(b) != 4 or src_of(b[0]) != "suffix = Path(fname).suffix" or not isinstance(b[1], ast.With) \
            or not isinstance(b[2], ast.If) or src_of(b[3]) != "return config":
        bail(b[0] if b else fn, "read_config skeleton (expected `suffix = Path(fname).suffix` / `with open(fname) as fp: <dispatch>` / "
                                "`if validate: validate_config(config)` / `return config`)")
    w = b[1]
    if src_of(w).split("\n")[0] != "with open(fname) as fp:" or len(w.body) != 1 or not isinstance(w.body[0], ast.If):
        bail(w, "`%s` (expected `with open(fname) as fp:` holding one if/elif/else)" % src_of(w).split("\n")[0][:80])
    v = b[2]
    if src_of(v.test) != "validate" or v.orelse or [src_of(s) for s in v.body] != ["validate_config(config)"]:
        bail(v, "`%s` (expected `if validate: validate_config(config)`)" % src_of(v).replace("\n", " | ")[:100])
    for nm in ("suffix", "fp", "fname", "validate", "Path", "validate_config"):
        if len(bindings_of(fn, nm)) != (1 if nm in ("suffix", "fp", "fname", "validate") else 0):
            bail(fn, "name `%s` is rebound inside read_config" % nm)
    for nm, imp in (("Path", "from pathlib import Path"), ("validate_config", "from .validate import validate_config")):
        bs = bindings_of(mod, nm)
        if len(bs) != 1 or bs[0] not in mod.body or src_of(bs[0]) != imp:
            bail(bs[0] if bs else None, "`%s` is not bound exactly once by top-level `%s`" % (nm, imp))
    branches = []
    cur = w.body[0]
    exc = None
    while True:
        t = cur.test
        lits = None
        if isinstance(t, ast.Compare) and len(t.ops) == 1 and src_of(t.left) == "suffix":
            if isinstance(t.ops[0], ast.In):
                lits = str_lits(t.comparators[0])
            elif isinstance(t.ops[0], ast.Eq) and isinstance(t.comparators[0], ast.Constant) and isinstance(t.comparators[0].value, str):
                lits = [t.comparators[0].value]
        if lits is None:
            bail(t, "condition `%s` (accepted: `suffix in {\"lit\", ...}` / `suffix == \"lit\"`)" % src_of(t)[:80])
        body = [src_of(s) for s in cur.body]
        last = cur.body[-1] if cur.body else None
        kind = loader_kind(mod, last.value) if (isinstance(last, ast.Assign) and len(last.targets) == 1
                                                and src_of(last.targets[0]) == "config") else None
        if (kind == "yaml-inline" and body[:-1] == ["import yaml"]) or (kind == "yaml-helper" and len(body) == 1):
            branches.append((lits, "PYaml"))
        elif (kind == "json-inline" and body[:-1] == ["import json"]) or (kind == "json-helper" and len(body) == 1):
            branches.append((lits, "PJson"))
        else:
            bail(cur.body[0], "branch `%s` (accepted: `import yaml; config = %s` or `import json; config = %s`)"
                 % (" ; ".join(body)[:120], YAML_LOAD, JSON_LOAD))
        if len(cur.orelse) == 1 and isinstance(cur.orelse[0], ast.If):
            cur = cur.orelse[0]
            continue
        if len(cur.orelse) == 1 and isinstance(cur.orelse[0], ast.Raise) and cur.orelse[0].cause is None:
            r = cur.orelse[0].exc
            nm = r.func if isinstance(r, ast.Call) else r
            if isinstance(nm, ast.Name):
                exc = nm.id
        if exc is None:
            bail(cur.orelse[0] if cur.orelse else cur, "the dispatch does not end in `else: raise <Exception>(...)` "
                                                       "(an unsupported suffix would leave `config` unbound)")
        break
    for lits, _ in branches:
        for s in lits:
            coq_str(s)
    return dict(branches=branches, exc=exc)


# ---------------------------------------------------------------------------------------------------
# emit
# ---------------------------------------------------------------------------------------------------

HEADER = """(* GENERATED by tools/translate_config.py from %s of the current source tree - do not edit *)
From Coq Require Import List Bool String.
From Cij Require Import JsonModel.
From CijGen Require Import ConfigTieBase.
Import ListNotations.

"""


class Result:
    def __init__(self):
        self.errors = {}      # 'update' | 'apply' | 'read' -> TranslateError
        self.update = None
        self.apply = None
        self.read = None


def translate(source, data_init_src):
    res = Result()
    mod = parse(source)
    fn_u = None
    try:
        fn_u = module_function(mod, FILE, "update_config")
        res.update = Update(fn_u)
    except TranslateError as e:
        res.errors["update"] = e
    try:
        if fn_u is None:
            raise TranslateError(FILE, None, "update_config is not translatable, so apply_default_config has no target")
        res.apply = translate_apply(module_function(mod, FILE, "apply_default_config"), fn_u.name, data_init_src, mod)
    except TranslateError as e:
        res.errors["apply"] = e
    try:
        res.read = translate_read(module_function(mod, FILE, "read_config"), mod)
    except TranslateError as e:
        res.errors["read"] = e
    return res


def emit(res: Result) -> str:
    out = [HEADER % FILE]
    if res.update is not None:
        u = res.update
        out.append("(* update_config(%s, %s): loop over `%s`, result `%s` *)" % (u.inp, u.dfl, u.k, u.out))
        out.append("Definition g_step (in_input in_default input_is_dict default_is_dict : bool) : outcome :=\n  %s.\n" % u.step)
        out.append("Definition g_loop_keys (ik dk : list string) : list string :=\n  %s.\n" % u.keys)
        out.append("Definition g_update_config (ord : list string -> list string) : json -> json -> option json :=\n"
                   "  merge_skel ord g_step g_loop_keys.\n")
    else:
        out.append("(* update_config: NOT TRANSLATED - %s *)\n" % str(res.errors.get("update")).replace("*)", "* )"))
    if res.apply is not None and res.update is not None:
        out.append("(* apply_default_config: `packaged` = yaml.load of cij/data/<g_default_file>, `u` = the argument *)")
        out.append("Definition g_apply_default_config (ord : list string -> list string) (packaged u : json) : option json :=\n"
                   "  g_update_config ord %s %s.\n" % res.apply["args"])
        out.append("Definition g_default_file : string := %s.\n" % coq_str(res.apply["file"]))
    elif "apply" in res.errors:
        out.append("(* apply_default_config: NOT TRANSLATED - %s *)\n" % str(res.errors["apply"]).replace("*)", "* )"))
    if res.read is not None:
        r = res.read
        body = "PRaise %s" % coq_str(r["exc"])
        for lits, p in reversed(r["branches"]):
            body = "if mem suffix [%s]%%string then %s\n  else %s" % ("; ".join(coq_str(s) for s in lits), p, body)
        out.append("(* read_config: Path(fname).suffix -> parser *)")
        out.append("Definition g_read_dispatch (suffix : string) : parser :=\n  %s.\n" % body)
        out.append("Definition g_read_config (validate_config : json -> bool) (suffix : string) (yaml_loaded json_loaded : json)\n"
                   "           (validate : bool) : option json :=\n"
                   "  read_skel g_read_dispatch validate_config suffix yaml_loaded json_loaded validate.\n")
    elif "read" in res.errors:
        out.append("(* read_config: NOT TRANSLATED - %s *)\n" % str(res.errors["read"]).replace("*)", "* )"))
    return "\n".join(out)


if __name__ == "__main__":
    import sys
    root = sys.argv[1] if len(sys.argv) > 1 else "/repo"
    r = translate(open(root + "/" + FILE).read(), open(root + "/" + DATA_INIT).read())
    for k, e in r.errors.items():
        print("(* ERROR %s: %s *)" % (k, e))
    print(emit(r))
