(** Shared vocabulary of the static tie of QHACalculator.desired_pressure_status (C06); copied into the per-run
    directory by tools/props/prange_static.py (logical path CijGen).  Hand-written: the translator's reading of
    numpy indexing and reductions.  A matrix is a list of rows (axis 0 = temperature, axis 1 = volume).  Every
    expression is option-valued: [None] = numpy / Python raises (index out of range, reduction of an empty
    array).  Definitions only. *)
From Coq Require Import ZArith List Bool.
From Cij Require Import Ops V2PModel.
Import ListNotations.

Definition obind {A B} (o : option A) (f : A -> option B) : option B :=
  match o with Some x => f x | None => None end.
Fixpoint omap {A B} (f : A -> option B) (l : list A) : option (list B) :=
  match l with
  | [] => Some []
  | a :: t => match f a, omap f t with Some b, Some bt => Some (b :: bt) | _, _ => None end
  end.

(** Python index j into a sequence of length n: negative j counts from the end; IndexError otherwise *)
Definition py_idx (j : Z) (n : nat) : option nat :=
  if (0 <=? j)%Z then (if (j <? Z.of_nat n)%Z then Some (Z.to_nat j) else None)
  else if (- Z.of_nat n <=? j)%Z then Some (Z.to_nat (Z.of_nat n + j)) else None.
Definition py_get {A} (j : Z) (l : list A) : option A :=
  match py_idx j (length l) with Some i => nth_error l i | None => None end.

Section PRange.
  Context {F : Type} {OF : Ops F}.

  (** [A[:, j]]: element j of EVERY row (all temperatures) *)
  Definition o_col (j : Z) (M : option (list (list F))) : option (list F) := obind M (omap (py_get j)).
  (** [A[i, :]], [A[i]]: row i *)
  Definition o_row (i : Z) (M : option (list (list F))) : option (list F) := obind M (py_get i).
  Definition o_get2 (i j : Z) (M : option (list (list F))) : option F := obind (o_row i M) (py_get j).
  Definition o_get1 (i : Z) (V : option (list F)) : option F := obind V (py_get i).
  (** reduction over a whole matrix = over its flattened elements *)
  Definition o_flat (M : option (list (list F))) : option (list F) := option_map (@concat F) M.

  (** numpy reductions [.min()] / [.max()] (V2PModel.min_list / max_list: ValueError on an empty array) *)
  Definition o_min (V : option (list F)) : option F := obind V min_list.
  Definition o_max (V : option (list F)) : option F := obind V max_list.
  (** Python's builtin min / max: the accumulator is replaced only by a STRICTLY smaller / larger element *)
  Definition bmin2 (a b : F) : F := if flt b a then b else a.
  Definition bmax2 (a b : F) : F := if flt a b then b else a.
  Definition o_bmin (V : option (list F)) : option F :=
    obind V (fun l => match l with [] => None | a :: t => Some (fold_left bmin2 t a) end).
  Definition o_bmax (V : option (list F)) : option F :=
    obind V (fun l => match l with [] => None | a :: t => Some (fold_left bmax2 t a) end).

  (** comparisons: [a < b] is V2PModel.flt (= not (b <= a)), [a <= b] is fleb *)
  Definition o_lt (a b : option F) : option bool :=
    match a, b with Some x, Some y => Some (flt x y) | _, _ => None end.
  Definition o_le (a b : option F) : option bool :=
    match a, b with Some x, Some y => Some (fleb x y) | _, _ => None end.
  Definition o_gt (a b : option F) : option bool := o_lt b a.
  Definition o_ge (a b : option F) : option bool := o_le b a.
  Definition o_not (c : option bool) : option bool := option_map negb c.
End PRange.
