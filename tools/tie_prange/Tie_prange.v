(** static tie of C06, group RANGE-CHECK: the condition under which QHACalculator.desired_pressure_status raises,
    regenerated from the source with explicit array semantics ([g_raise_cond]), is the negation of the model's
    [V2PModel.pressure_status] for EVERY pressure field with non-empty rows and every requested grid (over R),
    and the exception is ValueError. *)
From Coq Require Import String Reals ZArith List Bool Lra Lia.
From Cij Require Import Ops ROps V2PModel V2P.
From CijGen Require Import PRangeTieBase Gen_prange.
Import ListNotations.
Local Open Scope R_scope.

Lemma py_get_last (row : list R) : row <> [] -> py_get (-1) row = Some (nthF row (length row - 1)).
Proof.
  intros Hr. unfold py_get, py_idx.
  assert (Hl : (1 <= length row)%nat) by (destruct row; [congruence | cbn; lia]).
  replace (0 <=? -1)%Z with false by reflexivity.
  replace (- Z.of_nat (length row) <=? -1)%Z with true by (symmetry; apply Z.leb_le; lia).
  replace (Z.to_nat (Z.of_nat (length row) + -1)) with (length row - 1)%nat by lia.
  unfold nthF. apply nth_error_nth'. lia.
Qed.
Lemma o_col_last (m : list (list R)) :
  Forall (fun r => r <> []) m -> o_col (-1) (Some m) = Some (@last_col R ROps m).
Proof.
  intros H. unfold o_col, obind, last_col. induction H as [|r t Hr Ht IH]; cbn [omap map]; [reflexivity|].
  rewrite (py_get_last r Hr), IH. reflexivity.
Qed.

(** decide an equation between boolean combinations of [Rleb] tests *)
Ltac rbool :=
  unfold Rleb; repeat (match goal with |- context [Rle_dec ?a ?b] => destruct (Rle_dec a b) end);
  cbn; try reflexivity; try (exfalso; lra).

(** over R, Python's builtin max / min return the value numpy's reductions return *)
Lemma bmax2_fmax2 (a b : R) : @bmax2 R ROps a b = @fmax2 R ROps a b.
Proof. unfold bmax2, fmax2, flt; rops. unfold Rleb. destruct (Rle_dec a b), (Rle_dec b a); cbn; try reflexivity; lra. Qed.
Lemma bmin2_fmin2 (a b : R) : @bmin2 R ROps a b = @fmin2 R ROps a b.
Proof. unfold bmin2, fmin2, flt; rops. unfold Rleb. destruct (Rle_dec a b), (Rle_dec b a); cbn; try reflexivity; lra. Qed.
Lemma fold_left_ext' {A B} (f g : A -> B -> A) : (forall a b, f a b = g a b) -> forall l a, fold_left f l a = fold_left g l a.
Proof. intros H. induction l as [|x l IH]; intros a; cbn; [reflexivity|]. rewrite H. apply IH. Qed.
Lemma o_bmax_max (l : list R) : @o_bmax R ROps (Some l) = @max_list R ROps l.
Proof. destruct l as [|a t]; cbn; [reflexivity|]. f_equal. apply fold_left_ext'. exact bmax2_fmax2. Qed.
Lemma o_bmin_min (l : list R) : @o_bmin R ROps (Some l) = @min_list R ROps l.
Proof. destruct l as [|a t]; cbn; [reflexivity|]. f_equal. apply fold_left_ext'. exact bmin2_fmin2. Qed.
Lemma o_max_Some (l : list R) : @o_max R ROps (Some l) = @max_list R ROps l.
Proof. reflexivity. Qed.
Lemma o_min_Some (l : list R) : @o_min R ROps (Some l) = @min_list R ROps l.
Proof. reflexivity. Qed.

(** raises  <->  the model says "not accepted";  min over ALL temperatures of the LAST volume column against the
    max of the requested grid *)
Theorem tie_pressure_status : forall (p_tv : list (list R)) (desired : list R),
  Forall (fun r => r <> []) p_tv ->
  option_map negb (@g_raise_cond R ROps p_tv desired) = @pressure_status R ROps p_tv desired.
Proof.
  intros p_tv desired Hrows. unfold g_raise_cond, pressure_status. cbv zeta.
  rewrite ?(o_col_last p_tv Hrows).
  rewrite ?o_bmax_max, ?o_bmin_min, ?o_max_Some, ?o_min_Some.
  unfold o_lt, o_gt, o_le, o_ge, o_not.
  destruct (@min_list R ROps (@last_col R ROps p_tv)) as [lo|];
    destruct (@max_list R ROps desired) as [hi|]; cbn [option_map]; try reflexivity;
    f_equal; unfold flt; rops; rbool.
Qed.

Lemma tie_raise_exc : g_raise_exc = "ValueError"%string.
Proof. reflexivity. Qed.

(** non-vacuity: the hypothesis holds for a real field, and both outcomes occur *)
Example tie_prange_nonvacuous :
  @g_raise_cond R ROps [[0; 1; 2; 3; 4; 5]; [0; 1; 2; 3; 4; 6]] [0; 5] = Some false /\
  @g_raise_cond R ROps [[0; 1; 2; 3; 4; 5]; [0; 1; 2; 3; 4; 6]] [0; 11 / 2] = Some true.
Proof.
  assert (H : Forall (fun r : list R => r <> []) [[0; 1; 2; 3; 4; 5]; [0; 1; 2; 3; 4; 6]]) by (repeat constructor; discriminate).
  pose proof (tie_pressure_status _ [0; 5] H) as A. pose proof (tie_pressure_status _ [0; 11 / 2] H) as B.
  rewrite ex_range_accept in A. rewrite ex_range_reject in B.
  destruct (g_raise_cond _ [0; 5]) as [[|]|]; destruct (g_raise_cond _ [0; 11 / 2]) as [[|]|]; cbn in A, B; try discriminate.
  split; reflexivity.
Qed.

Theorem tie_group_range_check :
  (forall (p_tv : list (list R)) (desired : list R), Forall (fun r => r <> []) p_tv ->
     option_map negb (@g_raise_cond R ROps p_tv desired) = @pressure_status R ROps p_tv desired)
  /\ g_raise_exc = "ValueError"%string.
Proof. split; [exact tie_pressure_status | exact tie_raise_exc]. Qed.
Print Assumptions tie_group_range_check.
