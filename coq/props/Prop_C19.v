(** C19 - extract and extract-geotherm return table values faithfully.
    Model: theories/ExtractModel.v (cij/cli/extract.py, cij/cli/geotherm.py); lemmas: theories/Extract.v.
    All statements are at F := R.  The bivariate spline is a section variable with the contract
    [interpolates_at_nodes] (satisfiable: Extract.contract_satisfiable). *)
From Coq Require Import String List Bool ZArith Reals.
From Cij Require Import Ops ROps ExtractModel Extract.
Import ListNotations.
Local Open Scope R_scope.

Theorem argmin_nearest :
  forall (xs : list R) (y : R), xs <> [] ->
    let i := @argmin_abs R ROps xs y in
    (i < length xs)%nat /\
    (forall j, (j < length xs)%nat -> Rabs (nth i xs 0 - y) <= Rabs (nth j xs 0 - y)) /\
    (forall j, (j < i)%nat -> Rabs (nth i xs 0 - y) < Rabs (nth j xs 0 - y)).
Proof. exact argmin_nearest_l. Qed.

Theorem extract_row_spec :
  forall (s : @selector R) (tabs : list (string * @table R)) (L : list R),
    tabs <> [] -> NoDup L ->
    (forall v t, In (v, t) tabs -> other_labels s t = L /\ line_ok s t) ->
    @extract R ROps s tabs = (L, map (fun vt => (fst vt, map Some (selected_line s (snd vt)))) tabs).
Proof. exact extract_row_spec_l. Qed.

(** what the selected line is: -T y: row argmin|T - y| labelled by the pressures;
    -P y: column argmin|P - y| (of the table as stored) labelled by the temperatures *)
Theorem selected_line_is_row_or_column :
  (forall (y : R) (t : @table R),
     selected_line (AtT y) t = nth (@argmin_abs R ROps (t_idx t) y) (t_vals t) [] /\
     other_labels (AtT y) t = t_cols t) /\
  (forall (y : R) (t : @table R), t_cols t <> [] ->
     let i := @argmin_abs R ROps (t_cols t) y in
     (i < length (t_cols t))%nat /\
     selected_line (AtP y) t = map (fun row => nth i row 0) (t_vals t) /\ other_labels (AtP y) t = t_idx t).
Proof. split; [exact selected_line_T | exact selected_line_P]. Qed.

Theorem geotherm_axes :
  forall (spline : @spline_t R) (geo : @frame R) (t : @table R) (Tg Pg : list R),
    fget "T" geo = Some Tg -> fget "P" geo = Some Pg ->
    @geotherm_eval R spline default_t_col default_p_col geo t =
    Some (zipw (fun T P => spline (t_idx t) (t_cols t) (t_vals t) T P) Tg Pg).
Proof. exact geotherm_axes_l. Qed.

(** the column named by --t-col feeds the PRESSURE axis, the one named by --p-col the TEMPERATURE axis *)
Theorem geotherm_option_names_are_crossed :
  forall (spline : @spline_t R) (geo : @frame R) (t : @table R) (tc pc : string) (A B : list R),
    fget tc geo = Some A -> fget pc geo = Some B ->
    @geotherm_eval R spline tc pc geo t =
    Some (zipw (fun x_temperature_axis y_pressure_axis =>
                  spline (t_idx t) (t_cols t) (t_vals t) x_temperature_axis y_pressure_axis) B A).
Proof. exact geotherm_option_wiring. Qed.

Theorem geotherm_passthrough :
  forall (spline : @spline_t R) (tc pc : string) (tabs : list (string * @table R)) (geo out : @frame R),
    NoDup (map fst geo ++ map fst tabs) ->
    @geotherm R spline tc pc geo tabs = Some out ->
    exists cols, out = geo ++ cols /\ map fst cols = map fst tabs.
Proof. exact geotherm_passthrough_l. Qed.

Theorem geotherm_at_nodes :
  forall (spline : @spline_t R) (geo : @frame R) (t : @table R) (Tg Pg : list R) (n i j : nat),
    interpolates_at_nodes spline -> NoDup (t_idx t) -> NoDup (t_cols t) ->
    fget "T" geo = Some Tg -> fget "P" geo = Some Pg ->
    (n < length Tg)%nat -> (n < length Pg)%nat ->
    (i < length (t_idx t))%nat -> (j < length (t_cols t))%nat ->
    nth n Tg 0 = nth i (t_idx t) 0 -> nth n Pg 0 = nth j (t_cols t) 0 ->
    exists out, @geotherm_eval R spline default_t_col default_p_col geo t = Some out /\
      nth n out 0 = nth j (nth i (t_vals t) []) 0.
Proof. exact geotherm_at_nodes_l. Qed.

Theorem oracle_contract_satisfiable : exists s : @spline_t R, interpolates_at_nodes s.
Proof. exists lookup_spline. exact contract_satisfiable. Qed.

Print Assumptions argmin_nearest.
Print Assumptions extract_row_spec.
Print Assumptions selected_line_is_row_or_column.
Print Assumptions geotherm_axes.
Print Assumptions geotherm_option_names_are_crossed.
Print Assumptions geotherm_passthrough.
Print Assumptions geotherm_at_nodes.
Print Assumptions oracle_contract_satisfiable.
