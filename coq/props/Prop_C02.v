(** C02 - adiabatic - isothermal gap = T V (dP_ph/dT)^2 / (9 ei ej C_V); zero at T = 0;
    non-negative on the diagonal.  P_th T V = - dF_th/dV is the thermal pressure of the same
    spectrum as in C01 (the zero-point pressure does not depend on T). *)
From Coq Require Import Reals List ZArith Lra Lia.
From Coquelicot Require Import Coquelicot.
From Cij Require Import Ops ROps NonShearModel NonShear.
Local Open Scope R_scope.

Section C02.
  Variable K : @consts R.
  Hypothesis Khdk : 0 < c_hdk K.
  Variable w : list R.
  Variable sp : list (list mode).
  Variable na : Z.
  Hypothesis Hna : (0 < na)%Z.
  Hypothesis Hw : Rsum w <> 0.
  Hypothesis Hlen : List.Forall (fun r => length r = Z.to_nat (3 * na)) sp.
  Hypothesis Hsm : all_smooth sp.

  Let freq V := sample sp (fun m => om m V).
  Let gam V := sample sp (fun m => gamma_of m V).

  (** dP_ph/dT in closed form is the T-derivative of P_th = -dF_th/dV, itself a V-derivative of F_th *)
  Theorem dPdT_closed_form :
    forall T V, 0 < T -> V <> 0 ->
      is_derive (fun t => P_th K w sp t V) T (dPdT K w sp T V) /\
      is_derive (F_th K w sp T) V (- P_th K w sp T V).
  Proof.
    intros T V HT HV. split.
    - eapply dPdT_closed_form_l; eassumption.
    - unfold P_th. rewrite Ropp_involutive. eapply F_th_derive; eassumption.
  Qed.

  Theorem gap_formula :
    forall ei ej V T cv, 0 < T -> V <> 0 -> ei <> 0 -> ej <> 0 -> cv <> 0 ->
      adiabatic (OF:=ROps) K Q1_neg Q2_neg true w na (freq V) (gam V) (sample sp (fun m => vdr_of m V)) ei ej V T 0 0 cv
      - isothermal (OF:=ROps) K Q1_neg Q2_neg true w na (freq V) (gam V) (sample sp (fun m => vdr_of m V)) ei ej V T 0 0
      = T * V * (dPdT K w sp T V * dPdT K w sp T V) / (9 * ei * ej * cv).
  Proof.
    intros ei ej V T cv HT HV Hi Hj Hc. unfold adiabatic. cbn [add sub ROps].
    unfold freq, gam. rewrite gap_neg_eq_l by assumption. erewrite gap_formula_l by eassumption. ring.
  Qed.

  Theorem gap_formula_any_class :
    forall lg ei ej V T p pst cv fr ga vd, 
      adiabatic (OF:=ROps) K Q1_neg Q2_neg lg w na fr ga vd ei ej V T p pst cv
      - isothermal (OF:=ROps) K Q1_neg Q2_neg lg w na fr ga vd ei ej V T p pst
      = gap (OF:=ROps) K Q2_neg w na fr ga ei ej V T cv.
  Proof. intros. unfold adiabatic. cbn [add sub ROps]. ring. Qed.

  Theorem gap_closed_form :
    forall ei ej V T cv, 0 < T -> V <> 0 -> ei <> 0 -> ej <> 0 -> cv <> 0 ->
      gap (OF:=ROps) K Q2_neg w na (freq V) (gam V) ei ej V T cv
      = T * V * (dPdT K w sp T V * dPdT K w sp T V) / (9 * ei * ej * cv).
  Proof. intros. unfold freq, gam. rewrite gap_neg_eq_l by assumption. eapply gap_formula_l; eassumption. Qed.


  (** with Coquelicot's operators: dP_ph/dT = d/dT ( - dF_th/dV ) *)
  Lemma dPdT_is_mixed_derivative :
    forall T V, 0 < T -> V <> 0 ->
      Derive (fun t => - Derive (F_th K w sp t) V) T = dPdT K w sp T V.
  Proof.
    intros T V HT HV.
    rewrite (Derive_ext_loc (fun t => - Derive (F_th K w sp t) V) (fun t => P_th K w sp t V)).
    - apply is_derive_unique. eapply dPdT_closed_form_l; eassumption.
    - assert (Hh : 0 < T / 2) by lra.
      exists (mkposreal (T / 2) Hh). intros t Ht. unfold P_th. f_equal.
      apply is_derive_unique. eapply F_th_derive; try eassumption.
      unfold ball in Ht. cbn in Ht. unfold AbsRing_ball, abs, minus, plus, opp in Ht. cbn in Ht.
      apply Rabs_def2 in Ht. lra.
  Qed.

  Theorem gap_formula_Derive :
    forall ei ej V T cv, 0 < T -> V <> 0 -> ei <> 0 -> ej <> 0 -> cv <> 0 ->
      let dPdT_ := Derive (fun t => - Derive (F_th K w sp t) V) T in
      gap (OF:=ROps) K Q2_neg w na (freq V) (gam V) ei ej V T cv
      = T * V * (dPdT_ * dPdT_) / (9 * ei * ej * cv).
  Proof.
    intros ei ej V T cv HT HV Hi Hj Hc d. unfold d. rewrite dPdT_is_mixed_derivative by assumption.
    apply gap_closed_form; assumption.
  Qed.

  Theorem gap_at_zero_T :
    forall Q2 fr ga ei ej V cv, gap (OF:=ROps) K Q2 w na fr ga ei ej V 0 cv = 0.
  Proof. intros. apply gap_at_zero_T_l. Qed.

  Theorem gap_nonneg_diagonal :
    forall e V T cv, 0 <= T -> 0 < V -> e <> 0 -> 0 < cv ->
      0 <= gap (OF:=ROps) K Q2_neg w na (freq V) (gam V) e e V T cv.
  Proof.
    intros e V T cv HT HV He Hcv. unfold freq, gam. destruct (Req_dec T 0) as [-> | HT0].
    - rewrite gap_at_zero_T_l. lra.
    - rewrite gap_neg_eq_l by (assumption || lra). eapply gap_nonneg_diagonal_l; eassumption.
  Qed.
End C02.

Print Assumptions dPdT_closed_form.
Print Assumptions gap_formula.
Print Assumptions gap_closed_form.
Print Assumptions gap_formula_Derive.
Print Assumptions gap_at_zero_T.
Print Assumptions gap_nonneg_diagonal.
