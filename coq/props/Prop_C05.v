(** C05 - total modulus = interpolated static table + phonon part, end to end from files.
    Statements only; proofs are in theories/Total.v, the model in theories/TotalModel.v. *)
From Coq Require Import Reals List ZArith.
From Cij Require Import Ops ROps PolyModel StaticModel Voigt TasksModel TotalModel Poly Total.
Import ListNotations.
Local Open Scope R_scope.

(** 1. static interpolation: data c(V_i) = p(f_i)/V_i with p a cubic in the Eulerian strain f
    (reference volumes[0]); any coefficient vector accepted by the normal-equation certificate
    returns p(f(V))/V on EVERY grid volume (>= 4 distinct strains among the data) *)
Theorem fit_exact_on_cubics :
  forall (vols varr q c out fs : list R),
    let v0 := nth 0 vols 0 in
    let ys := map (fun v => polyvalR q (eulerianR v0 v) / v) vols in
    length q = 4%nat ->
    Forall (fun v => v <> 0) vols ->
    NoDup fs -> incl fs (eulR v0 vols) -> (4 <= length fs)%nat ->
    fit_modulus_withR 0 c vols varr ys = Some out ->
    out = map (fun v => polyvalR q (eulerianR v0 v) / v) varr.
Proof. exact fit_exact_on_cubics_l. Qed.
Print Assumptions fit_exact_on_cubics.

(** the same with the hypothesis on the table: at least four distinct positive volumes *)
Theorem fit_exact_on_cubics_volumes :
  forall (vols varr q c out : list R),
    let v0 := nth 0 vols 0 in
    let ys := map (fun v => polyvalR q (eulerianR v0 v) / v) vols in
    length q = 4%nat ->
    Forall (fun v => 0 < v) vols -> NoDup vols -> (4 <= length vols)%nat ->
    fit_modulus_withR 0 c vols varr ys = Some out ->
    out = map (fun v => polyvalR q (eulerianR v0 v) / v) varr.
Proof. exact fit_exact_on_cubics_volumes_l. Qed.
Print Assumptions fit_exact_on_cubics_volumes.

(** the certificate at tolerance 0 is exactly the system of normal equations A^T (A c - y) = 0 *)
Theorem cert_is_normal_equations :
  forall (deg : nat) (xs ys c : list R),
    cert_okR 0 deg xs ys c = true <->
    length c = S deg /\ length xs = length ys /\ normal_eqs deg xs ys c.
Proof. exact cert_ok_zero. Qed.
Print Assumptions cert_is_normal_equations.

(** 2. units *)
Theorem gpa_roundtrip : forall g x : R, g <> 0 -> to_gpa (OF:=ROps) g (from_gpa (OF:=ROps) g x) = x.
Proof. exact gpa_roundtrip_l. Qed.
Print Assumptions gpa_roundtrip.
Theorem gpa_codata_value : 14710.5078 < gpa_codata (OF:=ROps) < 14710.5079.
Proof. exact gpa_codata_value_l. Qed.
Print Assumptions gpa_codata_value.

(** 3. composition *)
Theorem total_is_static_plus_phonon :
  forall (tol : R) (fl : @files R) (orc : @oracle R) (adi : bool) (ti vi : nat) (key : vkey) (x : R),
    total tol fl orc adi ti vi key = Some x <->
    exists st ph, static_part tol fl orc key = Some st /\
                  phonon_part tol fl orc (map fst (f_table fl)) adi ti vi key = Some ph /\
                  x = nth vi st 0 + ph.
Proof. exact total_is_static_plus_phonon_l. Qed.
Print Assumptions total_is_static_plus_phonon.

Theorem static_T_independent :
  forall (tol : R) (fl : @files R) (orc : @oracle R) (adi : bool) (t1 t2 vi : nat) (key : vkey) (x1 x2 p1 p2 : R),
    total tol fl orc adi t1 vi key = Some x1 -> total tol fl orc adi t2 vi key = Some x2 ->
    phonon_part tol fl orc (map fst (f_table fl)) adi t1 vi key = Some p1 ->
    phonon_part tol fl orc (map fst (f_table fl)) adi t2 vi key = Some p2 ->
    x1 - p1 = x2 - p2.
Proof. exact static_T_independent_l. Qed.
Print Assumptions static_T_independent.

Theorem static_part_inputs :
  forall (tol : R) (fl : @files R) (o1 o2 : @oracle R) (key : vkey),
    o_gpa o1 = o_gpa o2 -> o_varr o1 = o_varr o2 -> o_cstat o1 = o_cstat o2 ->
    static_part tol fl o1 key = static_part tol fl o2 key.
Proof. exact static_part_inputs_l. Qed.
Print Assumptions static_part_inputs.

Theorem phonon_static_independent :
  forall (tol : R) (fl : @files R) (orc : @oracle R) (tab1 tab2 cs1 cs2 : list (vkey * list R))
         (adi : bool) (ti vi : nat) (key : vkey),
    map fst tab1 = map fst tab2 ->
    phonon_part tol (with_table fl tab1) (with_cstat orc cs1) (map fst tab1) adi ti vi key =
    phonon_part tol (with_table fl tab2) (with_cstat orc cs2) (map fst tab2) adi ti vi key.
Proof. exact phonon_static_independent_l. Qed.
Print Assumptions phonon_static_independent.

Theorem phonon_static_independent_totals :
  forall (tol : R) (fl : @files R) (orc : @oracle R) (tab1 tab2 cs1 cs2 : list (vkey * list R))
         (adi : bool) (ti vi : nat) (key : vkey) (x1 x2 : R) (st1 st2 : list R),
    map fst tab1 = map fst tab2 ->
    total tol (with_table fl tab1) (with_cstat orc cs1) adi ti vi key = Some x1 ->
    total tol (with_table fl tab2) (with_cstat orc cs2) adi ti vi key = Some x2 ->
    static_part tol (with_table fl tab1) (with_cstat orc cs1) key = Some st1 ->
    static_part tol (with_table fl tab2) (with_cstat orc cs2) key = Some st2 ->
    x1 - nth vi st1 0 = x2 - nth vi st2 0.
Proof. exact phonon_static_independent_totals_l. Qed.
Print Assumptions phonon_static_independent_totals.

(** 4. axial strains *)
Theorem axial_strains_normalised :
  forall (tol : R) (cs : list (list R)) (vols varr : list R) (lat fr : list (list R)),
    lat <> [] -> axial_strainsR tol cs vols varr lat = Some fr ->
    exists a b c,
      raw_strainR tol (nth 0 cs []) vols varr lat 0 = Some a /\
      raw_strainR tol (nth 1 cs []) vols varr lat 1 = Some b /\
      raw_strainR tol (nth 2 cs []) vols varr lat 2 = Some c /\
      fr = map normalise_rowR (rows_of3 a b c) /\
      forall r, In r (rows_of3 a b c) -> sumlR r <> 0 -> sumlR (normalise_rowR r) = 1.
Proof. exact axial_strains_normalised_l. Qed.
Print Assumptions axial_strains_normalised.

Theorem axial_strains_scale_invariant :
  forall (cs cs' : list (list R)) (vols varr fs : list R) (lat fr fr' : list (list R)) (k : R),
    0 < k -> lat <> [] ->
    NoDup fs -> incl fs (eulR (nth 0 vols 0) vols) -> (4 <= length fs)%nat ->
    (forall i, (i < 3)%nat -> Forall (fun x => 0 < x) (fit_withR (nth i cs []) vols varr)) ->
    axial_strainsR 0 cs vols varr lat = Some fr ->
    axial_strainsR 0 cs' vols varr (map (map (Rmult k)) lat) = Some fr' ->
    fr' = fr.
Proof. exact axial_strains_scale_invariant_l. Qed.
Print Assumptions axial_strains_scale_invariant.

Theorem axial_strains_proportional_thirds :
  forall (cs : list (list R)) (vols varr s fs : list R) (k1 k2 k3 : R) (fr : list (list R)),
    0 < k1 -> 0 < k2 -> 0 < k3 -> s <> [] ->
    NoDup fs -> incl fs (eulR (nth 0 vols 0) vols) -> (4 <= length fs)%nat ->
    Forall (fun x => 0 < x) (fit_withR (nth 0 cs []) vols varr) ->
    axial_strainsR 0 cs vols varr (map (fun x => [k1 * x; k2 * x; k3 * x]) s) = Some fr ->
    exists a, fr = map (fun x => normalise_rowR [x; x; x]) a /\
              forall x, In x a -> x <> 0 -> normalise_rowR [x; x; x] = [1 / 3; 1 / 3; 1 / 3].
Proof. exact axial_strains_proportional_thirds_l. Qed.
Print Assumptions axial_strains_proportional_thirds.

Theorem lsq_cubic_unique_homogeneous :
  forall (xs ys c c' fs : list R) (s : R),
    length xs = length ys -> length c = 4%nat -> length c' = 4%nat ->
    NoDup fs -> incl fs xs -> (4 <= length fs)%nat ->
    normal_eqs 3 xs ys c -> normal_eqs 3 xs (map (Rmult s) ys) c' ->
    forall x, polyvalR c' x = s * polyvalR c x.
Proof. exact lsq_unique_scaled. Qed.
Print Assumptions lsq_cubic_unique_homogeneous.

Theorem axial_strain_axis_tracking :
  forall (tol : R) (c vols varr : list R) (lat lat' : list (list R)) (i : nat),
    columnR i lat = columnR i lat' ->
    raw_strainR tol c vols varr lat i = raw_strainR tol c vols varr lat' i.
Proof. exact axial_strain_axis_tracking_l. Qed.
Print Assumptions axial_strain_axis_tracking.

Theorem axial_strain_axis_tracking_set :
  forall (tol : R) (c vols varr vals : list R) (lat : list (list R)) (i j : nat),
    i <> j -> length vals = length lat -> Forall (fun r => (j < length r)%nat) lat ->
    raw_strainR tol c vols varr (set_col j vals lat) i = raw_strainR tol c vols varr lat i.
Proof. exact axial_strain_axis_tracking_set_l. Qed.
Print Assumptions axial_strain_axis_tracking_set.

Theorem no_lattice_gives_thirds :
  forall (tol : R) (cs : list (list R)) (vols varr : list R),
    axial_strainsR tol cs vols varr [] = Some (ones_frame (OF:=ROps) varr) /\
    forall i, (i < 3)%nat -> col (OF:=ROps) i (ones_frame (OF:=ROps) varr) = map (fun _ => 1 / 3) varr.
Proof. exact no_lattice_gives_thirds_l. Qed.
Print Assumptions no_lattice_gives_thirds.
