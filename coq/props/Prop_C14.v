(** C14 - deterministic and isolated: hash seed, working directory, process history.

    A theorem cannot exhibit interpreter behaviour.  What is proved here is that the cij LOGIC
    through which hash seed / cwd / history could leak is insensitive to them, on the models of
    theories/MemoModel.v (LazyProperty, assigned shear inputs, writer registries, relations-file
    lookup, fill contract), JsonModel.v (update_config over an arbitrary enumeration order of the
    key set) and VRHModel.v (6x6 assembly over an arbitrary key order).  Byte-identical output
    across interpreter runs is MEASURED by tools/props/c14.py (subprocesses with different
    PYTHONHASHSEED and working directories, interleaved Calculators, repeated reads and writes). *)
From Coq Require Import ZArith List Bool String Permutation Arith.
From Cij Require Import Ops JsonModel Json VRHModel VRH RulesModel Rules MemoModel Memo.
Import ListNotations.

(** 1. (hash seed) update_config iterates a Python [set] of keys: for any two enumeration orders
       of the key set the merged configurations are extensionally equal (and fail together) *)
Theorem merge_order_independent : forall ord ord', key_order ord -> key_order ord' ->
  forall u d, orel jeq (update_config ord u d) (update_config ord' u d).
Proof. intros ord ord' H H'. exact (merge_order_independent_l ord H ord' H'). Qed.
Example key_orders_exist : key_order dedup /\ key_order (fun l => rev (dedup l)).
Proof. split; [exact key_order_dedup | exact key_order_rev]. Qed.

(** 2. (hash seed / dict order) _calculate_compliances: the assembled 6x6 matrix does not depend on
       the order in which keys are visited; each key stores both cells of
       set(permutations(key.voigt, 2)), so the order inside that set is immaterial too (symmetry) *)
Theorem assemble_order_independent : forall (F : Type) (OF : Ops F) (tbl tbl' : list (Z * Z * F)),
  keys_functional tbl -> Permutation tbl tbl' ->
  (forall i j, assemble6 tbl' i j = assemble6 tbl i j) /\
  (forall i j, assemble6 tbl i j = assemble6 tbl j i).
Proof.
  intros F OF tbl tbl' Hf Hp. destruct (assemble_symmetric_total_l tbl Hf) as [_ [_ [Hs Ho]]].
  split; [exact (Ho tbl' Hp) | exact Hs].
Qed.

(** 3. (history) LazyProperty: for EVERY history of reads - any order, any repetition - from any
       cache reached so far, each read returns [eval name], the value a cache-free evaluation
       returns; cached values are such values, the cache only grows, no producer runs twice, and
       what has been read is cached.  [deps_lt]: a method reads only earlier properties. *)
Theorem memo_refines_pure : forall (V : Type) (deps : name -> list name) (body : name -> list V -> V),
  (forall n m, In m (deps n) -> m < n) ->
  forall ns c, inv V deps body c ->
    fst (run V deps body ns c) = map (eval V deps body) ns /\
    sound V deps body (snd (run V deps body ns c)) /\
    NoDup (map fst (snd (run V deps body ns c))) /\
    Memo.extends V c (snd (run V deps body ns c)) /\
    (forall n, In n ns -> cget V n (snd (run V deps body ns c)) = eval V deps body n).
Proof. exact memo_refines_pure_l. Qed.
(** [eval] is the cache-free evaluation, and it is total under [deps_lt] *)
Theorem eval_is_cache_free_evaluation : forall (V : Type) deps (body : name -> list V -> V),
  (forall n m, In m (deps n) -> m < n) ->
  forall n, eval V deps body n = option_map (body n) (omap (eval V deps body) (deps n)) /\
            exists v, eval V deps body n = Some v.
Proof. intros V deps body H n. split; [apply eval_unfold, H | apply eval_total, H]. Qed.
(** the empty cache (a fresh instance) satisfies the invariant *)
Example fresh_cache_inv : forall V deps body, inv V deps body [].
Proof. exact inv_nil. Qed.
(** non-vacuity: three interdependent properties  p0 = 5, p1 = p0 + 1, p2 = p0 + p1 + 2 *)
Example deps3_satisfiable :
  let deps := fun n => match n with 1 => [0] | 2 => [0; 1] | _ => [] end in
  (forall n m, In m (deps n) -> m < n) /\
  fst (run Z deps (fun n vs => match n with O => 5%Z | S _ => fold_left Z.add vs (Z.of_nat n) end)
         [2; 1; 2; 0] []) = [Some 13%Z; Some 6%Z; Some 13%Z; Some 5%Z].
Proof.
  split; [|vm_compute; reflexivity].
  intros [|[|[|n]]] m; cbn; intros H; repeat destruct H as [H|H]; subst; auto; contradiction.
Qed.

Theorem read_history_independent : forall (V : Type) deps (body : name -> list V -> V),
  (forall n m, In m (deps n) -> m < n) ->
  forall h1 h2 n,
    fst (get V deps body n (snd (run V deps body h1 []))) =
    fst (get V deps body n (snd (run V deps body h2 []))).
Proof. exact read_history_independent_l. Qed.
Theorem read_twice_equal : forall (V : Type) deps (body : name -> list V -> V),
  (forall n m, In m (deps n) -> m < n) ->
  forall h1 h2 n,
    let r := fst (run V deps body (h1 ++ [n] ++ h2 ++ [n]) []) in
    nth (List.length h1) r None = nth (List.length h1 + 1 + List.length h2) r None /\
    nth (List.length h1) r None = eval V deps body n /\ eval V deps body n <> None.
Proof. exact read_twice_equal_l. Qed.

(** 4. (process history) two instances interleaved in one process: every read returns the
       cache-free value of its own instance; A's reads equal those of a process that only used A *)
Theorem instances_isolated : forall (V : Type) depsA depsB (bodyA bodyB : name -> list V -> V),
  (forall n m, In m (depsA n) -> m < n) -> (forall n m, In m (depsB n) -> m < n) ->
  forall h cA cB, inv V depsA bodyA cA -> inv V depsB bodyB cB ->
    fst (run2 V depsA depsB bodyA bodyB h cA cB) = map (eval2 V depsA depsB bodyA bodyB) h /\
    inv V depsA bodyA (fst (snd (run2 V depsA depsB bodyA bodyB h cA cB))) /\
    inv V depsB bodyB (snd (snd (run2 V depsA depsB bodyA bodyB h cA cB))).
Proof. exact instances_isolated_l. Qed.
Theorem interleaving_equals_alone : forall (V : Type) depsA depsB (bodyA bodyB : name -> list V -> V),
  (forall n m, In m (depsA n) -> m < n) -> (forall n m, In m (depsB n) -> m < n) ->
  forall h,
    map snd (filter (fun x => fst (fst x)) (combine h (fst (run2 V depsA depsB bodyA bodyB h [] [])))) =
    fst (run V depsA bodyA (map snd (filter (fun x => fst x) h)) []).
Proof. exact interleaving_equals_alone_l. Qed.

(** 5. (schedule) shear tasks: inputs are ASSIGNED before a cached value is read.  On a fresh shear
       calculator get_modulus_isothermal(x1); get_modulus_adiabatic(x2) both return [f x1]: the
       second equals the first whatever was assigned in between, and it is the cache-free value
       [f x2] iff [f x1 = f x2].  In general every assign-then-read returns [f] of the FIRST input,
       which is the cache-free value of each read iff [f] agrees on all inputs with the first. *)
Theorem shear_second_read_is_first : forall (I V : Type) (f : I -> V) x1 x2,
  let '(o1, s1) := get_isothermal I V f x1 (cell0 I V) in
  let '(o2, s2) := get_adiabatic I V f x2 s1 in
  o1 = Some (f x1) /\ o2 = Some (f x1) /\ (o2 = Some (f x2) <-> f x1 = f x2).
Proof. exact shear_second_read_is_first_l. Qed.
Theorem cell_reads_first_input : forall (I V : Type) (f : I -> V) x xs,
  fst (run_cell I V f (x :: xs) (cell0 I V)) = map (fun _ => Some (f x)) (x :: xs).
Proof. exact cell_reads_first_input_l. Qed.
Theorem cell_pure_iff_inputs_agree : forall (I V : Type) (f : I -> V) x xs,
  fst (run_cell I V f (x :: xs) (cell0 I V)) = map (fun y => Some (f y)) (x :: xs) <->
  (forall y, In y xs -> f y = f x).
Proof. exact cell_pure_iff_inputs_agree_l. Qed.
(** "memo refines pure" is REFUTED for assigned inputs that differ (latent hazard; tasks.py assigns
    the same dicts in both getters, which the measurement confirms) *)
Theorem shear_stale_when_inputs_differ_refuted :
  exists (f : nat -> nat) x1 x2,
    fst (get_adiabatic nat nat f x2 (snd (get_isothermal nat nat f x1 (cell0 nat nat)))) <> Some (f x2).
Proof. exact shear_stale_when_inputs_differ_l. Qed.

(** 6. fill_idempotent, for every fill function satisfying [fill_contract] (output closed = consistent
       + sufficient + no zero column, and agreeing with the input; closed tables reproduced) *)
Theorem fill_idempotent : forall (table : Type) (fill : table -> option table) closed agree,
  fill_contract table fill closed agree ->
  (forall t t', fill t = Some t' -> fill t' = Some t') /\
  (forall t, match fill t with Some t' => fill t' | None => None end = fill t).
Proof.
  intros table fill closed agree H. split; [exact (fill_idempotent_l _ _ _ _ H) | exact (fill_fill_l _ _ _ _ H)].
Qed.
Example fill_contract_satisfiable :
  fill_contract t2 fill2 closed2 agree2 /\ fill2 (Some 300%Z, None) = Some (Some 300%Z, Some 300%Z).
Proof. split; [exact fill2_contract | exact fill2_fills]. Qed.

(** 7. (process history) registry_fresh: after any history of creating writers (default or custom
       rule list) and writing with them, the shared list is unchanged and writer i resolves a
       keyword to the last rule listing it in the list it was built from *)
Theorem registry_fresh : forall shared ops,
  let w := snd (wrun (mkWorld shared []) ops) in
  w_shared w = shared /\
  forall i kw, i < List.length (built_from shared ops) ->
    dget kw (nth i (w_writers w) []) = lookup_last (nth i (built_from shared ops) []) kw.
Proof. exact registry_fresh_l. Qed.
Theorem write_unaffected_by_others : forall shared ops1 ops2 i kw,
  i < List.length (built_from shared ops1) ->
  fst (wstep (snd (wrun (mkWorld shared []) ops1)) (WWrite i kw)) =
  fst (wstep (snd (wrun (mkWorld shared []) (ops1 ++ ops2))) (WWrite i kw)).
Proof. exact write_unaffected_by_others_l. Qed.

(** 8. (working directory) relations-file lookup of fill_cij, current code: everything in the cwd is
       irrelevant except a REGULAR FILE named exactly like the system argument *)
Theorem cwd_independence : forall l system,
  lfind system l <> Some KFile -> locate l system = locate [] system /\ locate l system = Packaged system.
Proof. exact cwd_independence_l. Qed.
Theorem cwd_unrelated_entries_irrelevant : forall l extra system,
  lfind system extra = None ->
  locate (l ++ extra) system = locate l system /\ locate (extra ++ l) system = locate l system.
Proof. exact cwd_unrelated_entries_irrelevant_l. Qed.
(** at full strength (ALL listings) it is refuted, by design: the argument may be a path to a
    user-written relations file, so a regular file `cubic` in the cwd replaces the packaged data *)
Theorem cwd_independence_full_refuted : exists l system, locate l system <> locate [] system.
Proof. exact cwd_independence_full_refuted_l. Qed.
(** history: before the repair ff7b5dd any entry of that name raised UnboundLocalError (D7) *)
Theorem cwd_independence_refuted_before_fix :
  exists l system, locate_before_fix [] system = Packaged system /\ locate_before_fix l system = Unbound.
Proof. exact cwd_independence_refuted_before_fix_l. Qed.

Print Assumptions merge_order_independent.
Print Assumptions assemble_order_independent.
Print Assumptions memo_refines_pure.
Print Assumptions eval_is_cache_free_evaluation.
Print Assumptions read_history_independent.
Print Assumptions read_twice_equal.
Print Assumptions instances_isolated.
Print Assumptions interleaving_equals_alone.
Print Assumptions shear_second_read_is_first.
Print Assumptions cell_reads_first_input.
Print Assumptions cell_pure_iff_inputs_agree.
Print Assumptions shear_stale_when_inputs_differ_refuted.
Print Assumptions fill_idempotent.
Print Assumptions registry_fresh.
Print Assumptions write_unaffected_by_others.
Print Assumptions cwd_independence.
Print Assumptions cwd_unrelated_entries_irrelevant.
Print Assumptions cwd_independence_full_refuted.
Print Assumptions cwd_independence_refuted_before_fix.
