(** C18 - run-static reports a consistent static EoS and elasticity table in every mode.
    Theorems about the model theories/StaticModel.v of /repo/cij/cli/static.py at the instance R
    (lemmas in theories/Static.v).  The model is tied to the source by the correspondence run of
    tools/props/c18.py (every printed column of `cij run-static` vs [s_run] on the float instance). *)
From Coq Require Import Reals ZArith List Lia Lra.
From Coquelicot Require Import Coquelicot.
From Cij Require Import Ops ROps StaticModel Static.
Import ListNotations.
Local Open Scope R_scope.

(** 1a. mode none: V and F are the input columns, P is the spline oracle *)
Theorem columns_none_mode : forall (vols ens spl : list R) ratio pmin dp ntv,
  s_eos 0 vols ens spl ratio pmin dp ntv = (vols, ens, spl).
Proof. exact columns_none_mode_l. Qed.

(** 1b. mode volume: V is the uniform grid, F_k is the fit at V_k, P_k is numpy's gradient quotient *)
Theorem columns_volume_mode : forall (vols ens spl : list R) ratio pmin dp ntv,
  (2 <= ntv)%nat ->
  let '(V, Fc, P) := s_eos 1 vols ens spl ratio pmin dp ntv in
  V = s_linspace (s_min vols / ratio) (s_max vols * ratio) ntv /\
  length V = ntv /\ length Fc = ntv /\ length P = ntv /\
  (forall k, (k < ntv)%nat -> s_nth k Fc = s_fit2 vols ens (s_nth k V)) /\
  (forall k, (0 < k)%nat -> (k + 1 < ntv)%nat ->
     s_nth k P = - ((s_nth (k + 1) Fc - s_nth (k - 1) Fc) / 2) / ((s_nth (k + 1) V - s_nth (k - 1) V) / 2)) /\
  s_nth 0 P = - (s_nth 1 Fc - s_nth 0 Fc) / (s_nth 1 V - s_nth 0 V) /\
  s_nth (ntv - 1) P = - (s_nth (ntv - 1) Fc - s_nth (ntv - 2) Fc) / (s_nth (ntv - 1) V - s_nth (ntv - 2) V).
Proof. exact columns_volume_mode_l. Qed.

(** 1c. numpy's interior gradient quotient is the exact derivative of a quadratic on every uniform grid *)
Theorem grad_exact_quadratic :
  forall (a b : R) (n : nat) (c0 c1 c2 : R) (k : nat),
    a <> b -> (0 < k)%nat -> (k + 1 < n)%nat ->
    let xs := s_linspace a b n in
    let q := fun x => c0 + c1 * x + c2 * (x * x) in
    s_nth k (s_pgrid (map q xs) xs) = - (c1 + 2 * c2 * s_nth k xs).
Proof. exact grad_exact_quadratic_l. Qed.

(** 1d. the closed form [s_pexact] (used by the tie in mode none) is minus the volume derivative of the fit *)
Theorem pexact_is_derivative : forall (vols ys : list R) (v : R),
  0 < s_nth 0 vols -> 0 < v ->
  is_derive (fun w => s_fit2 vols ys w) v (- s_pexact vols ys v).
Proof. exact s_pexact_is_derivative_l. Qed.

(** 2. mode pressure, full strength: V = v2p(v_grid), F = v2p(f_grid), row j at p_min + j delta_p GPa *)
Theorem columns_pressure_mode :
  forall (vg fg pg : list R) (pmin dp : R) (ntv : nat),
    (2 <= ntv)%nat ->
    s_mode_pressure vg fg pg pmin dp ntv =
      (s_v2p1d vg pg (s_pwant pmin dp ntv), s_v2p1d fg pg (s_pwant pmin dp ntv), s_pwant pmin dp ntv) /\
    forall j, (j < ntv)%nat ->
      s_to_gpa (s_nth j (snd (s_mode_pressure vg fg pg pmin dp ntv))) = pmin + INR j * dp.
Proof. exact columns_pressure_mode_l. Qed.
Theorem columns_pressure_mode_inputs :
  forall (vols ens spl : list R) (ratio pmin dp : R) (ntv : nat),
    (2 <= ntv)%nat ->
    let vg := s_vgrid vols ratio ntv in
    let fg := s_fgrid vols ens vg in
    let pg := s_pgrid fg vg in
    let '(V, Fc, P) := s_eos 2 vols ens spl ratio pmin dp ntv in
    V = s_v2p1d vg pg P /\ Fc = s_v2p1d fg pg P /\ length P = ntv /\
    forall j, (j < ntv)%nat -> s_to_gpa (s_nth j P) = pmin + INR j * dp.
Proof. exact columns_pressure_mode_inputs_l. Qed.
(** history (defect D9, repaired in /repo ed06662): with `v2p1d(v_array, ...)` feeding F the statement is false *)
Theorem columns_pressure_mode_refuted_before_fix : ~ columns_pressure_mode_stmt_old.
Proof. exact columns_pressure_mode_refuted_before_fix_l. Qed.

(** 3. the fit: normal equations, residual orthogonality, exactness on quadratic data *)
Theorem fit2_normal_equations : forall (xs ys : list R),
  let m := s_mom xs ys in
  s_gram_det m <> 0 ->
  let '(a0, a1, a2) := s_coeffs xs ys in
  m0 m * a0 + m1 m * a1 + m2 m * a2 = t0 m /\
  m1 m * a0 + m2 m * a1 + m3 m * a2 = t1 m /\
  m2 m * a0 + m3 m * a1 + m4 m * a2 = t2 m.
Proof. exact s_coeffs_normal_l. Qed.
Theorem fit2_residual_moments : forall (xs ys : list R) (a0 a1 a2 : R),
  length xs = length ys ->
  let m := s_mom xs ys in
  let res := zipw (fun x y => s_poly (a0, a1, a2) x - y) xs ys in
  sum res = m0 m * a0 + m1 m * a1 + m2 m * a2 - t0 m /\
  sum (zipw (fun x r => x * r) xs res) = m1 m * a0 + m2 m * a1 + m3 m * a2 - t1 m /\
  sum (zipw (fun x r => x * x * r) xs res) = m2 m * a0 + m3 m * a1 + m4 m * a2 - t2 m.
Proof. exact s_normal_residual_l. Qed.
Theorem fit2_exact : forall (vols : list R) (c0 c1 c2 : R) (v : R),
  let v0 := s_nth 0 vols in
  let ys := map (fun w => s_poly (c0, c1, c2) (s_strain v0 w)) vols in
  s_gram_det (s_mom (s_strains v0 vols) ys) <> 0 ->
  s_fit2 vols ys v = s_poly (c0, c1, c2) (s_strain v0 v).
Proof. exact fit2_exact_l. Qed.
(** non-vacuity: three distinct positive volumes satisfy the determinant hypothesis *)
Theorem fit2_exact_three : forall (v0 v1 v2 c0 c1 c2 v : R),
  0 < v0 -> 0 < v1 -> 0 < v2 -> v0 <> v1 -> v0 <> v2 -> v1 <> v2 ->
  let vols := [v0; v1; v2] in
  let ys := map (fun w => s_poly (c0, c1, c2) (s_strain v0 w)) vols in
  s_fit2 vols ys v = s_poly (c0, c1, c2) (s_strain v0 v).
Proof. exact fit2_exact_three_l. Qed.

(** full strength: any table with at least three pairwise distinct positive volumes (no determinant hypothesis) *)
Theorem gram_det_positive : forall (xs ys : list R) a b c,
  In a xs -> In b xs -> In c xs -> a <> b -> a <> c -> b <> c -> 0 < s_gram_det (s_mom xs ys).
Proof. exact s_gram_det_pos. Qed.
Theorem fit2_exact_distinct : forall (vols : list R) (c0 c1 c2 v a b c : R),
  let v0 := s_nth 0 vols in
  let ys := map (fun w => s_poly (c0, c1, c2) (s_strain v0 w)) vols in
  0 < v0 -> In a vols -> In b vols -> In c vols -> 0 < a -> 0 < b -> 0 < c ->
  a <> b -> a <> c -> b <> c ->
  s_fit2 vols ys v = s_poly (c0, c1, c2) (s_strain v0 v).
Proof. exact fit2_exact_distinct_l. Qed.

(** 4. rows: density (cell-mass override), moduli = fit at the row's volume, fill oracle, VRH, velocities *)
Theorem row_with_table : forall (tv : list R) keys cols (mfile : R) cm fill (v f p : R),
  let mass := match cm with Some m => m | None => mfile end in
  let rho := s_to_gcm3 (mass / v) in
  let fitted := map (fun col => s_fit2 tv col v) cols in
  let c := match fill with Some vals => s_cmat s_all_keys vals | None => s_cmat keys fitted end in
  s_row (Some (tv, keys, cols, mfile)) cm fill v f p =
    [s_to_ang3 v; s_to_ev f; s_to_gpa p; rho] ++ fitted ++ s_vrh_row c (s_inv c) rho.
Proof. exact s_row_table_l. Qed.
Theorem row_without_table : forall (cm : option R) (v f p : R),
  s_row None cm None v f p =
    [s_to_ang3 v; s_to_ev f; s_to_gpa p] ++ match cm with Some m => [s_to_gcm3 (m / v)] | None => [] end.
Proof. exact s_row_notable_l. Qed.
Theorem rows_of_table : forall tab cm (vs fs ps : list R) k,
  (k < length vs)%nat -> length fs = length vs -> length ps = length vs ->
  nth k (s_zip3 tab cm None vs fs ps) [] = s_row tab cm None (s_nth k vs) (s_nth k fs) (s_nth k ps).
Proof. exact s_zip3_nth_l. Qed.
Theorem vrh_rows : forall (c s : list (list R)) (rho : R),
  0 < rho ->
  let KV := (s_el c 1 1 + s_el c 2 2 + s_el c 3 3 + 2 * (s_el c 1 2 + s_el c 2 3 + s_el c 1 3)) / 9 in
  let KR := 1 / (s_el s 1 1 + s_el s 2 2 + s_el s 3 3 + 2 * (s_el s 1 2 + s_el s 2 3 + s_el s 1 3)) in
  let GV := ((s_el c 1 1 + s_el c 2 2 + s_el c 3 3) - (s_el c 1 2 + s_el c 2 3 + s_el c 1 3)
             + 3 * (s_el c 4 4 + s_el c 5 5 + s_el c 6 6)) / 15 in
  let GR := 15 / (4 * (s_el s 1 1 + s_el s 2 2 + s_el s 3 3) - 4 * (s_el s 1 2 + s_el s 2 3 + s_el s 1 3)
                  + 3 * (s_el s 4 4 + s_el s 5 5 + s_el s 6 6)) in
  let K := (KV + KR) / 2 in let G := (GV + GR) / 2 in
  exists vp vs vphi,
    s_vrh_row c s rho = [KV; KR; K; GV; GR; G; vp; vs; vphi] /\
    (0 <= K -> rho * vphi ^ 2 = K) /\
    (0 <= G -> rho * vs ^ 2 = G) /\
    (0 <= K + 4 / 3 * G -> rho * vp ^ 2 = K + 4 / 3 * G).
Proof. exact vrh_rows_l. Qed.

(** 5. unit factors from CODATA-2018 values *)
Theorem unit_factors :
  (forall x : R, s_to_ang3 x = x * (0.529177210903 * 0.529177210903 * 0.529177210903)) /\
  (forall x : R, s_to_ev x = x * 13.605693122994) /\
  (forall x : R, s_to_gpa x =
      x * (13.605693122994 * 1.602176634e-19 / (0.529177210903e-10 * 0.529177210903e-10 * 0.529177210903e-10) / 1e9)) /\
  (forall x : R, s_to_gcm3 x =
      x * (1 / 6.02214076e23 / (0.529177210903e-8 * 0.529177210903e-8 * 0.529177210903e-8))) /\
  (forall x : R, s_to_kms x = x) /\
  (forall x : R, s_from_gpa (s_to_gpa x) = x /\ s_to_gpa (s_from_gpa x) = x) /\
  14710.5078 < @s_gpa_factor R _ < 14710.5079 /\ 11.205872 < @s_gcm3_factor R _ < 11.205874 /\
  0.14818471 < @s_bohr3 R _ < 0.14818472.
Proof. exact unit_factors_l. Qed.

(** non-vacuity of the hypotheses used above *)
Example grid_hypotheses_satisfiable : (0:R) <> 1 /\ (0 < 1)%nat /\ (1 + 1 < 3)%nat /\ (2 <= 11)%nat.
Proof. repeat split; try lia. lra. Qed.
Example gram_det_hypothesis_satisfiable : forall ys : list R, s_gram_det (s_mom [0; 1; 2] ys) <> 0.
Proof. intros ys. apply s_gram_det_three_distinct; lra. Qed.

Print Assumptions columns_none_mode.
Print Assumptions columns_volume_mode.
Print Assumptions grad_exact_quadratic.
Print Assumptions pexact_is_derivative.
Print Assumptions columns_pressure_mode.
Print Assumptions columns_pressure_mode_inputs.
Print Assumptions columns_pressure_mode_refuted_before_fix.
Print Assumptions fit2_normal_equations.
Print Assumptions fit2_residual_moments.
Print Assumptions fit2_exact.
Print Assumptions fit2_exact_three.
Print Assumptions gram_det_positive.
Print Assumptions fit2_exact_distinct.
Print Assumptions row_with_table.
Print Assumptions row_without_table.
Print Assumptions rows_of_table.
Print Assumptions vrh_rows.
Print Assumptions unit_factors.
