(** C18 - placeholder while the pipeline is brought up *)
From Cij Require Import StaticModel.
