(** C15 - output files carry the in-memory results on the requested grids, units and names.
    Compiled on every run against Gen_rules.v, which is regenerated from
    cij/data/output/writer_rules.yml.  Finite parts (all rules x 2 bases x 21 keys) by vm_compute
    lifted with forallb_forall; the registry, override and grid statements hold for all inputs. *)
From Coq Require Import String Ascii List Bool ZArith QArith Lia Reals.
From Cij Require Import Ops ROps RulesModel Rules GridModel Grid.
From CijGen Require Import Gen_rules.
Import ListNotations.
Local Open Scope string_scope.

(* ---- 1. aliases ------------------------------------------------------------------------- *)
Lemma keywords_nodup : NoDup (flat_map r_keywords rules).
Proof. apply nodupb_NoDup. vm_compute. reflexivity. Qed.

Lemma aliases_same_rule_l :
  NoDup (flat_map r_keywords rules) /\
  forall r k, In r rules -> In k (r_keywords r) -> lookup rules k = Some r.
Proof. split; [exact keywords_nodup | exact (aliases_same_rule_general rules keywords_nodup)]. Qed.

(* ---- 2. adiabatic vs isothermal ----------------------------------------------------------- *)
Definition stem_ok (kw prop mid : string) : bool :=
  match lookup rules kw with
  | Some r =>
      (r_prop r =? prop) && vt_eqb (r_vt r) VIjValue &&
      forallb (fun base => forallb (fun k =>
        match fname_ij r base no_cfg k with
        | Some f => f =? ("c" ++ format_ij k ++ mid ++ "_" ++ base ++ "_gpa.txt")
        | None => false
        end) all_keys) bases
  | None => false
  end.
Definition adiabatic_kws := ["cij_s"; "cij"; "adiabatic_elastic_moduli"].
Definition isothermal_kws := ["cij_t"; "isothermal_elastic_moduli"].
Lemma adiabatic_vs_isothermal_l :
  (forall kw, In kw adiabatic_kws -> exists r, lookup rules kw = Some r /\ r_prop r = "modulus_adiabatic" /\
     r_vt r = VIjValue /\ forall base k, In base bases -> In k all_keys ->
       fname_ij r base no_cfg k = Some ("c" ++ format_ij k ++ "s" ++ "_" ++ base ++ "_gpa.txt")) /\
  (forall kw, In kw isothermal_kws -> exists r, lookup rules kw = Some r /\ r_prop r = "modulus_isothermal" /\
     r_vt r = VIjValue /\ forall base k, In base bases -> In k all_keys ->
       fname_ij r base no_cfg k = Some ("c" ++ format_ij k ++ "t" ++ "_" ++ base ++ "_gpa.txt")).
Proof.
  assert (Ha : forallb (fun kw => stem_ok kw "modulus_adiabatic" "s") adiabatic_kws = true) by (vm_compute; reflexivity).
  assert (Hi : forallb (fun kw => stem_ok kw "modulus_isothermal" "t") isothermal_kws = true) by (vm_compute; reflexivity).
  rewrite forallb_forall in Ha, Hi.
  split; intros kw Hkw; [specialize (Ha kw Hkw) as H | specialize (Hi kw Hkw) as H];
    unfold stem_ok in H; destruct (lookup rules kw) as [r|]; try discriminate;
    rewrite !andb_true_iff in H; destruct H as [[H1 H2] H3];
    exists r; (split; [reflexivity|]); (split; [apply String.eqb_eq; exact H1|]);
    (split; [apply vt_eqb_eq; exact H2|]);
    intros base k Hb Hk; rewrite forallb_forall in H3; specialize (H3 base Hb);
    rewrite forallb_forall in H3; specialize (H3 k Hk);
    destruct (fname_ij r base no_cfg k) as [f|]; try discriminate;
    apply String.eqb_eq in H3; rewrite H3; reflexivity.
Qed.

(* ---- 3. one file per (rule, base, component) ------------------------------------------------ *)
Definition item := (nat * string * option key)%type.     (* rule index, base, component *)
Definition item_eqb (a b : item) : bool :=
  let '(i, ba, ka) := a in let '(j, bb, kb) := b in Nat.eqb i j && (ba =? bb) && okey_eqb ka kb.
Definition item_name (it : item) : option string :=
  let '(i, base, k) := it in
  match nth_error rules i, k with
  | Some r, None => if vt_eqb (r_vt r) VValue then fname_value r base no_cfg else None
  | Some r, Some k => if vt_eqb (r_vt r) VIjValue then fname_ij r base no_cfg k else None
  | None, _ => None
  end.
Definition items : list item :=
  flat_map (fun i => match nth_error rules i with
     | Some r => flat_map (fun base => match r_vt r with
                    | VValue => [(i, base, None)]
                    | VIjValue => map (fun k => (i, base, Some k)) all_keys
                    end) bases
     | None => [] end) (seq 0 (length rules)).
Definition ostr_eqb (a b : option string) : bool :=
  match a, b with Some x, Some y => x =? y | _, _ => false end.

Lemma key_eqb_eq a b : key_eqb a b = true <-> a = b.
Proof.
  destruct a, b; unfold key_eqb; cbn [fst snd]. rewrite andb_true_iff, !Z.eqb_eq.
  split; [intros [-> ->]; reflexivity | intros H; inversion H; auto].
Qed.
Lemma item_eqb_eq a b : item_eqb a b = true <-> a = b.
Proof.
  destruct a as [[i ba] ka], b as [[j bb] kb]; unfold item_eqb.
  rewrite !andb_true_iff, Nat.eqb_eq, String.eqb_eq. split.
  - intros [[-> ->] H]. destruct ka, kb; cbn in H; try discriminate; [apply key_eqb_eq in H; subst|]; reflexivity.
  - intros H; inversion H; subst. repeat split. destruct kb; cbn; [apply key_eqb_eq|]; reflexivity.
Qed.

Lemma file_names_injective_l :
  (forall a, In a items -> item_name a <> None) /\
  (forall a b, In a items -> In b items -> item_name a = item_name b -> a = b) /\
  length items = (length (filter (fun r => vt_eqb (r_vt r) VIjValue) rules) * 42 +
                  length (filter (fun r => vt_eqb (r_vt r) VValue) rules) * 2)%nat.
Proof.
  assert (H1 : forallb (fun a => match item_name a with Some _ => true | None => false end) items = true)
    by (vm_compute; reflexivity).
  assert (H2 : forallb (fun a => forallb (fun b =>
             implb (ostr_eqb (item_name a) (item_name b)) (item_eqb a b)) items) items = true)
    by (vm_compute; reflexivity).
  split; [|split].
  - intros a Ha. rewrite forallb_forall in H1. specialize (H1 a Ha). destruct (item_name a); congruence.
  - intros a b Ha Hb E. rewrite forallb_forall in H2. specialize (H2 a Ha).
    rewrite forallb_forall in H2. specialize (H2 b Hb).
    rewrite forallb_forall in H1. pose proof (H1 a Ha) as Na.
    rewrite <- E in H2. destruct (item_name a) as [s|]; [|discriminate].
    cbn in H2. rewrite String.eqb_refl in H2. cbn in H2. apply item_eqb_eq. exact H2.
  - vm_compute. reflexivity.
Qed.

(** every keyword writes on both bases (no KeyError from a missing pattern field) and the ij rules
    produce exactly one call per component *)
Lemma every_keyword_writes_l :
  forall kw base, In kw (flat_map r_keywords rules) -> In base bases ->
    exists r outs, lookup rules kw = Some r /\ write rules kw base all_keys no_cfg = Some outs /\
      length outs = (match r_vt r with VValue => 1 | VIjValue => 21 end)%nat /\
      length (files_after outs) = length outs.
Proof.
  assert (H : forallb (fun kw => forallb (fun base =>
     match lookup rules kw, write rules kw base all_keys no_cfg with
     | Some r, Some outs => Nat.eqb (length outs) (match r_vt r with VValue => 1 | VIjValue => 21 end) &&
                            Nat.eqb (length (files_after outs)) (length outs)
     | _, _ => false end) bases) (flat_map r_keywords rules) = true) by (vm_compute; reflexivity).
  intros kw base Hk Hb. rewrite forallb_forall in H. specialize (H kw Hk).
  rewrite forallb_forall in H. specialize (H base Hb).
  destruct (lookup rules kw) as [r|]; [|discriminate].
  destruct (write rules kw base all_keys no_cfg) as [outs|]; [|discriminate].
  rewrite andb_true_iff, !Nat.eqb_eq in H. exists r, outs. tauto.
Qed.

(* ---- 5. units ---------------------------------------------------------------------------- *)
Lemma unit_factor_correct_l :
  (forall r, In r rules -> rule_units_ok r = true) /\
  (exists q, unit_factor "rydberg / bohr ^ 3" "GPa" = Some q /\
     (147105078781 # 10000000 < q)%Q /\ (q < 147105078782 # 10000000)%Q /\
     q == (rydberg_J / (bohr_m * bohr_m * bohr_m)) / pow10 9) /\
  (exists q, unit_factor "bohr^3" "angstrom^3" = Some q /\
     (148184711170 # 1000000000000 < q)%Q /\ (q < 148184711171 # 1000000000000)%Q /\
     q == (bohr_m * bohr_m * bohr_m) * pow10 30) /\
  unit_factor "km/s" "km/s" = Some 1%Q.
Proof.
  split; [|split; [exact factor_ry_bohr3_to_gpa | split; [exact factor_bohr3_to_ang3 | exact factor_kms_identity]]].
  assert (H : forallb rule_units_ok rules = true) by (vm_compute; reflexivity).
  intros r Hr. rewrite forallb_forall in H. apply H, Hr.
Qed.

(* ------------------------------------------------------------------------------------------ *)
Theorem aliases_same_rule :
  NoDup (flat_map r_keywords rules) /\
  forall r k, In r rules -> In k (r_keywords r) -> lookup rules k = Some r.
Proof. exact aliases_same_rule_l. Qed.

Theorem registry_is_last_rule : forall (rs : list rule) k, lookup rs k = lookup_last rs k.
Proof. exact lookup_is_last. Qed.

Theorem adiabatic_vs_isothermal :
  (forall kw, In kw adiabatic_kws -> exists r, lookup rules kw = Some r /\ r_prop r = "modulus_adiabatic" /\
     r_vt r = VIjValue /\ forall base k, In base bases -> In k all_keys ->
       fname_ij r base no_cfg k = Some ("c" ++ format_ij k ++ "s" ++ "_" ++ base ++ "_gpa.txt")) /\
  (forall kw, In kw isothermal_kws -> exists r, lookup rules kw = Some r /\ r_prop r = "modulus_isothermal" /\
     r_vt r = VIjValue /\ forall base k, In base bases -> In k all_keys ->
       fname_ij r base no_cfg k = Some ("c" ++ format_ij k ++ "t" ++ "_" ++ base ++ "_gpa.txt")).
Proof. exact adiabatic_vs_isothermal_l. Qed.

Theorem file_names_injective :
  (forall a, In a items -> item_name a <> None) /\
  (forall a b, In a items -> In b items -> item_name a = item_name b -> a = b) /\
  length items = (length (filter (fun r => vt_eqb (r_vt r) VIjValue) rules) * 42 +
                  length (filter (fun r => vt_eqb (r_vt r) VValue) rules) * 2)%nat.
Proof. exact file_names_injective_l. Qed.

Theorem every_keyword_writes :
  forall kw base, In kw (flat_map r_keywords rules) -> In base bases ->
    exists r outs, lookup rules kw = Some r /\ write rules kw base all_keys no_cfg = Some outs /\
      length outs = (match r_vt r with VValue => 1 | VIjValue => 21 end)%nat /\
      length (files_after outs) = length outs.
Proof. exact every_keyword_writes_l. Qed.

Theorem labels_are_requested_grid :
  (forall (F : Type) (OF : Ops F) (t_min dt : F) (nt : nat),
     t_labels t_min nt dt = map (fun k => add t_min (mul dt (ofZ (Z.of_nat k)))) (seq 0 nt) /\
     temperature_array t_min nt dt =
       (t_labels t_min nt dt ++ map (grid_point t_min dt) [nt; S nt; S (S nt); S (S (S nt))])%list) /\
  (forall (a b p_min dp eps : R) (ntv j : nat),
     (Rabs (a * b - 1) <= eps)%R -> (j < ntv)%nat ->
     (Rabs (nth j (@p_labels R ROps a b p_min ntv dp) 0%R - (p_min + dp * INR j)) <= eps * Rabs (p_min + dp * INR j))%R) /\
  (forall (F : Type) (OF : Ops F) (a b p_min dp : F) (ntv : nat), length (p_labels a b p_min ntv dp) = ntv).
Proof.
  split; [|split].
  - intros F OF t_min dt nt. split; [apply t_labels_requested|].
    rewrite t_labels_requested. apply temperature_array_split.
  - exact p_labels_requested.
  - intros; apply p_labels_length.
Qed.

Theorem rows_are_first_nt :
  forall (F : Type) (OF : Ops F) a (t p : list F) (v : list (list F)) nt k d,
    length v = (nt + 4)%nat -> (k < nt)%nat ->
    nth k (t_vals (written_tp a t p v)) d = nth k v d /\ length (t_vals (written_tp a t p v)) = nt.
Proof. intros F OF. exact written_rows_are_first_nt. Qed.

Theorem unit_factor_correct :
  (forall r, In r rules -> rule_units_ok r = true) /\
  (exists q, unit_factor "rydberg / bohr ^ 3" "GPa" = Some q /\
     (147105078781 # 10000000 < q)%Q /\ (q < 147105078782 # 10000000)%Q /\
     q == (rydberg_J / (bohr_m * bohr_m * bohr_m)) / pow10 9) /\
  (exists q, unit_factor "bohr^3" "angstrom^3" = Some q /\
     (148184711170 # 1000000000000 < q)%Q /\ (q < 148184711171 # 1000000000000)%Q /\
     q == (bohr_m * bohr_m * bohr_m) * pow10 30) /\
  unit_factor "km/s" "km/s" = Some 1%Q.
Proof. exact unit_factor_correct_l. Qed.

(** the pattern substitution in general (any rule table): a pattern  l0 {n1} l1 {n2} l2  expands to
    l0 v1 l1 v2 l2, and distinct field values of equal length (two-digit component labels, two-letter base
    names) never give the same name *)
Theorem pattern_substitution_general :
  (forall env l0 n1 l1 n2 l2 v1 v2,
     nobrace l0 = true -> nobrace n1 = true -> nobrace l1 = true -> nobrace n2 = true -> nobrace l2 = true ->
     dget n1 env = Some v1 -> dget n2 env = Some v2 ->
     format (l0 ++ String lbrace (n1 ++ String rbrace (l1 ++ String lbrace (n2 ++ String rbrace l2)))) env =
     Some (l0 ++ v1 ++ l1 ++ v2 ++ l2)) /\
  (forall l0 l1 l2 v1 v2 w1 w2,
     String.length v1 = String.length w1 ->
     l0 ++ v1 ++ l1 ++ v2 ++ l2 = l0 ++ w1 ++ l1 ++ w2 ++ l2 ->
     String.length v2 = String.length w2 -> v1 = w1 /\ v2 = w2).
Proof. split; [exact format_two_fields | exact two_field_pattern_injective]. Qed.
Example pattern_substitution_applies :
  format ("c" ++ String lbrace ("ij" ++ String rbrace ("s_" ++ String lbrace ("base" ++ String rbrace "_gpa.txt"))))
         [("base", "tp"); ("ij", format_ij (1, 2)%Z)] = Some "c12s_tp_gpa.txt" /\
  "c{ij}s_{base}_gpa.txt" = "c" ++ String lbrace ("ij" ++ String rbrace ("s_" ++ String lbrace ("base" ++ String rbrace "_gpa.txt"))).
Proof.
  split; [|reflexivity].
  rewrite (format_two_fields _ "c" "ij" "s_" "base" "_gpa.txt" "12" "tp"); reflexivity.
Qed.

(** fname / unit / unit_internal given by the user replace the rule's, for every rule, base and key set *)
Theorem override_honoured :
  forall r base keys f u ui,
    write_rule r base keys (mkCfg (Some f) u ui) =
    Some (match r_vt r with
          | VValue => [mkOut f (r_prop r) (odefault ui (r_unit_internal r)) (odefault u (r_unit r)) None]
          | VIjValue => map (fun k => mkOut f (r_prop r) (odefault ui (r_unit_internal r)) (odefault u (r_unit r)) (Some k)) keys
          end).
Proof. exact write_rule_override. Qed.

(** ... but for a component-wise (ij) rule the user's name is used verbatim for EVERY component, so all
    calls hit one file and only the LAST component survives: "one file per available component" is
    refuted under an fname override *)
Theorem override_ij_one_file_per_component_refuted :
  forall r base k0 keys f u ui, r_vt r = VIjValue ->
    exists outs, write_rule r base (k0 :: keys) (mkCfg (Some f) u ui) = Some outs /\
      length outs = S (length keys) /\
      files_after outs = [(f, mkOut f (r_prop r) (odefault ui (r_unit_internal r)) (odefault u (r_unit r))
                                (Some (last keys k0)))].
Proof. exact override_ij_single_file. Qed.

(** non-vacuity: the packaged table has component-wise rules, so the refutation applies to it *)
Example ij_rule_exists : exists r, In r rules /\ r_vt r = VIjValue.
Proof.
  assert (H : existsb (fun r => vt_eqb (r_vt r) VIjValue) rules = true) by (vm_compute; reflexivity).
  apply existsb_exists in H. destruct H as [r [Hr Hv]]. exists r. split; [exact Hr | apply vt_eqb_eq; exact Hv].
Qed.

Print Assumptions aliases_same_rule.
Print Assumptions registry_is_last_rule.
Print Assumptions adiabatic_vs_isothermal.
Print Assumptions file_names_injective.
Print Assumptions every_keyword_writes.
Print Assumptions labels_are_requested_grid.
Print Assumptions rows_are_first_nt.
Print Assumptions unit_factor_correct.
Print Assumptions pattern_substitution_general.
Print Assumptions override_honoured.
Print Assumptions override_ij_one_file_per_component_refuted.
