(** C06 - (T,V)->(T,P) conversion evaluates each quantity at the volume where P(T,V)=P.

    Statements about the model theories/V2PModel.v (transcription of qha.v2p.v2p, _lagrange4,
    qha.tools.vectorized_find_nearest and of cij's CijPressureBaseInterface /
    QHACalculator.desired_pressure_status) at the real-number instance ROps.  Proofs in theories/V2P.v.
    The model is tied to the code by the correspondence shards of tools/props/c06.py on every run.

    Vocabulary (V2P.v):
      cubic a b c d t        = a + b t + c t^2 + d t^3
      distinct4 x0 x1 x2 x3  = the four numbers are pairwise different
      strictly_increasing r  = forall i < j < length r, r[i] < r[j]
      row_ok r               = strictly_increasing r /\ 4 <= length r
      in_range r x           = r[0] <= x < r[last]
      grid_in_range r pd     = every x in pd is in_range r
      last_of r              = r[length r - 1]                                                    *)
From Coq Require Import Reals List Arith.
From Cij Require Import Ops ROps V2PModel V2P.
Import ListNotations.
Local Open Scope R_scope.

(** 1. four-point Lagrange interpolation reproduces every polynomial of degree <= 3 *)
Theorem C06_lagrange4_exact_cubic :
  forall x0 x1 x2 x3 : R, distinct4 x0 x1 x2 x3 ->
  forall a b c d x : R,
    @lagrange4 R ROps x x0 x1 x2 x3 (cubic a b c d x0) (cubic a b c d x1) (cubic a b c d x2) (cubic a b c d x3)
    = cubic a b c d x.
Proof. exact lagrange4_exact_cubic. Qed.
Print Assumptions C06_lagrange4_exact_cubic.

Theorem C06_lagrange4_at_node :
  forall x0 x1 x2 x3 : R, distinct4 x0 x1 x2 x3 ->
  forall y0 y1 y2 y3,
    @lagrange4 R ROps x0 x0 x1 x2 x3 y0 y1 y2 y3 = y0 /\
    @lagrange4 R ROps x1 x0 x1 x2 x3 y0 y1 y2 y3 = y1 /\
    @lagrange4 R ROps x2 x0 x1 x2 x3 y0 y1 y2 y3 = y2 /\
    @lagrange4 R ROps x3 x0 x1 x2 x3 y0 y1 y2 y3 = y3.
Proof. exact lagrange4_at_node. Qed.
Print Assumptions C06_lagrange4_at_node.

(** 2. the binary search: loop invariant for arrays of any length, any content *)
Theorem C06_bsearch_invariant :
  forall (arr : list R) (x : R) (lo0 up0 : nat) (fuel lo up : nat),
    (lo < up)%nat -> (up - lo <= fuel)%nat ->
    (lo = lo0 \/ nthR arr lo <= x) ->
    (up = up0 \/ x < nthR arr up) ->
    let k := @bsearch R ROps fuel arr x lo up in
    (lo <= k < up)%nat /\ (k = lo0 \/ nthR arr k <= x) /\ (S k = up0 \/ x < nthR arr (S k)).
Proof. exact bsearch_invariant. Qed.
Print Assumptions C06_bsearch_invariant.

(** bracket_correct: on the padded row the search returns k with row[k-1] <= x < row[k] (padded
    position e holds row[e-1]); that cell is the only one containing x; v2p's slice is the four
    consecutive padded entries k-1..k+2; they are pairwise distinct; and they are the row entries
    {0,1,2,3} (first cell, through the padding with column 3), {n-4..n-1} (last cell, through the
    padding with column -4), or k-2..k+1 (interior). *)
Theorem C06_bracket_correct :
  forall (row : list R) (x : R),
    strictly_increasing row -> (4 <= length row)%nat -> in_range row x ->
    let k := @find_nearest R ROps (padR row) x in
    (1 <= k <= length row - 1)%nat /\
    nthR row (k - 1) <= x < nthR row k /\
    (forall j, (S j < length row)%nat -> nthR row j <= x < nthR row (S j) -> j = (k - 1)%nat) /\
    @window R (padR row) k =
      Some (nthR (padR row) (k - 1), nthR (padR row) k, nthR (padR row) (k + 1), nthR (padR row) (k + 2)) /\
    distinct4 (nthR (padR row) (k - 1)) (nthR (padR row) k) (nthR (padR row) (k + 1)) (nthR (padR row) (k + 2)) /\
    (forall i, (i <= 3)%nat ->
       nthR (padR row) (k - 1 + i) =
       nthR row (if (k =? 1)%nat then Nat.modulo (i + 3) 4
                 else if (k =? length row - 1)%nat then (length row - 4 + Nat.modulo (i + 1) 4)%nat
                 else (k - 2 + i)%nat)).
Proof. exact bracket_correct. Qed.
Print Assumptions C06_bracket_correct.

(** 3. conversion of one isotherm *)
Theorem C06_v2p_point_cubic :
  forall (frow prow : list R) (a b c d x : R),
    row_ok prow -> length frow = length prow -> in_range prow x ->
    (forall i, (i < length prow)%nat -> nthR frow i = cubic a b c d (nthR prow i)) ->
    @v2p_point R ROps (padR frow) (padR prow) x = Some (cubic a b c d x).
Proof. exact v2p_point_cubic. Qed.
Print Assumptions C06_v2p_point_cubic.

Theorem C06_v2p_at_node :
  forall (frow prow : list R) (j : nat),
    row_ok prow -> length frow = length prow -> (S j < length prow)%nat ->
    @v2p_point R ROps (padR frow) (padR prow) (nthR prow j) = Some (nthR frow j).
Proof. exact v2p_point_at_node. Qed.
Print Assumptions C06_v2p_at_node.

(** never extrapolated: outside [P_0, P_last) the conversion is undefined (Python: ValueError) *)
Theorem C06_v2p_outside_undefined :
  forall (frow prow pd : list R) (x : R),
    row_ok prow -> length frow = length prow -> In x pd ->
    x < nthR prow 0 \/ nthR prow (length prow - 1) <= x ->
    @v2p_row R ROps frow prow pd = None.
Proof. exact v2p_row_outside. Qed.
Print Assumptions C06_v2p_outside_undefined.

(** 4. matrices *)
Theorem C06_v2p_of_pressure_field :
  forall (P : list (list R)) (pd : list R),
    Forall (fun prow => row_ok prow /\ grid_in_range prow pd) P ->
    @v2p R ROps P P pd = Some (map (fun _ => pd) P).
Proof. exact v2p_of_pressure_field. Qed.
Print Assumptions C06_v2p_of_pressure_field.

Theorem C06_v2p_cubic_isotherms :
  forall pd f p coefs, cubic_isotherms pd f p coefs ->
    @v2p R ROps f p pd = Some (map (fun co => map (cub co) pd) coefs).
Proof. exact v2p_cubic_isotherms. Qed.
Print Assumptions C06_v2p_cubic_isotherms.

(** 5. cij layer *)
Theorem C06_same_field_same_grid :
  forall (c : @qha_view R) (q : list (list R)),
    @pressure_base R ROps c q = @v2p R ROps q (vb_pressures c) (pb_p_array c) /\
    @pb_volumes R ROps c =
      @pressure_base R ROps c (repeat (vb_v_array c) (length (vb_pressures c))).
Proof. exact same_field_same_grid. Qed.
Print Assumptions C06_same_field_same_grid.

Theorem C06_pressure_base_of_pressures :
  forall (c : @qha_view R),
    Forall (fun prow => row_ok prow /\ grid_in_range prow (pb_p_array c)) (vb_pressures c) ->
    @pressure_base R ROps c (vb_pressures c) = Some (map (fun _ => pb_p_array c) (vb_pressures c)).
Proof. exact pressure_base_of_pressures. Qed.
Print Assumptions C06_pressure_base_of_pressures.

(** 6. range check *)
Theorem C06_range_check_sound :
  forall (P : list (list R)) (pd : list R),
    (@pressure_status R ROps P pd = Some true ->
       forall row p, In row P -> In p pd -> p <= last_of row) /\
    (@pressure_status R ROps P pd = Some false ->
       exists row p, In row P /\ In p pd /\ last_of row < p) /\
    (@pressure_status R ROps P pd = None <-> P = [] \/ pd = []).
Proof. exact range_check_sound. Qed.
Print Assumptions C06_range_check_sound.

Theorem C06_pressure_status_unit_invariant :
  forall (s : R) (P : list (list R)) (pd : list R), 0 < s ->
    @pressure_status R ROps (map (map (Rmult s)) P) (map (Rmult s) pd) = @pressure_status R ROps P pd.
Proof. exact pressure_status_unit_invariant. Qed.
Print Assumptions C06_pressure_status_unit_invariant.

Theorem C06_checked_pressure_base_of_pressures :
  forall (c : @qha_view R),
    let P := vb_pressures c in let pd := pb_p_array c in
    @pressure_status R ROps P pd = Some true ->
    Forall row_ok P ->
    (forall row p, In row P -> In p pd -> nthR row 0 <= p /\ p <> last_of row) ->
    @checked_pressure_base R ROps c P pd P = Some (map (fun _ => pd) P).
Proof. exact checked_pressure_base_of_pressures. Qed.
Print Assumptions C06_checked_pressure_base_of_pressures.

(** boundary: a grid that reaches min_T P[T][last] exactly passes the check ([<], not [<=]) and is then
    undefined in the conversion *)
Theorem C06_accepted_boundary_grid_is_undefined :
  exists (P : list (list R)) (pd : list R),
    @pressure_status R ROps P pd = Some true /\ Forall row_ok P /\
    @v2p R ROps P P pd = None.
Proof. exact accepted_boundary_grid_is_undefined. Qed.
Print Assumptions C06_accepted_boundary_grid_is_undefined.

(** non-vacuity *)
Theorem C06_example_cubic_row :
  @v2p_row R ROps (map (fun t => t * t) ex_row) ex_row [1 / 2; 5 / 2; 9 / 2] = Some [1 / 4; 25 / 4; 81 / 4].
Proof. exact ex_cubic_row. Qed.
Print Assumptions C06_example_cubic_row.
Theorem C06_example_row_ok : row_ok ex_row /\ in_range ex_row (5 / 2).
Proof. exact (conj ex_row_ok ex_in_range). Qed.
Print Assumptions C06_example_row_ok.
Theorem C06_example_range :
  @pressure_status R ROps [[0; 1; 2; 3; 4; 5]; [0; 1; 2; 3; 4; 6]] [0; 5] = Some true /\
  @pressure_status R ROps [[0; 1; 2; 3; 4; 5]; [0; 1; 2; 3; 4; 6]] [0; 11 / 2] = Some false.
Proof. exact (conj ex_range_accept ex_range_reject). Qed.
Print Assumptions C06_example_range.
