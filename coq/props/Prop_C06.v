(** C06 - (T,V)->(T,P) conversion. Statements about theories/V2PModel.v at the real-number instance. *)
From Coq Require Import Reals List.
From Cij Require Import Ops ROps V2PModel V2P.
Import ListNotations.
Local Open Scope R_scope.

Theorem C06_lagrange4_exact_cubic :
  forall x0 x1 x2 x3 : R,
    x0 <> x1 -> x0 <> x2 -> x0 <> x3 -> x1 <> x2 -> x1 <> x3 -> x2 <> x3 ->
  forall a b c d x : R,
    @lagrange4 R ROps x x0 x1 x2 x3 (cubic a b c d x0) (cubic a b c d x1) (cubic a b c d x2) (cubic a b c d x3)
    = cubic a b c d x.
Proof. exact lagrange4_exact_cubic. Qed.
Print Assumptions C06_lagrange4_exact_cubic.
