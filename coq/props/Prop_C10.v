(** C10 — Voigt/standard index algebra is a canonical 21-class quotient of the 81 tuples.
    Re-proved on every run against Gen_voigt.v, which is regenerated from
    /repo/cij/util/voigt.py.  Finite parts by vm_compute lifted with forallb_forall;
    the out-of-range part holds for all integers. *)
From Coq Require Import ZArith List Bool Lia.
From Cij Require Import VoigtBase.
From CijGen Require Import Gen_voigt.
Import ListNotations.
Local Open Scope Z_scope.

Definition idx4 := (Z * Z * Z * Z)%type.
Definition idx4_eqb (a b : idx4) : bool :=
  let '(a1, a2, a3, a4) := a in let '(b1, b2, b3, b4) := b in
  (a1 =? b1) && (a2 =? b2) && (a3 =? b3) && (a4 =? b4).
Definition r3 : list Z := [1; 2; 3].
Definition r6 : list Z := [1; 2; 3; 4; 5; 6].
Definition all4 : list idx4 :=
  flat_map (fun i => flat_map (fun j => flat_map (fun k => map (fun l => (i, j, k, l)) r3) r3) r3) r3.
Definition canon (t : idx4) : option modkey := let '(i, j, k, l) := t in mod_from_standard i j k l.

(** minor symmetries (i<->j), (k<->l) and major symmetry (ij<->kl): the orbit, written out *)
Definition orbit (t : idx4) : list idx4 :=
  let '(i, j, k, l) := t in
  [(i, j, k, l); (j, i, k, l); (i, j, l, k); (j, i, l, k);
   (k, l, i, j); (l, k, i, j); (k, l, j, i); (l, k, j, i)].
Definition in_orbit (t t' : idx4) : bool := existsb (idx4_eqb t') (orbit t).

Lemma idx4_eqb_eq a b : idx4_eqb a b = true <-> a = b.
Proof.
  destruct a as [[[a1 a2] a3] a4], b as [[[b1 b2] b3] b4]; unfold idx4_eqb.
  rewrite !andb_true_iff, !Z.eqb_eq. split.
  - intros [[[-> ->] ->] ->]; reflexivity.
  - intros H; inversion H; auto.
Qed.
Lemma in_orbit_In t t' : in_orbit t t' = true <-> In t' (orbit t).
Proof.
  unfold in_orbit. rewrite existsb_exists. split.
  - intros [x [Hx He]]. apply idx4_eqb_eq in He. subst; exact Hx.
  - intros H. exists t'. split; [exact H | apply idx4_eqb_eq; reflexivity].
Qed.
Lemma strain_eqb_eq a b : strain_eqb a b = true <-> a = b.
Proof.
  destruct a, b; unfold strain_eqb; cbn [fst snd]. rewrite andb_true_iff, !Z.eqb_eq.
  split; [intros [-> ->]; reflexivity | intros H; inversion H; auto].
Qed.
Lemma modkey_eqb_eq a b : modkey_eqb a b = true <-> a = b.
Proof.
  destruct a as [a1 a2], b as [b1 b2]; unfold modkey_eqb; cbn [fst snd].
  rewrite andb_true_iff, !strain_eqb_eq.
  split; [intros [-> ->]; reflexivity | intros H; inversion H; auto].
Qed.
Lemma okey_eqb_eq a b : option_eqb modkey_eqb a b = true <-> a = b.
Proof.
  destruct a, b; cbn; try rewrite modkey_eqb_eq; split; intros H;
    try congruence; try discriminate; try (inversion H; reflexivity).
Qed.

(** 1. equality of canonical keys is exactly the symmetry relation, on all 81 x 81 pairs *)
Definition canon_iff_b : bool :=
  forallb (fun t => forallb (fun t' =>
    Bool.eqb (option_eqb modkey_eqb (canon t) (canon t')) (in_orbit t t')) all4) all4.
Lemma canon_iff_symmetry_l :
  forall t t', In t all4 -> In t' all4 -> (canon t = canon t' <-> In t' (orbit t)).
Proof.
  assert (H : canon_iff_b = true) by (vm_compute; reflexivity).
  intros t t' Ht Ht'. unfold canon_iff_b in H.
  rewrite forallb_forall in H. specialize (H t Ht). rewrite forallb_forall in H.
  specialize (H t' Ht'). apply eqb_prop in H.
  rewrite <- in_orbit_In, <- H, okey_eqb_eq. reflexivity.
Qed.

(** every tuple has a key, and there are exactly 21 distinct keys *)
Fixpoint dedup (l : list modkey) : list modkey :=
  match l with [] => [] | x :: r => if existsb (modkey_eqb x) r then dedup r else x :: dedup r end.
Definition keys_of_tuples : list modkey :=
  dedup (flat_map (fun t => match canon t with Some k => [k] | None => [] end) all4).
Lemma all_tuples_have_key_l : forall t, In t all4 -> canon t <> None.
Proof.
  assert (H : forallb (fun t => match canon t with Some _ => true | None => false end) all4 = true)
    by (vm_compute; reflexivity).
  intros t Ht. rewrite forallb_forall in H. specialize (H t Ht). destruct (canon t); congruence.
Qed.
Lemma exactly_21_keys_l : length all4 = 81%nat /\ length keys_of_tuples = 21%nat.
Proof. split; vm_compute; reflexivity. Qed.

(** 2. the 36 Voigt pairs give the same 21 keys, symmetric, agreeing with the 4-index spelling *)
Definition std_of (v : Z) : Z * Z := match strain_from_voigt v with Some s => s | None => (0, 0) end.
Definition voigt_pairs_b : bool :=
  forallb (fun a => forallb (fun b =>
    option_eqb modkey_eqb (mod_from_voigt a b) (mod_from_voigt b a) &&
    option_eqb modkey_eqb (mod_from_voigt a b)
      (mod_from_standard (fst (std_of a)) (snd (std_of a)) (fst (std_of b)) (snd (std_of b))) &&
    match mod_from_voigt a b with Some k => existsb (modkey_eqb k) keys_of_tuples | None => false end) r6) r6.
Lemma voigt_pairs_canonical_l :
  forall a b, In a r6 -> In b r6 ->
    mod_from_voigt a b = mod_from_voigt b a /\
    mod_from_voigt a b = mod_from_standard (fst (std_of a)) (snd (std_of a)) (fst (std_of b)) (snd (std_of b)) /\
    exists k, mod_from_voigt a b = Some k /\ In k keys_of_tuples.
Proof.
  assert (H : voigt_pairs_b = true) by (vm_compute; reflexivity).
  intros a b Ha Hb. unfold voigt_pairs_b in H. rewrite forallb_forall in H.
  specialize (H a Ha). rewrite forallb_forall in H. specialize (H b Hb).
  rewrite !andb_true_iff, !okey_eqb_eq in H. destruct H as [[H1 H2] H3].
  repeat split; auto. destruct (mod_from_voigt a b) as [k|]; [|discriminate].
  exists k; split; auto. rewrite existsb_exists in H3. destruct H3 as [x [Hx He]].
  apply modkey_eqb_eq in He. subst; exact Hx.
Qed.
(** the documented map 1->11, 2->22, 3->33, 4->23, 5->13, 6->12 *)
Lemma voigt_standard_map_l :
  map std_of r6 = [(1, 1); (2, 2); (3, 3); (2, 3); (1, 3); (1, 2)].
Proof. vm_compute; reflexivity. Qed.

(** 3. views round-trip: .voigt and .standard rebuild the same key *)
Definition roundtrip_b : bool :=
  forallb (fun k =>
    let '(a, b) := mod_voigt k in let '(i, j, p, q) := mod_standard k in
    option_eqb modkey_eqb (mod_from_voigt a b) (Some k) &&
    option_eqb modkey_eqb (mod_from_standard i j p q) (Some k) &&
    option_eqb modkey_eqb (mod_create_int (10 * a + b)) (Some k) &&
    option_eqb modkey_eqb (mod_create_int (1000 * i + 100 * j + 10 * p + q)) (Some k) &&
    option_eqb modkey_eqb (mod_create [a; b]) (Some k) &&
    option_eqb modkey_eqb (mod_create [i; j; p; q]) (Some k)) keys_of_tuples.
Lemma spellings_agree_l :
  forall k, In k keys_of_tuples ->
    let '(a, b) := mod_voigt k in let '(i, j, p, q) := mod_standard k in
    mod_from_voigt a b = Some k /\ mod_from_standard i j p q = Some k /\
    mod_create_int (10 * a + b) = Some k /\ mod_create_int (1000 * i + 100 * j + 10 * p + q) = Some k /\
    mod_create [a; b] = Some k /\ mod_create [i; j; p; q] = Some k.
Proof.
  assert (H : roundtrip_b = true) by (vm_compute; reflexivity).
  intros k Hk. unfold roundtrip_b in H. rewrite forallb_forall in H. specialize (H k Hk).
  destruct (mod_voigt k) as [a b]. destruct (mod_standard k) as [[[i j] p] q].
  rewrite !andb_true_iff, !okey_eqb_eq in H. tauto.
Qed.

(** 4. multiplicity = size of the symmetry class among the 81 tuples; total 81 *)
Definition class_size (k : modkey) : Z :=
  Z.of_nat (length (filter (fun t => option_eqb modkey_eqb (canon t) (Some k)) all4)).
Lemma multiplicity_is_class_size_l :
  (forall k, In k keys_of_tuples -> multiplicity k = class_size k) /\
  fold_right Z.add 0 (map multiplicity keys_of_tuples) = 81.
Proof.
  split.
  - assert (H : forallb (fun k => multiplicity k =? class_size k) keys_of_tuples = true)
      by (vm_compute; reflexivity).
    intros k Hk. rewrite forallb_forall in H. apply Z.eqb_eq, H, Hk.
  - vm_compute; reflexivity.
Qed.

(** 5. the three predicates partition the 21 keys 3 / 3 / 15 *)
Definition exactly_one (a b c : bool) : bool :=
  (a && negb b && negb c) || (negb a && b && negb c) || (negb a && negb b && c).
Lemma classification_partition_l :
  (forall k, In k keys_of_tuples ->
     exactly_one (is_longitudinal k) (is_off_diagonal k) (is_shear k) = true) /\
  length (filter is_longitudinal keys_of_tuples) = 3%nat /\
  length (filter is_off_diagonal keys_of_tuples) = 3%nat /\
  length (filter is_shear keys_of_tuples) = 15%nat.
Proof.
  split; [|repeat split; vm_compute; reflexivity].
  assert (H : forallb (fun k => exactly_one (is_longitudinal k) (is_off_diagonal k) (is_shear k))
                keys_of_tuples = true) by (vm_compute; reflexivity).
  intros k Hk. rewrite forallb_forall in H. apply H, Hk.
Qed.

(** 6. out-of-range indices are rejected - for ALL integers, not a sample *)
Lemma zlookup_In {A} k (t : list (Z * A)) v : zlookup k t = Some v -> In k (map fst t).
Proof.
  induction t as [|[k' v'] r IH]; cbn; [discriminate|].
  destruct (Z.eqb_spec k k'); [left; auto | right; auto].
Qed.
Lemma smem_In s l : smem s l = true -> In s l.
Proof.
  induction l as [|x r IH]; cbn; [discriminate|]. rewrite orb_true_iff, strain_eqb_eq.
  intros [->|H]; [left; reflexivity | right; auto].
Qed.
Lemma out_of_range_voigt_l : forall i, ~ (1 <= i <= 6) -> strain_from_voigt i = None.
Proof.
  intros i Hi. unfold strain_from_voigt. destruct (zlookup i voigt_table) eqn:E; [|reflexivity].
  exfalso. apply zlookup_In in E. vm_compute in E. lia.
Qed.
Lemma out_of_range_standard_l :
  forall i j, ~ (1 <= i <= 3 /\ 1 <= j <= 3) -> strain_from_standard i j = None.
Proof.
  intros i j H. unfold strain_from_standard, sort2.
  destruct (Z.ltb_spec j i);
    match goal with |- (if smem ?s ?l then _ else _) = _ => destruct (smem s l) eqn:E end;
    try reflexivity; exfalso; apply smem_In in E; vm_compute in E;
    repeat match goal with E : _ \/ _ |- _ => destruct E as [E|E] end;
    try contradiction; inversion E; lia.
Qed.
Lemma out_of_range_modulus_l :
  forall i j, ~ (1 <= i <= 6 /\ 1 <= j <= 6) -> mod_from_voigt i j = None.
Proof.
  intros i j H. unfold mod_from_voigt, obind.
  destruct (Z_le_dec 1 i), (Z_le_dec i 6);
    try (rewrite (out_of_range_voigt_l i) by lia; reflexivity).
  rewrite (out_of_range_voigt_l j) by lia. destruct (strain_from_voigt i); reflexivity.
Qed.
Lemma out_of_range_modulus4_l :
  forall i j k l, ~ (1 <= i <= 3 /\ 1 <= j <= 3 /\ 1 <= k <= 3 /\ 1 <= l <= 3) ->
    mod_from_standard i j k l = None.
Proof.
  intros i j k l H. unfold mod_from_standard, obind.
  destruct (Z_le_dec 1 i), (Z_le_dec i 3), (Z_le_dec 1 j), (Z_le_dec j 3);
    try (rewrite (out_of_range_standard_l i j) by lia; reflexivity).
  rewrite (out_of_range_standard_l k l) by lia. destruct (strain_from_standard i j); reflexivity.
Qed.

(* ------------------------------------------------------------------------------------ *)
Theorem canon_iff_symmetry :
  forall t t', In t all4 -> In t' all4 -> (canon t = canon t' <-> In t' (orbit t)).
Proof. exact canon_iff_symmetry_l. Qed.
Theorem all_tuples_have_key : forall t, In t all4 -> canon t <> None.
Proof. exact all_tuples_have_key_l. Qed.
Theorem exactly_21_keys : length all4 = 81%nat /\ length keys_of_tuples = 21%nat.
Proof. exact exactly_21_keys_l. Qed.
Theorem voigt_pairs_canonical :
  forall a b, In a r6 -> In b r6 ->
    mod_from_voigt a b = mod_from_voigt b a /\
    mod_from_voigt a b = mod_from_standard (fst (std_of a)) (snd (std_of a)) (fst (std_of b)) (snd (std_of b)) /\
    exists k, mod_from_voigt a b = Some k /\ In k keys_of_tuples.
Proof. exact voigt_pairs_canonical_l. Qed.
Theorem voigt_standard_map : map std_of r6 = [(1, 1); (2, 2); (3, 3); (2, 3); (1, 3); (1, 2)].
Proof. exact voigt_standard_map_l. Qed.
Theorem spellings_agree :
  forall k, In k keys_of_tuples ->
    let '(a, b) := mod_voigt k in let '(i, j, p, q) := mod_standard k in
    mod_from_voigt a b = Some k /\ mod_from_standard i j p q = Some k /\
    mod_create_int (10 * a + b) = Some k /\ mod_create_int (1000 * i + 100 * j + 10 * p + q) = Some k /\
    mod_create [a; b] = Some k /\ mod_create [i; j; p; q] = Some k.
Proof. exact spellings_agree_l. Qed.
Theorem multiplicity_is_class_size :
  (forall k, In k keys_of_tuples -> multiplicity k = class_size k) /\
  fold_right Z.add 0 (map multiplicity keys_of_tuples) = 81.
Proof. exact multiplicity_is_class_size_l. Qed.
Theorem classification_partition :
  (forall k, In k keys_of_tuples ->
     exactly_one (is_longitudinal k) (is_off_diagonal k) (is_shear k) = true) /\
  length (filter is_longitudinal keys_of_tuples) = 3%nat /\
  length (filter is_off_diagonal keys_of_tuples) = 3%nat /\
  length (filter is_shear keys_of_tuples) = 15%nat.
Proof. exact classification_partition_l. Qed.
Theorem out_of_range_voigt : forall i, ~ (1 <= i <= 6) -> strain_from_voigt i = None.
Proof. exact out_of_range_voigt_l. Qed.
Theorem out_of_range_standard :
  forall i j, ~ (1 <= i <= 3 /\ 1 <= j <= 3) -> strain_from_standard i j = None.
Proof. exact out_of_range_standard_l. Qed.
Theorem out_of_range_modulus : forall i j, ~ (1 <= i <= 6 /\ 1 <= j <= 6) -> mod_from_voigt i j = None.
Proof. exact out_of_range_modulus_l. Qed.
Theorem out_of_range_modulus4 :
  forall i j k l, ~ (1 <= i <= 3 /\ 1 <= j <= 3 /\ 1 <= k <= 3 /\ 1 <= l <= 3) ->
    mod_from_standard i j k l = None.
Proof. exact out_of_range_modulus4_l. Qed.

(** 7. strain spellings (finite domain, decided by evaluation): the integer spelling ij, the index pair (i, j) and
       from_standard agree for i, j in 1..3; the Voigt integers 1..6 are from_voigt; all of them exist *)
Definition strain_spellings_b : bool :=
  forallb (fun i => forallb (fun j =>
    option_eqb strain_eqb (strain_create [10 * i + j]) (strain_from_standard i j) &&
    option_eqb strain_eqb (strain_create [i; j]) (strain_from_standard i j) &&
    match strain_from_standard i j with Some _ => true | None => false end) [1; 2; 3]) [1; 2; 3] &&
  forallb (fun v => option_eqb strain_eqb (strain_create [v]) (strain_from_voigt v) &&
                    match strain_from_voigt v with Some _ => true | None => false end) [1; 2; 3; 4; 5; 6].
Theorem strain_spellings_agree : strain_spellings_b = true.
Proof. vm_compute. reflexivity. Qed.

(** 8. the views and the classification are the documented ones, read off the Voigt pair (36 pairs) *)
Definition std_of_voigt (v : Z) : Z * Z := match strain_from_voigt v with Some s => s | None => (0, 0) end.
Definition views_b : bool :=
  forallb (fun a => forallb (fun b =>
    match mod_from_voigt a b with
    | Some k =>
        let lo := Z.min a b in let hi := Z.max a b in
        let '(x, y) := mod_voigt k in let '(i, j, p, q) := mod_standard k in
        (x =? lo) && (y =? hi) &&
        (i =? fst (std_of_voigt lo)) && (j =? snd (std_of_voigt lo)) &&
        (p =? fst (std_of_voigt hi)) && (q =? snd (std_of_voigt hi)) &&
        Bool.eqb (is_shear k) (3 <? hi) &&
        Bool.eqb (is_longitudinal k) ((hi <=? 3) && (lo =? hi)) &&
        Bool.eqb (is_off_diagonal k) ((hi <=? 3) && negb (lo =? hi))
    | None => false
    end) [1; 2; 3; 4; 5; 6]) [1; 2; 3; 4; 5; 6].
Theorem views_documented : views_b = true.
Proof. vm_compute. reflexivity. Qed.

Print Assumptions canon_iff_symmetry.
Print Assumptions exactly_21_keys.
Print Assumptions voigt_pairs_canonical.
Print Assumptions spellings_agree.
Print Assumptions multiplicity_is_class_size.
Print Assumptions classification_partition.
Print Assumptions out_of_range_voigt.
Print Assumptions out_of_range_standard.
Print Assumptions out_of_range_modulus.
Print Assumptions out_of_range_modulus4.
Print Assumptions strain_spellings_agree.
Print Assumptions views_documented.
