(** C03 - shear components obtained by strain-energy rotation are exact tensor algebra. *)
From Coq Require Import Reals List Arith.
From Cij Require Import Ops ROps Voigt ShearModel Shear.
Local Open Scope R_scope.

(** For every symmetric tensor [c], each of the 15 shear-type keys [k] and every
    decomposition [fict k = T diag(lam) T^T] (no orthogonality needed), the solver fed
    with c's components in the original frame and c's longitudinal / off-diagonal
    components in the rotated frame returns exactly [c k]. *)
Theorem shear_solver_exact :
  forall (c : vkey -> R) (k : vkey) (lam : nat -> R) (T : nat -> nat -> R) (crot : vkey -> R),
    In k shear_keys ->
    (forall a b, (a < 3)%nat -> (b < 3)%nat -> recompose T lam a b = fict (OF:=ROps) k a b) ->
    (forall i j, (i < 3)%nat -> (j < 3)%nat -> crot (canon4 i i j j) = rotate T c i j) ->
    solve (OF:=ROps) Ris0 k lam c crot = c k.
Proof. exact shear_solver_exact_l. Qed.

Theorem energy_invariant :
  forall (T : nat -> nat -> R) (lam : nat -> R) (c : vkey -> R),
    sum3 (fun i => sum3 (fun j => rotate T c i j * lam i * lam j)) / 2
    = full_energy (recompose T lam) c.
Proof. exact energy_invariant_l. Qed.

Theorem keys_orig_no_target :
  forall k, In k shear_keys -> ~ In k (keys_orig (OF:=ROps) Ris0 k).
Proof. exact keys_orig_no_target_l. Qed.

Theorem keys_rot_nonshear :
  forall lam k, In k (keys_rot (OF:=ROps) Ris0 lam) -> is_shear k = false.
Proof. exact keys_rot_nonshear_l. Qed.

Theorem mult_counts_target : forall k, In k shear_keys -> count_target k = mult k.
Proof. exact mult_counts_target_l. Qed.

Theorem strain_rot_trace :
  forall (T : nat -> nat -> R) (e : nat -> R),
    (forall a, (a < 3)%nat -> sum3 (fun i => T a i * T a i) = 1) ->
    sum3 (strain_rot T e) = sum3 e.
Proof. exact strain_rot_trace_l. Qed.

Theorem strain_rot_sign :
  forall (T : nat -> nat -> R) (s : nat -> R) (e : nat -> R) i,
    (forall j, s j = 1 \/ s j = -1) ->
    strain_rot (fun a j => T a j * s j) e i = strain_rot T e i.
Proof. exact strain_rot_sign_l. Qed.

Theorem strain_rot_perm :
  forall (T : nat -> nat -> R) (pi : nat -> nat) (e : nat -> R) i,
    strain_rot (fun a j => T a (pi j)) e i = strain_rot T e (pi i).
Proof. exact strain_rot_perm_l. Qed.

Print Assumptions shear_solver_exact.
Print Assumptions energy_invariant.
Print Assumptions keys_orig_no_target.
Print Assumptions keys_rot_nonshear.
Print Assumptions mult_counts_target.
Print Assumptions strain_rot_trace.
Print Assumptions strain_rot_sign.
Print Assumptions strain_rot_perm.
