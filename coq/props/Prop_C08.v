(** C08 - symmetry relations equal the Laue-class invariants; fill returns the invariant.
    Compiled on every run against Gen_constraints.v, which is regenerated from
    /repo/cij/data/constraints/* (rows over Q + certificates over Q(sqrt 3)). *)
From Coq Require Import QArith Qreals Reals Lra List Bool Arith.
From Cij Require Import LinSum Q3 Voigt SymModel Sym SymGroup FillModel Fill ROps.
From CijGen Require Import Gen_constraints.
Import ListNotations.
Local Open Scope R_scope.

(** 1. for ALL real tensors: packaged relations <-> invariance under the Laue-class generators.
    The certificate check runs in Q(sqrt 3) under vm_compute; cert_sound (static) lifts it. *)
Theorem relations_eq_invariants :
  forall (s : system) (c : vkey -> R), satisfies (rel_of s) c <-> invariant s c.
Proof.
  intros s. apply (cert_sound s (rel_of s) (cert1_of s) (cert2_of s)).
  destruct s; vm_compute; reflexivity.
Qed.

(** 2. ... hence invariance under every product of generators, i.e. under the whole group *)
Theorem invariance_under_group :
  forall (s : system) (c : vkey -> R), satisfies (rel_of s) c ->
  forall w, (forall g, In g w -> In g (gens_of s)) ->
  forall k, In k keys21 -> rotate4 (word (map phim w)) c k = c k.
Proof.
  intros s c H. apply invariance_under_words. apply relations_eq_invariants, H.
Qed.
Theorem generators_generate_laue_groups :
  forall s, List.length (group_of s) = group_order s /\ forallb is_rotation (group_of s) = true.
Proof. exact SymGroup.generators_generate_laue_groups. Qed.

(** 3. soundness of the two rank certificates (all supplied sets, all relation matrices) *)
Theorem determines_sound :
  forall sup rel, determines sup rel = true ->
  forall x x' : list R, List.length x = NS -> List.length x' = NS ->
    matvec (AR sup rel) x = matvec (AR sup rel) x' -> x = x'.
Proof. exact determines_sound_l. Qed.
Theorem underdetermined_sound :
  forall sup rel, underdetermined sup rel = true ->
  exists y : list R, List.length y = NS /\ (exists z, In z y /\ z <> 0) /\
                     forall r, In r (AR sup rel) -> dot r y = 0.
Proof. exact underdetermined_sound_l. Qed.

(** 4. FLAGSHIP: every system, every supplied set with a determining certificate, every tensor
    invariant under the Laue class: the normal-equation solution of [supplied; relations] fed
    with the tensor's own values IS the tensor, on all 21 components *)
Theorem fill_returns_invariant :
  forall (s : system) (sup : list nat),
    determines sup (rel_of s) = true -> Forall (fun i => (i < NS)%nat) sup ->
    forall c : vkey -> R, invariant s c ->
      solveR sup (rel_of s) (bvec sup (rel_of s) c) = tvec c.
Proof.
  intros s sup H Hs c Hc. apply fill_returns_invariant_l; try assumption.
  apply relations_eq_invariants, Hc.
Qed.
(** ... at every volume of a table of any length *)
Theorem fill_returns_invariant_all_volumes :
  forall (s : system) (sup : list nat),
    determines sup (rel_of s) = true -> Forall (fun i => (i < NS)%nat) sup ->
    forall cs : list (vkey -> R), Forall (invariant s) cs ->
      map (fun c => solveR sup (rel_of s) (bvec sup (rel_of s) c)) cs = map tvec cs.
Proof.
  intros s sup H Hs cs Hc. apply map_ext_in. intros c Hin. rewrite Forall_forall in Hc.
  apply fill_returns_invariant; auto.
Qed.
(** ... and at table level: fill_cij (model) on a table whose modulus columns [sup] hold, at every
    volume, the components of a Laue-invariant tensor, is ACCEPTED whatever the flags and returns
    the table with all 21 components written from those tensors (supplied values unchanged,
    dependent ones generated), after which the columns within drop_atol of 0 are omitted *)
Theorem fill_consistent_table :
  forall (s : system) var (o : opts (T:=R)) (t : table (T:=R)) sup (cs : list (vkey -> R)),
    scan t = Some (sup, cols_of sup cs) -> rel_of s <> [] -> sup <> [] ->
    determines sup (rel_of s) = true -> Forall (fun i => (i < NS)%nat) sup ->
    Forall (invariant s) cs -> 0 <= resid_atol o ->
    fill_with Q2R Rleb var o (rel_of s) t = Ok (drop_cols Rleb o (write_back t (map tvec cs))).
Proof.
  intros s var o t sup cs H1 H2 H3 H4 H5 H6 H7. apply (fill_consistent_table_l var o (rel_of s) t sup cs); try assumption.
  rewrite Forall_forall in *. intros c Hc. apply relations_eq_invariants, H6, Hc.
Qed.
Theorem consistent_zero_residual :
  forall (s : system) (sup : list nat),
    determines sup (rel_of s) = true -> Forall (fun i => (i < NS)%nat) sup ->
    forall c : vkey -> R, invariant s c ->
    forall z, In z (residual_vec Q2R sup (rel_of s) (bvec sup (rel_of s) c)) -> z = 0.
Proof.
  intros s sup H Hs c Hc. apply consistent_zero_residual_l; try assumption.
  apply relations_eq_invariants, Hc.
Qed.

(** 5. signs and factors of dependent components, read off for invariant tensors *)
Lemma sat_rows rel c : satisfies rel c -> Forall (fun r => dot (map Q2R r) (tvec c) = 0) rel.
Proof. intros H. apply Forall_forall. exact H. Qed.

Theorem trigonal7_signs_and_factor :
  forall c : vkey -> R, invariant Trigonal7 c ->
    c (2,4)%nat = - c (1,4)%nat /\ c (5,6)%nat = c (1,4)%nat /\
    c (2,5)%nat = - c (1,5)%nat /\ c (4,6)%nat = - c (1,5)%nat /\
    c (6,6)%nat = (c (1,1)%nat - c (1,2)%nat) / 2 /\ c (2,2)%nat = c (1,1)%nat /\
    c (5,5)%nat = c (4,4)%nat /\ c (2,3)%nat = c (1,3)%nat /\ c (3,4)%nat = 0 /\ c (4,5)%nat = 0.
Proof.
  intros c H. apply relations_eq_invariants in H. unfold rel_of in H.
  assert (F := sat_rows _ _ H). unfold rel_trigonal7 in F.
  repeat match type of F with
         | Forall _ (_ :: _) => let E := fresh "E" in let F' := fresh "F" in
                                inversion F as [|? ? E F']; subst; clear F; rename F' into F
         end.
  clear F H.
  repeat match goal with
         | E : dot _ _ = 0 |- _ =>
             unfold tvec, keys21 in E; cbn [map dot] in E;
             cbn [r0 r1 radd rmul ropp RRng] in E; unfold Q2R in E; cbn [Qnum Qden] in E; revert E
         end.
  intros. repeat split; lra.
Qed.
Theorem hexagonal_factor :
  forall c : vkey -> R, invariant Hexagonal c ->
    c (6,6)%nat = (c (1,1)%nat - c (1,2)%nat) / 2 /\ c (2,2)%nat = c (1,1)%nat /\
    c (2,3)%nat = c (1,3)%nat /\ c (5,5)%nat = c (4,4)%nat /\ c (1,4)%nat = 0 /\ c (5,6)%nat = 0.
Proof.
  intros c H. apply relations_eq_invariants in H. unfold rel_of in H.
  assert (F := sat_rows _ _ H). unfold rel_hexagonal in F.
  repeat match type of F with
         | Forall _ (_ :: _) => let E := fresh "E" in let F' := fresh "F" in
                                inversion F as [|? ? E F']; subst; clear F; rename F' into F
         end.
  clear F H.
  repeat match goal with
         | E : dot _ _ = 0 |- _ =>
             unfold tvec, keys21 in E; cbn [map dot] in E;
             cbn [r0 r1 radd rmul ropp RRng] in E; unfold Q2R in E; cbn [Qnum Qden] in E; revert E
         end.
  intros. repeat split; lra.
Qed.
Theorem cubic_form :
  forall c : vkey -> R, invariant Cubic c ->
    c (2,2)%nat = c (1,1)%nat /\ c (3,3)%nat = c (1,1)%nat /\ c (1,3)%nat = c (1,2)%nat /\
    c (2,3)%nat = c (1,2)%nat /\ c (5,5)%nat = c (4,4)%nat /\ c (6,6)%nat = c (4,4)%nat /\
    c (1,4)%nat = 0 /\ c (1,5)%nat = 0 /\ c (1,6)%nat = 0 /\ c (2,4)%nat = 0 /\ c (2,5)%nat = 0 /\
    c (2,6)%nat = 0 /\ c (3,4)%nat = 0 /\ c (3,5)%nat = 0 /\ c (3,6)%nat = 0 /\ c (4,5)%nat = 0 /\
    c (4,6)%nat = 0 /\ c (5,6)%nat = 0.
Proof.
  intros c H. apply relations_eq_invariants in H. unfold rel_of in H.
  assert (F := sat_rows _ _ H). unfold rel_cubic in F.
  repeat match type of F with
         | Forall _ (_ :: _) => let E := fresh "E" in let F' := fresh "F" in
                                inversion F as [|? ? E F']; subst; clear F; rename F' into F
         end.
  clear F H.
  repeat match goal with
         | E : dot _ _ = 0 |- _ =>
             unfold tvec, keys21 in E; cbn [map dot] in E;
             cbn [r0 r1 radd rmul ropp RRng] in E; unfold Q2R in E; cbn [Qnum Qden] in E; revert E
         end.
  intros. repeat split; lra.
Qed.

(** non-vacuity: the isotropic tensor (lambda = 1, mu = 1) is invariant under the cubic group,
    and {c11, c12, c44} has a determining certificate *)
Example cubic_invariant_exists :
  exists c : vkey -> R, invariant Cubic c /\ c (1,1)%nat = 3 /\ determines [0; 1; 15]%nat (rel_of Cubic) = true.
Proof.
  exists (fun k : vkey => let '(a, b) := k in
            if (b <=? 3)%nat then (if (a =? b)%nat then 3 else 1) else if (a =? b)%nat then 1 else 0).
  split; [|split; [reflexivity | vm_compute; reflexivity]].
  apply relations_eq_invariants. intros r Hr. unfold rel_of, rel_cubic in Hr. cbn [In] in Hr.
  repeat (destruct Hr as [<- | Hr];
          [unfold tvec, keys21; cbn [map dot Nat.leb Nat.eqb]; cbn [r0 r1 radd rmul ropp RRng]; unfold Q2R; cbn [Qnum Qden]; lra|]).
  destruct Hr.
Qed.

Print Assumptions relations_eq_invariants.
Print Assumptions invariance_under_group.
Print Assumptions generators_generate_laue_groups.
Print Assumptions determines_sound.
Print Assumptions underdetermined_sound.
Print Assumptions fill_returns_invariant.
Print Assumptions fill_returns_invariant_all_volumes.
Print Assumptions fill_consistent_table.
Print Assumptions consistent_zero_residual.
Print Assumptions trigonal7_signs_and_factor.
Print Assumptions hexagonal_factor.
Print Assumptions cubic_form.
