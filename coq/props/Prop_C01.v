(** C01 - thermal c11..c33, c12, c13, c23 are strain derivatives of the QHA free energy.
    [sp] is an arbitrary spectrum: sp[q][m] is a mode with a positive, twice differentiable
    frequency om(V) (first and second derivative om1, om2); the arrays handed to the code
    are its samples: frequency, gamma = -V om'/om and V dgamma/dV of the SAME om.
    F_ph T V = sum_q (w_q / sum w) sum_m' [ h c om / 2 + k T ln(1 - exp(-hc om / kT)) ]
    (Gamma-acoustic modes excluded).  The code's value is A/(5 e^2) + P/(3 e) resp.
    A/(15 ei ej) + (p - pst) with P = -dF/dV and A = V d2F/dV2 - P. *)
From Coq Require Import Reals List ZArith Lra Lia.
Import ListNotations.
From Coquelicot Require Import Coquelicot.
From Cij Require Import Ops ROps NonShearModel NonShear.
Local Open Scope R_scope.

Section C01.
  Variable K : @consts R.
  Hypothesis Khdk : 0 < c_hdk K.
  Variable w : list R.
  Variable sp : list (list mode).
  Variable na : Z.
  Hypothesis Hna : (0 < na)%Z.
  Hypothesis Hw : Rsum w <> 0.
  Hypothesis Hlen : List.Forall (fun r => length r = Z.to_nat (3 * na)) sp.
  Hypothesis Hsm : all_smooth sp.

  Let freq V := sample sp (fun m => om m V).
  Let gam V := sample sp (fun m => gamma_of m V).
  Let vdr V := sample sp (fun m => vdr_of m V).

  (** the derivatives that appear in the statements really are those of F_ph *)
  Theorem F_ph_derivatives :
    forall T V, 0 < T ->
      is_derive (F_ph K w sp T) V (F_zp1 K w sp V + F_th1 K w sp T V) /\
      is_derive (fun x => F_zp1 K w sp x + F_th1 K w sp T x) V (F_zp2 K w sp V + F_th2 K w sp T V) /\
      is_derive (F_zp K w sp) V (F_zp1 K w sp V) /\ is_derive (F_zp1 K w sp) V (F_zp2 K w sp V) /\
      is_derive (F_th K w sp T) V (F_th1 K w sp T V) /\ is_derive (F_th1 K w sp T) V (F_th2 K w sp T V).
  Proof.
    intros T V HT.
    refine (conj _ (conj _ (conj _ (conj _ (conj _ _))))).
    - eapply F_ph_first_derivative; eassumption.
    - eapply F_ph_second_derivative; eassumption.
    - eapply F_zp_derive; eassumption.
    - eapply F_zp1_derive; eassumption.
    - eapply F_th_derive; eassumption.
    - eapply F_th1_derive; eassumption.
  Qed.

  Theorem value_isothermal_is_strain_derivative :
    forall (lg : bool) (ei ej V T p pst : R),
      0 < T -> V <> 0 -> ei <> 0 -> ej <> 0 ->
      let P := - (F_zp1 K w sp V + F_th1 K w sp T V) in
      let A := V * (F_zp2 K w sp V + F_th2 K w sp T V) - P in
      isothermal (OF:=ROps) K Q1_neg Q2_neg lg w na (freq V) (gam V) (vdr V) ei ej V T p pst
      = A / ((if lg then 5 else 15) * ei * ej) + (if lg then P / (3 * ei) else p - pst).
  Proof.
    intros lg ei ej V T p pst HT HV Hi Hj P A. unfold freq, gam, vdr.
    rewrite isothermal_neg_eq_l by assumption.
    erewrite isothermal_strain_derivative_l by eassumption.
    unfold A, P. destruct lg; field; repeat split; assumption.
  Qed.


  (** The same statement with Coquelicot's derivative operators, exactly as announced in
      DESIGN.md Appendix A:  P_ph = - dF_ph/dV,  A = V d2F_ph/dV2 - P_ph. *)
  Lemma Derive_F_ph : forall T x, 0 < T -> Derive (F_ph K w sp T) x = F_zp1 K w sp x + F_th1 K w sp T x.
  Proof. intros T x HT. apply is_derive_unique. eapply F_ph_first_derivative; eassumption. Qed.
  Lemma Derive2_F_ph : forall T V, 0 < T -> Derive_n (F_ph K w sp T) 2 V = F_zp2 K w sp V + F_th2 K w sp T V.
  Proof.
    intros T V HT. change (Derive_n (F_ph K w sp T) 2 V) with (Derive (Derive (F_ph K w sp T)) V).
    rewrite (Derive_ext (Derive (F_ph K w sp T)) (fun x => F_zp1 K w sp x + F_th1 K w sp T x))
      by (intros t; apply Derive_F_ph, HT).
    apply is_derive_unique. eapply F_ph_second_derivative; eassumption.
  Qed.

  Theorem value_isothermal_Derive :
    forall (lg : bool) (ei ej V T p pst : R),
      0 < T -> V <> 0 -> ei <> 0 -> ej <> 0 ->
      let P_ph := - Derive (F_ph K w sp T) V in
      let A := V * Derive_n (F_ph K w sp T) 2 V - P_ph in
      isothermal (OF:=ROps) K Q1_neg Q2_neg lg w na (freq V) (gam V) (vdr V) ei ej V T p pst
      = A / ((if lg then 5 else 15) * ei * ej) + (if lg then P_ph / (3 * ei) else p - pst).
  Proof.
    intros lg ei ej V T p pst HT HV Hi Hj P_ph A. unfold A, P_ph.
    rewrite Derive_F_ph, Derive2_F_ph by assumption.
    apply value_isothermal_is_strain_derivative; assumption.
  Qed.

  Theorem zero_point_is_strain_derivative :
    forall (lg : bool) (ei ej V : R), V <> 0 -> ei <> 0 -> ej <> 0 ->
      let P := - F_zp1 K w sp V in let A := V * F_zp2 K w sp V - P in
      zero_point (OF:=ROps) K lg w na (freq V) (gam V) (vdr V) ei ej V
      = A / ((if lg then 5 else 15) * ei * ej) + (if lg then P / (3 * ei) else 0).
  Proof.
    intros lg ei ej V HV Hi Hj P A. unfold freq, gam, vdr.
    erewrite zero_point_strain_derivative_l by eassumption.
    unfold A, P. destruct lg; field; repeat split; assumption.
  Qed.

  Theorem thermal_is_strain_derivative :
    forall (lg : bool) (ei ej V T : R), 0 < T -> V <> 0 -> ei <> 0 -> ej <> 0 ->
      let P := - F_th1 K w sp T V in let A := V * F_th2 K w sp T V - P in
      thermal (OF:=ROps) K Q1_neg Q2_neg lg w na (freq V) (gam V) (vdr V) ei ej V T
      = A / ((if lg then 5 else 15) * ei * ej) + (if lg then P / (3 * ei) else 0).
  Proof.
    intros lg ei ej V T HT HV Hi Hj P A. unfold freq, gam, vdr.
    rewrite thermal_neg_eq_l by assumption.
    erewrite thermal_strain_derivative_l by eassumption.
    unfold A, P. destruct lg; field; repeat split; assumption.
  Qed.

  Theorem thermal_at_zero_T :
    forall lg Q1 Q2 fr ga vd ei ej V, thermal (OF:=ROps) K Q1 Q2 lg w na fr ga vd ei ej V 0 = 0.
  Proof. intros. apply thermal_at_zero_T_l. Qed.

  Theorem value_isothermal_at_zero_T :
    forall (lg : bool) (ei ej V p pst : R), V <> 0 -> ei <> 0 -> ej <> 0 ->
      let P := - F_zp1 K w sp V in let A := V * F_zp2 K w sp V - P in
      isothermal (OF:=ROps) K Q1_neg Q2_neg lg w na (freq V) (gam V) (vdr V) ei ej V 0 p pst
      = A / ((if lg then 5 else 15) * ei * ej) + (if lg then P / (3 * ei) else p - pst).
  Proof.
    intros lg ei ej V p pst HV Hi Hj P A. unfold freq, gam, vdr.
    unfold A, P. destruct lg; unfold isothermal; cbn [add sub ROps]; rewrite thermal_at_zero_T_l;
      erewrite zero_point_strain_derivative_l by eassumption; field; repeat split; assumption.
  Qed.
End C01.

(** the exp(-Q) forms the code evaluates are the textbook Bose factors *)
Theorem bose_forms_equal :
  forall q, 0 < q -> Q1_neg (OF:=ROps) q = Q1_exp (OF:=ROps) q /\ Q2_neg (OF:=ROps) q = Q2_exp (OF:=ROps) q.
Proof. exact bose_forms_equal_l. Qed.

Theorem gamma_is_minus_dlnw_dlnV_and_vdr_its_derivative :
  forall m V, smooth_positive m -> exists g', is_derive (gamma_of m) V g' /\ vdr_of m V = V * g'.
Proof. exact vdr_is_V_dgamma. Qed.

Theorem weights_normalised :
  forall (c : R) (w : list R) (X : list (list R)), c <> 0 -> Rsum w <> 0 ->
    avg_modes (OF:=ROps) (map (fun y => c * y) w) X = avg_modes (OF:=ROps) w X.
Proof. exact weights_normalised_l. Qed.

Theorem gamma_mask :
  forall (w : list R) (X Y : list (list R)),
    clear_gamma (OF:=ROps) X = clear_gamma (OF:=ROps) Y -> avg_modes (OF:=ROps) w X = avg_modes (OF:=ROps) w Y.
Proof. exact gamma_mask_l. Qed.

(** non-vacuity: a two-q-point, six-mode spectrum meets every hypothesis *)
Example hypotheses_satisfiable :
  exists (sp : list (list mode)) (w : list R) (na : Z),
    (0 < na)%Z /\ Rsum w <> 0 /\ List.Forall (fun r => length r = Z.to_nat (3 * na)) sp /\ all_smooth sp.
Proof.
  set (m := {| om := fun _ : R => 100; om1 := fun _ => 0; om2 := fun _ => 0 |}).
  assert (Hm : smooth_positive m).
  { split; [intros x; cbn; lra|]. split; intros x; cbn; apply @is_derive_const. }
  exists [[m; m; m; m; m; m]; [m; m; m; m; m; m]], [1; 3], 2%Z.
  split; [lia|]. split; [unfold Rsum; cbn; lra|]. split.
  - repeat (constructor; [reflexivity|]). constructor.
  - unfold all_smooth. repeat (apply Forall_cons || apply Forall_nil || exact Hm).
Qed.

Print Assumptions value_isothermal_is_strain_derivative.
Print Assumptions bose_forms_equal.
Print Assumptions value_isothermal_Derive.
Print Assumptions zero_point_is_strain_derivative.
Print Assumptions thermal_is_strain_derivative.
Print Assumptions F_ph_derivatives.
Print Assumptions value_isothermal_at_zero_T.
Print Assumptions weights_normalised.
Print Assumptions gamma_mask.
