(** C09 - fill refuses exactly when under-determined or inconsistent; never distorts data.
    Compiled on every run against Gen_constraints.v (relation rows regenerated from
    the nine files of /repo/cij/data/constraints) and Gen_fill.v ([tree_variant]: which residual form
    /repo/cij/util/fill.py currently has, detected fail-closed from its source). *)
From Coq Require Import QArith Qreals Reals Lra List Bool Arith String.
From Cij Require Import LinSum Q3 Voigt SymModel Sym FillModel Fill ROps.
From CijGen Require Import Gen_constraints Gen_fill.
Import ListNotations.

Section AnyDomain.
  Context {T : Type} {RT : Rng T} (inj : Q -> T) (leb : T -> T -> bool).

  (** 1. without ignore_rank: rank refusal <-> no determining certificate *)
  Theorem refuses_iff_underdetermined :
    forall var (o : opts) (rel : list (list Q)) (t : table (T:=T)) sup B,
      scan t = Some (sup, B) -> rel <> [] -> sup <> [] -> ign_rank o = false ->
      (fill_with inj leb var o rel t = Raise RankWarning <-> determines sup rel = false).
  Proof. exact (refuses_iff_underdetermined_l inj leb). Qed.

  (** 3. the flags: with residuals computed from a @ x - b (repaired form) the outcome is exactly
      [spec_outcome]: rank refusal iff (no determining certificate and not ignore_rank), else
      residual refusal iff (some volume's true residual > tol and not ignore_residuals), else
      the filled table *)
  Theorem flags_exact_repaired : flags_exact_stmt inj leb ComputedResiduals.
  Proof. exact (flags_exact_computed_l inj leb). Qed.
  (** the lstsq-residual form satisfies the specification only where numpy reports residuals *)
  Theorem flags_exact_numpy_partial :
    forall (o : opts) (rel : list (list Q)) (t : table (T:=T)) sup B,
      scan t = Some (sup, B) -> rel <> [] -> sup <> [] ->
      determines sup rel = true -> (NS < List.length (Amat sup rel))%nat ->
      fill_with inj leb NumpyResiduals o rel t = spec_outcome inj leb o rel t sup B.
  Proof. exact (flags_exact_numpy_partial_l inj leb). Qed.
  Theorem ignore_rank_never_rank_refusal :
    forall var (o : opts) rel (t : table (T:=T)), ign_rank o = true -> fill_with inj leb var o rel t <> Raise RankWarning.
  Proof. exact (ignore_rank_never_rank_refusal_l inj leb). Qed.
  Theorem ignore_residuals_never_residual_refusal :
    forall var (o : opts) rel (t : table (T:=T)), ign_res o = true -> fill_with inj leb var o rel t <> Raise ResidualWarning.
  Proof. exact (ignore_residuals_never_residual_refusal_l inj leb). Qed.

  (** 4./5. letter case, passthrough, drop rule *)
  Theorem scan_case :
    forall (f : string -> string) (t : table (T:=T)),
      (forall l, lower (f l) = lower l) -> scan (map (fun c => (f (fst c), snd c)) t) = scan t.
  Proof. exact scan_case_l. Qed.
  Theorem passthrough :
    forall (t : table (T:=T)) (xs : list (list T)) lab old,
      In (lab, old) t -> ~ In (lower lab) sym_names -> In (lab, old) (write_back t xs).
  Proof. exact passthrough_l. Qed.
  Theorem drop_rule :
    forall (o : opts) (t : table (T:=T)) (col : string * list T),
      In col (drop_cols leb o t) <->
      In col t /\ (is_sym (lower (fst col)) && droppable leb o (snd col) = false).
  Proof. exact (drop_rule_l leb). Qed.
  (** non-modulus columns pass through write-back AND drop untouched (repaired drop loop) *)
  Theorem passthrough_full :
    forall (o : opts) (t : table (T:=T)) (xs : list (list T)) lab old,
      In (lab, old) t -> ~ In (lower lab) sym_names ->
      In (lab, old) (drop_cols leb o (write_back t xs)).
  Proof. exact (passthrough_full_l leb). Qed.
  (** no relations (triclinic): the code returns the table unchanged - never a refusal, no drop *)
  Theorem empty_relations_unchanged :
    forall var (o : opts) (t : table (T:=T)), scan t <> None -> fill_with inj leb var o [] t = Ok t.
  Proof. exact (empty_relations_unchanged_l inj leb). Qed.

  (** 6. relations lookup (repaired form) *)
  Theorem cwd_independence :
    forall var (o : opts) (e e' : env) (s : string) (t : table (T:=T)),
      is_file e s = false -> is_file e' s = false -> packaged e s = packaged e' s ->
      fill_cij inj leb var o e (Some s) t = fill_cij inj leb var o e' (Some s) t.
  Proof. exact (cwd_independence_l inj leb). Qed.
  Theorem relations_path_used :
    forall var (o : opts) (e : env) (s : string) (t : table (T:=T)),
      is_file e s = true -> scan t <> None ->
      fill_cij inj leb var o e (Some s) t = fill_with inj leb var o (file_rel e s) t.
  Proof. exact (relations_path_used_l inj leb). Qed.
End AnyDomain.

Local Open Scope R_scope.
(** 2. accepted with the residual refusal armed and the residuals seen: every entry of A x - b
    (returned minus supplied value; value of a relation on the returned tensor) is at most
    sqrt(residual_atol) in magnitude at every volume; exactly 0 for consistent tables *)
Theorem accept_no_distortion :
  forall var (o : opts (T:=R)) (rel : list (list Q)) (t t' : table (T:=R)) sup B,
    scan t = Some (sup, B) -> rel <> [] -> sup <> [] ->
    ign_res o = false ->
    (var = ComputedResiduals \/ (NS < List.length (Amat sup rel))%nat /\ ign_rank o = false) ->
    fill_with Q2R Rleb var o rel t = Ok t' ->
    forall v, (v < nvol B)%nat ->
    forall z, In z (residual_vec Q2R sup rel (rhs B (List.length rel) v)) ->
              Rabs z <= sqrt (resid_atol o).
Proof. exact accept_no_distortion_l. Qed.
Theorem consistent_no_distortion :
  forall sup rel, determines sup rel = true -> Forall (fun i => (i < NS)%nat) sup ->
  forall c : vkey -> R, satisfies rel c ->
    solveR sup rel (bvec sup rel c) = tvec c /\
    forall z, In z (residual_vec Q2R sup rel (bvec sup rel c)) -> z = 0.
Proof.
  intros sup rel H Hs c Hc. split.
  - apply fill_returns_invariant_l; assumption.
  - apply consistent_zero_residual_l; assumption.
Qed.
Theorem determines_sound :
  forall sup rel, determines sup rel = true ->
  forall x x' : list R, List.length x = NS -> List.length x' = NS ->
    matvec (AR sup rel) x = matvec (AR sup rel) x' -> x = x'.
Proof. exact determines_sound_l. Qed.
Theorem underdetermined_sound :
  forall sup rel, underdetermined sup rel = true ->
  exists y : list R, List.length y = NS /\ (exists z, In z y /\ z <> 0) /\
                     forall r, In r (AR sup rel) -> dot r y = 0.
Proof. exact underdetermined_sound_l. Qed.

(** the model's solution satisfies the normal equations A^T (A x - b) = 0 for EVERY real right-hand
    side whenever the (cheap, per supplied set) check [normal_eq_ok] succeeds: it is a least-squares
    solution, which is what ties it to numpy.linalg.lstsq *)
Theorem normal_equations :
  forall sup rel, normal_eq_ok sup rel = true ->
  forall b : list R,
    matvec (map (map Q2R) (transpose NS (Amat sup rel)))
           (vsub (matvec (AR sup rel) (solveR sup rel b)) b) = repeat 0%R NS.
Proof. exact normal_equations_l. Qed.

(** 3'. the lstsq-residual form REFUTES flags_exact (defect D12): cubic, c11 = 300, c22 = 200,
    c12 = 100, c44 missing, ignore_rank alone: accepted and distorted to 800/3, 700/3 although the
    true residual is 10000/3 > 0.1 *)
Local Open Scope Q_scope.
Definition d12_table : table (T:=Q) :=
  [("V"%string, [100]); ("c11"%string, [300]); ("c22"%string, [200]); ("c12"%string, [100])].
Definition d12_opts : opts (T:=Q) :=
  {| ign_res := false; ign_rank := true; drop_atol := 1 # 100000000; resid_atol := 1 # 10 |}.
Theorem flags_exact_numpy_refuted :
  ~ flags_exact_stmt (T:=Q) (fun x => x) Qle_bool NumpyResiduals.
Proof.
  intros H.
  specialize (H d12_opts rel_cubic d12_table [0; 6; 1]%nat [[300]; [200]; [100]] eq_refl).
  assert (E1 : fill_with (fun x => x) Qle_bool NumpyResiduals d12_opts rel_cubic d12_table
               = Ok [("V"%string, [100]); ("c11"%string, [800 # 3]); ("c22"%string, [700 # 3]);
                     ("c12"%string, [100]); ("c13"%string, [100]); ("c23"%string, [100]);
                     ("c33"%string, [800 # 3])]) by (vm_compute; reflexivity).
  assert (E2 : spec_outcome (fun x => x) Qle_bool d12_opts rel_cubic d12_table [0; 6; 1]%nat [[300]; [200]; [100]]
               = Raise ResidualWarning) by (vm_compute; reflexivity).
  rewrite E1, E2 in H. assert (N1 : rel_cubic <> []) by discriminate.
  assert (N2 : [0; 6; 1]%nat <> []) by discriminate. specialize (H N1 N2). discriminate H.
Qed.
(** 1'. KNOWN FINDING (triclinic-never-refuses-never-drops): [refuses_iff_underdetermined] needs
    rel <> [], i.e. it covers the 8 systems that have relations.  For triclinic the code as it is
    REFUTES "raises unless the supplied columns determine all 21 components": c11 and an all-zero
    c14 alone are under-determined (kernel certificate), yet the table comes back unchanged for
    every flag setting - not refused, c14 not omitted. *)
Definition tri_table : table (T:=Q) := [("V"%string, [100]); ("c11"%string, [300]); ("c14"%string, [0])].
Theorem relations_present_except_triclinic :
  forall s, s <> Triclinic -> rel_of s <> [].
Proof. intros s H. destruct s; try discriminate. congruence. Qed.
Theorem triclinic_never_refuses_refuted :
  rel_of Triclinic = [] /\
  scan tri_table = Some ([0; 3]%nat, [[300]; [0]]) /\
  underdetermined [0; 3]%nat (rel_of Triclinic) = true /\ determines [0; 3]%nat (rel_of Triclinic) = false /\
  forall var o, fill_with (fun x => x) Qle_bool var o (rel_of Triclinic) tri_table = Ok tri_table.
Proof.
  repeat split; try (vm_compute; reflexivity).
  all: intros var o; apply (empty_relations_unchanged_l (fun x => x) Qle_bool); discriminate.
Qed.

(** status of the tree this run was made on *)
Definition flags_exact_on_tree (v : variant) : Prop :=
  match v with
  | ComputedResiduals => flags_exact_stmt (T:=Q) (fun x => x) Qle_bool ComputedResiduals
  | NumpyResiduals => ~ flags_exact_stmt (T:=Q) (fun x => x) Qle_bool NumpyResiduals
  end.
Theorem flags_exact_on_current_tree : flags_exact_on_tree tree_variant.
Proof.
  unfold tree_variant, flags_exact_on_tree.
  first [ exact (flags_exact_computed_l (fun x => x) Qle_bool) | exact flags_exact_numpy_refuted ].
Qed.

Print Assumptions refuses_iff_underdetermined.
Print Assumptions flags_exact_repaired.
Print Assumptions flags_exact_numpy_partial.
Print Assumptions flags_exact_numpy_refuted.
Print Assumptions flags_exact_on_current_tree.
Print Assumptions accept_no_distortion.
Print Assumptions consistent_no_distortion.
Print Assumptions determines_sound.
Print Assumptions underdetermined_sound.
Print Assumptions normal_equations.
Print Assumptions passthrough.
Print Assumptions drop_rule.
Print Assumptions passthrough_full.
Print Assumptions empty_relations_unchanged.
Print Assumptions triclinic_never_refuses_refuted.
Print Assumptions scan_case.
Print Assumptions cwd_independence.
Print Assumptions relations_path_used.
