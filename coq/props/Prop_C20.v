(** C20 - placeholder while the pipeline is brought up *)
From Cij Require Import EvecSortModel Disp2EigModel MatdynModel.
