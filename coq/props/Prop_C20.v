(** C20 - eigenvector tools: sorting recovers the permutation; conversion restores a basis;
    the matdyn reader returns the printed fields.
    Models: theories/EvecSortModel.v, Disp2EigModel.v, MatdynModel.v (tied to /repo by the
    correspondence run of tools/props/c20.py).  Lemmas: EvecSort.v, Disp2Eig.v, Matdyn.v. *)
From Coq Require Import Ascii String List Arith Bool QArith Reals Permutation.
From Cij Require Import Ops ROps EvecSortModel EvecSort Disp2EigModel Disp2Eig MatdynModel Matdyn.
Import ListNotations.

(* ------------------------------------------------------------------ evec_sort *)
(** any strict weak order, any n: strict ROW dominance of the planted permutation in a
    non-negative n x n matrix suffices *)
Theorem greedy_recovers_row_dominant :
  forall (T A : Type) (z : T) (lt : T -> T -> Prop) (gtb : T -> T -> bool),
    ord_ok lt gtb ->
    forall (n : nat) (M : list (list T)) (sigma : nat -> nat) (items : list A),
      length items = n -> shape n M -> perm_on n sigma ->
      (forall i j, (i < n)%nat -> (j < n)%nat -> ~ lt (ent z M i j) z) ->
      (forall i j, (i < n)%nat -> (j < n)%nat -> j <> sigma i -> lt (ent z M i j) (ent z M i (sigma i))) ->
      greedy z gtb items M = map (fun i => nth_error items (sigma i)) (seq 0 n).
Proof. exact (@greedy_recovers_row_dominant_sec). Qed.

(** DESIGN form, over Q *)
Theorem greedy_recovers_dominant_perm :
  forall (A : Type) (d : A) n (M : nat -> nat -> Q) (sigma : nat -> nat) (items : list A),
    length items = n -> perm_on n sigma -> dominant n M sigma ->
    greedy 0%Q Qgtb items (mat_of n M) = map (fun i => Some (nth (sigma i) items d)) (seq 0 n).
Proof. exact greedy_recovers_dominant_perm_l. Qed.

Theorem sort_result_is_permutation :
  forall (A : Type) (d : A) n (M : nat -> nat -> Q) (sigma : nat -> nat) (items : list A),
    length items = n -> perm_on n sigma -> dominant n M sigma ->
    exists out, greedy 0%Q Qgtb items (mat_of n M) = map Some out /\ Permutation items out.
Proof. exact sort_result_is_permutation_l. Qed.

(** the model function at the real instance *)
Theorem evec_sort_mat_recovers_R :
  forall (A : Type) n (a : list (list R)) (sigma : nat -> nat) (items : list A),
    length items = n -> shape n a -> perm_on n sigma ->
    (forall i j, (i < n)%nat -> (j < n)%nat -> (0 <= ent 0%R a i j)%R) ->
    (forall i j, (i < n)%nat -> (j < n)%nat -> j <> sigma i -> (ent 0%R a i j < ent 0%R a i (sigma i))%R) ->
    @evec_sort_mat R ROps A items a = map (fun i => nth_error items (sigma i)) (seq 0 n).
Proof. exact evec_sort_mat_recovers_R_l. Qed.

Theorem evec_sort_dimension_mismatch_rejected :
  forall (A : Type) (items : list A) (target base : list (list (R * R))),
    (length target <> length items \/ length base <> length items \/
     exists v, In v (target ++ base) /\ length v <> length items) ->
    @evec_sort R ROps A items target base = None.
Proof. exact evec_sort_mismatch_rejected_l. Qed.

(* ------------------------------------------------------------------ evec_disp2eig *)
Theorem disp2eig_unit_norm :
  forall (a : list (list R)) (mass : list R) (out : list (list R)),
    Forall (fun m => (0 < m)%R) mass ->
    @disp2eig R ROps a mass = Some out ->
    length out = length a /\
    forall i, (i < length a)%nat -> (exists x, In x (nth i a []) /\ x <> 0%R) ->
      @dot R ROps (nth i out []) (nth i out []) = 1%R.
Proof. exact disp2eig_unit_norm_l. Qed.

Theorem disp2eig_restores_basis :
  forall (mass : list R) (su : list (R * list R)),
    Forall (fun m => (0 < m)%R) mass -> Forall (good_row mass) su ->
    @disp2eig R ROps (displ mass su) mass = Some (restored su) /\
    ((forall i j, (i < length su)%nat -> (j < length su)%nat ->
        @dot R ROps (snd (nth i su (0%R, []))) (snd (nth j su (0%R, []))) = if (i =? j)%nat then 1%R else 0%R) ->
     forall i j, (i < length su)%nat -> (j < length su)%nat ->
        @dot R ROps (nth i (restored su) []) (nth j (restored su) []) = if (i =? j)%nat then 1%R else 0%R).
Proof.
  intros mass su Hm Hg. split.
  - exact (disp2eig_restores_l mass su Hm Hg).
  - apply restored_orthonormal_l. revert Hg. apply Forall_impl. intros p H; apply H.
Qed.

Theorem dimension_mismatch_rejected :
  (forall (a : list (list R)) (mass : list R),
     (exists row, In row a /\ length row <> (3 * length mass)%nat) -> @disp2eig R ROps a mass = None) /\
  (forall (a : list (list (R * R))) (mass : list R),
     (exists row, In row a /\ length row <> (3 * length mass)%nat) -> @disp2eig_c R ROps a mass = None).
Proof. exact (conj disp2eig_mismatch_rejected_l disp2eig_c_mismatch_rejected_l). Qed.

(* ------------------------------------------------------------------ evec_load *)
Theorem matdyn_roundtrip :
  forall nq np (d : list qpoint), well_formed nq np d ->
    parse_matdyn nq np (print_matdyn d) = Some d.
Proof. exact matdyn_roundtrip_l. Qed.

Print Assumptions greedy_recovers_row_dominant.
Print Assumptions greedy_recovers_dominant_perm.
Print Assumptions sort_result_is_permutation.
Print Assumptions evec_sort_mat_recovers_R.
Print Assumptions evec_sort_dimension_mismatch_rejected.
Print Assumptions disp2eig_unit_norm.
Print Assumptions disp2eig_restores_basis.
Print Assumptions dimension_mismatch_rejected.
Print Assumptions matdyn_roundtrip.
