(** C20 - eigenvector tools: sorting recovers the permutation; conversion restores a basis;
    the matdyn reader returns the printed fields.
    Models: theories/EvecSortModel.v, Disp2EigModel.v, MatdynModel.v (tied to /repo by the
    correspondence run of tools/props/c20.py).  Lemmas: EvecSort.v, Disp2Eig.v, Matdyn.v. *)
From Coq Require Import Ascii String List Arith Bool QArith Reals Permutation.
From Cij Require Import Ops ROps EvecSortModel EvecSort Disp2EigModel Disp2Eig MatdynModel Matdyn.
From Cij Require Import EvecPerturb Disp2EigC.
Import ListNotations.

(* ------------------------------------------------------------------ evec_sort *)
(** any strict weak order, any n: strict ROW dominance of the planted permutation in a
    non-negative n x n matrix suffices *)
Theorem greedy_recovers_row_dominant :
  forall (T A : Type) (z : T) (lt : T -> T -> Prop) (gtb : T -> T -> bool),
    ord_ok lt gtb ->
    forall (n : nat) (M : list (list T)) (sigma : nat -> nat) (items : list A),
      length items = n -> shape n M -> perm_on n sigma ->
      (forall i j, (i < n)%nat -> (j < n)%nat -> ~ lt (ent z M i j) z) ->
      (forall i j, (i < n)%nat -> (j < n)%nat -> j <> sigma i -> lt (ent z M i j) (ent z M i (sigma i))) ->
      greedy z gtb items M = map (fun i => nth_error items (sigma i)) (seq 0 n).
Proof. exact (@greedy_recovers_row_dominant_sec). Qed.

(** DESIGN form, over Q *)
Theorem greedy_recovers_dominant_perm :
  forall (A : Type) (d : A) n (M : nat -> nat -> Q) (sigma : nat -> nat) (items : list A),
    length items = n -> perm_on n sigma -> dominant n M sigma ->
    greedy 0%Q Qgtb items (mat_of n M) = map (fun i => Some (nth (sigma i) items d)) (seq 0 n).
Proof. exact greedy_recovers_dominant_perm_l. Qed.

Theorem sort_result_is_permutation :
  forall (A : Type) (d : A) n (M : nat -> nat -> Q) (sigma : nat -> nat) (items : list A),
    length items = n -> perm_on n sigma -> dominant n M sigma ->
    exists out, greedy 0%Q Qgtb items (mat_of n M) = map Some out /\ Permutation items out.
Proof. exact sort_result_is_permutation_l. Qed.

(** the model function at the real instance *)
Theorem evec_sort_mat_recovers_R :
  forall (A : Type) n (a : list (list R)) (sigma : nat -> nat) (items : list A),
    length items = n -> shape n a -> perm_on n sigma ->
    (forall i j, (i < n)%nat -> (j < n)%nat -> (0 <= ent 0%R a i j)%R) ->
    (forall i j, (i < n)%nat -> (j < n)%nat -> j <> sigma i -> (ent 0%R a i j < ent 0%R a i (sigma i))%R) ->
    @evec_sort_mat R ROps A items a = map (fun i => nth_error items (sigma i)) (seq 0 n).
Proof. exact evec_sort_mat_recovers_R_l. Qed.

Theorem evec_sort_dimension_mismatch_rejected :
  forall (A : Type) (items : list A) (target base : list (list (R * R))),
    (length target <> length items \/ length base <> length items \/
     exists v, In v (target ++ base) /\ length v <> length items) ->
    @evec_sort R ROps A items target base = None.
Proof. exact evec_sort_mismatch_rejected_l. Qed.

(* ------------------------------------------------------------------ evec_sort: perturbation => dominance *)
(** complex numbers are pairs (re, im); [cdot_conj b t] = sum_k conj(b_k) t_k and [cabs] are the
    model's own functions (EvecSortModel.overlap is built from them); [norm2_c v] = sum_k |v_k|^2;
    [vadd] / [vscale z] = componentwise sum / multiplication by the complex number z (EvecPerturb.v) *)

(** finite-sum Cauchy-Schwarz for complex vectors of any lengths: |<a, b>| <= ||a|| ||b|| *)
Theorem cauchy_schwarz_complex :
  forall a b : list (R * R),
    (@cabs R ROps (@cdot_conj R ROps a b) <= sqrt (@norm2_c R ROps a) * sqrt (@norm2_c R ROps b))%R.
Proof. exact cauchy_schwarz. Qed.

(** orthonormal base, permutation sigma, unit phases phi_i, perturbations of Euclidean norm <= eps < 1/2,
    target[sigma i] = phi_i * base[i] + delta_i  ==>  strict ROW dominance of sigma in the overlap matrix:
    M[i][sigma i] >= 1 - eps > eps >= M[i][j] for every j <> sigma i *)
Theorem perturbation_gives_dominance :
  forall n (base target : list (list (R * R))) (sigma : nat -> nat)
         (phi : nat -> R * R) (delta : nat -> list (R * R)) (eps : R),
    length base = n -> length target = n -> perm_on n sigma ->
    (forall i k, (i < n)%nat -> (k < n)%nat ->
       @cdot_conj R ROps (nth i base []) (nth k base []) = if (i =? k)%nat then (1, 0)%R else (0, 0)%R) ->
    (forall i, (i < n)%nat ->
       (fst (phi i) * fst (phi i) + snd (phi i) * snd (phi i) = 1)%R /\
       length (delta i) = length (nth i base []) /\
       (sqrt (@norm2_c R ROps (delta i)) <= eps)%R /\
       nth (sigma i) target [] = vadd (vscale (phi i) (nth i base [])) (delta i)) ->
    (eps < 1 / 2)%R ->
    forall i, (i < n)%nat ->
      (1 - eps <= ent 0%R (@overlap R ROps base target) i (sigma i))%R /\
      (eps < 1 - eps)%R /\
      forall j, (j < n)%nat -> j <> sigma i -> (ent 0%R (@overlap R ROps base target) i j <= eps)%R.
Proof. exact perturbation_gives_dominance_l. Qed.

(** end to end for the model function on real-number inputs: [evec_sort] accepts and returns
    items[sigma 0], ..., items[sigma (n-1)] *)
Theorem evec_sort_recovers_perturbed_permutation :
  forall (A : Type) (items : list A) n (base target : list (list (R * R))) (sigma : nat -> nat)
         (phi : nat -> R * R) (delta : nat -> list (R * R)) (eps : R),
    length items = n -> length base = n -> length target = n ->
    (forall v, In v (target ++ base) -> length v = n) ->
    perm_on n sigma ->
    (forall i k, (i < n)%nat -> (k < n)%nat ->
       @cdot_conj R ROps (nth i base []) (nth k base []) = if (i =? k)%nat then (1, 0)%R else (0, 0)%R) ->
    (forall i, (i < n)%nat ->
       (fst (phi i) * fst (phi i) + snd (phi i) * snd (phi i) = 1)%R /\
       length (delta i) = length (nth i base []) /\
       (sqrt (@norm2_c R ROps (delta i)) <= eps)%R /\
       nth (sigma i) target [] = vadd (vscale (phi i) (nth i base [])) (delta i)) ->
    (eps < 1 / 2)%R ->
    @evec_sort R ROps A items target base = Some (map (fun i => nth_error items (sigma i)) (seq 0 n)).
Proof. exact evec_sort_recovers_perturbed_permutation_l. Qed.

(** the same with phases and perturbations indexed by the target position j and an explicit inverse
    sinv of sigma:  target[j] = phi_j * base[sinv j] + delta_j *)
Theorem evec_sort_recovers_perturbed_permutation_by_position :
  forall (A : Type) (items : list A) n (base target : list (list (R * R))) (sigma sinv : nat -> nat)
         (phi : nat -> R * R) (delta : nat -> list (R * R)) (eps : R),
    length items = n -> length base = n -> length target = n ->
    (forall v, In v (target ++ base) -> length v = n) ->
    perm_on n sigma -> (forall j, (j < n)%nat -> (sinv j < n)%nat /\ sigma (sinv j) = j) ->
    (forall i k, (i < n)%nat -> (k < n)%nat ->
       @cdot_conj R ROps (nth i base []) (nth k base []) = if (i =? k)%nat then (1, 0)%R else (0, 0)%R) ->
    (forall j, (j < n)%nat ->
       (fst (phi j) * fst (phi j) + snd (phi j) * snd (phi j) = 1)%R /\
       length (delta j) = length (nth (sinv j) base []) /\
       (sqrt (@norm2_c R ROps (delta j)) <= eps)%R /\
       nth j target [] = vadd (vscale (phi j) (nth (sinv j) base [])) (delta j)) ->
    (eps < 1 / 2)%R ->
    @evec_sort R ROps A items target base = Some (map (fun i => nth_error items (sigma i)) (seq 0 n)).
Proof. exact evec_sort_recovers_perturbed_permutation_inv_l. Qed.

(** 5 % perturbations *)
Theorem evec_sort_recovers_5pct_perturbation :
  forall (A : Type) (items : list A) n (base target : list (list (R * R))) (sigma : nat -> nat)
         (phi : nat -> R * R) (delta : nat -> list (R * R)),
    length items = n -> length base = n -> length target = n ->
    (forall v, In v (target ++ base) -> length v = n) ->
    perm_on n sigma ->
    (forall i k, (i < n)%nat -> (k < n)%nat ->
       @cdot_conj R ROps (nth i base []) (nth k base []) = if (i =? k)%nat then (1, 0)%R else (0, 0)%R) ->
    (forall i, (i < n)%nat ->
       (fst (phi i) * fst (phi i) + snd (phi i) * snd (phi i) = 1)%R /\
       length (delta i) = length (nth i base []) /\
       (sqrt (@norm2_c R ROps (delta i)) <= 5 / 100)%R /\
       nth (sigma i) target [] = vadd (vscale (phi i) (nth i base [])) (delta i)) ->
    @evec_sort R ROps A items target base = Some (map (fun i => nth_error items (sigma i)) (seq 0 n)).
Proof. exact evec_sort_recovers_5pct_l. Qed.

(* ------------------------------------------------------------------ evec_disp2eig *)
Theorem disp2eig_unit_norm :
  forall (a : list (list R)) (mass : list R) (out : list (list R)),
    Forall (fun m => (0 < m)%R) mass ->
    @disp2eig R ROps a mass = Some out ->
    length out = length a /\
    forall i, (i < length a)%nat -> (exists x, In x (nth i a []) /\ x <> 0%R) ->
      @dot R ROps (nth i out []) (nth i out []) = 1%R.
Proof. exact disp2eig_unit_norm_l. Qed.

Theorem disp2eig_restores_basis :
  forall (mass : list R) (su : list (R * list R)),
    Forall (fun m => (0 < m)%R) mass -> Forall (good_row mass) su ->
    @disp2eig R ROps (displ mass su) mass = Some (restored su) /\
    ((forall i j, (i < length su)%nat -> (j < length su)%nat ->
        @dot R ROps (snd (nth i su (0%R, []))) (snd (nth j su (0%R, []))) = if (i =? j)%nat then 1%R else 0%R) ->
     forall i j, (i < length su)%nat -> (j < length su)%nat ->
        @dot R ROps (nth i (restored su) []) (nth j (restored su) []) = if (i =? j)%nat then 1%R else 0%R).
Proof.
  intros mass su Hm Hg. split.
  - exact (disp2eig_restores_l mass su Hm Hg).
  - apply restored_orthonormal_l. revert Hg. apply Forall_impl. intros p H; apply H.
Qed.

(** complex data ([disp2eig_c], rows of pairs (re, im); norm^2 = sum re^2 + im^2) *)
Theorem disp2eig_c_unit_norm :
  forall (a : list (list (R * R))) (mass : list R) (out : list (list (R * R))),
    Forall (fun m => (0 < m)%R) mass ->
    @disp2eig_c R ROps a mass = Some out ->
    length out = length a /\
    forall i, (i < length a)%nat -> (exists x, In x (nth i a []) /\ x <> (0, 0)%R) ->
      @norm2_c R ROps (nth i out []) = 1%R.
Proof. exact disp2eig_c_unit_norm_l. Qed.

(** a_i = s_i * M^(-1/2) u_i with complex s_i <> 0 and ||u_i|| = 1 ([displ_c]) gives (s_i/|s_i|) u_i
    ([restored_c]), of unit norm; and orthonormal u (Hermitian product) gives an orthonormal result *)
Theorem disp2eig_c_restores_basis :
  forall (mass : list R) (su : list ((R * R) * list (R * R))),
    Forall (fun m => (0 < m)%R) mass -> Forall (good_row_c mass) su ->
    @disp2eig_c R ROps (displ_c mass su) mass = Some (restored_c su) /\
    (forall i, (i < length su)%nat -> @norm2_c R ROps (nth i (restored_c su) []) = 1%R) /\
    ((forall i j, (i < length su)%nat -> (j < length su)%nat ->
        @cdot_conj R ROps (snd (nth i su ((0, 0)%R, []))) (snd (nth j su ((0, 0)%R, [])))
        = if (i =? j)%nat then (1, 0)%R else (0, 0)%R) ->
     forall i j, (i < length su)%nat -> (j < length su)%nat ->
        @cdot_conj R ROps (nth i (restored_c su) []) (nth j (restored_c su) [])
        = if (i =? j)%nat then (1, 0)%R else (0, 0)%R).
Proof.
  intros mass su Hm Hg. split; [|split].
  - exact (disp2eig_c_restores_l mass su Hm Hg).
  - exact (restored_c_unit_norm_l mass su Hg).
  - apply restored_c_orthonormal_l. revert Hg. apply Forall_impl. intros p H; apply H.
Qed.

Theorem dimension_mismatch_rejected :
  (forall (a : list (list R)) (mass : list R),
     (exists row, In row a /\ length row <> (3 * length mass)%nat) -> @disp2eig R ROps a mass = None) /\
  (forall (a : list (list (R * R))) (mass : list R),
     (exists row, In row a /\ length row <> (3 * length mass)%nat) -> @disp2eig_c R ROps a mass = None).
Proof. exact (conj disp2eig_mismatch_rejected_l disp2eig_c_mismatch_rejected_l). Qed.

(* ------------------------------------------------------------------ evec_load *)
Theorem matdyn_roundtrip :
  forall nq np (d : list qpoint), well_formed nq np d ->
    parse_matdyn nq np (print_matdyn d) = Some d.
Proof. exact matdyn_roundtrip_l. Qed.

Print Assumptions greedy_recovers_row_dominant.
Print Assumptions greedy_recovers_dominant_perm.
Print Assumptions sort_result_is_permutation.
Print Assumptions evec_sort_mat_recovers_R.
Print Assumptions evec_sort_dimension_mismatch_rejected.
Print Assumptions cauchy_schwarz_complex.
Print Assumptions perturbation_gives_dominance.
Print Assumptions evec_sort_recovers_perturbed_permutation.
Print Assumptions evec_sort_recovers_perturbed_permutation_by_position.
Print Assumptions evec_sort_recovers_5pct_perturbation.
Print Assumptions disp2eig_unit_norm.
Print Assumptions disp2eig_restores_basis.
Print Assumptions disp2eig_c_unit_norm.
Print Assumptions disp2eig_c_restores_basis.
Print Assumptions dimension_mismatch_rejected.
Print Assumptions matdyn_roundtrip.
