(** C07 - VRH averages, bounds and velocities are those of the full tensor in SI units.
    Theorems about theories/VRHModel.v (the model executed against the implementation by
    tools/props/c07.py) at the real-number instance ROps.  Proofs in VRH.v / VRHBounds.v. *)
From Coq Require Import Reals ZArith List Permutation.
From Cij Require Import Ops ROps VRHModel VRH VRHBounds.
Local Open Scope R_scope.

(** 1. the Voigt averages are the contractions C_iijj / 9 and (3 C_ijij - C_iijj) / 30 of the
       full stiffness tensor C_ijkl = c_(ij)(kl) *)
Theorem voigt_is_contraction : forall c : Z -> Z -> R, msym c ->
  bulk_voigt c = contr_iijj (full4 c) / 9 /\
  shear_voigt c = (3 * contr_ijij (full4 c) - contr_iijj (full4 c)) / 30.
Proof. exact voigt_is_contraction_l. Qed.

(** the Reuss averages are 1 / S_iijj and 15 / (6 S_ijij - 2 S_iijj) of the full compliance
    tensor S_ijkl = s_(ij)(kl) / (1, 2 or 4) *)
Theorem reuss_is_contraction : forall s : Z -> Z -> R, msym s ->
  bulk_reuss s = 1 / contr_iijj (compl4 s) /\
  shear_reuss s = 15 / (6 * contr_ijij (compl4 s) - 2 * contr_iijj (compl4 s)).
Proof. exact reuss_is_contraction_l. Qed.

Theorem hill_is_mean : forall c s : Z -> Z -> R,
  bulk_vrh c s = (bulk_voigt c + bulk_reuss s) / 2 /\
  shear_vrh c s = (shear_voigt c + shear_reuss s) / 2.
Proof. exact hill_is_mean_l. Qed.

(** 2. flagship: Reuss <= Hill <= Voigt for EVERY symmetric positive definite C and every S with
       S C = I (S is not assumed symmetric: that is derived) *)
Theorem reuss_le_hill_le_voigt : forall c s : Z -> Z -> R,
  msym c -> posdef c -> left_inverse s c ->
  0 < bulk_reuss s /\ 0 < shear_reuss s /\
  bulk_reuss s <= bulk_vrh c s <= bulk_voigt c /\
  shear_reuss s <= shear_vrh c s <= shear_voigt c.
Proof. exact reuss_le_hill_le_voigt_l. Qed.

Theorem inverse_of_symmetric_is_symmetric : forall c s : Z -> Z -> R,
  msym c -> left_inverse s c -> msym s.
Proof. exact inverse_symmetric. Qed.

(** the same for the matrix the implementation assembles from ANY key -> value table *)
Theorem reuss_le_hill_le_voigt_assembled : forall (tbl : list (Z * Z * R)) (s : Z -> Z -> R),
  posdef (assemble6 tbl) -> left_inverse s (assemble6 tbl) ->
  bulk_reuss s <= bulk_vrh (assemble6 tbl) s <= bulk_voigt (assemble6 tbl) /\
  shear_reuss s <= shear_vrh (assemble6 tbl) s <= shear_voigt (assemble6 tbl).
Proof. exact reuss_le_hill_le_voigt_assembled_l. Qed.

(** non-vacuity of the hypotheses, with a strict bound *)
Theorem hypotheses_satisfiable_C07 :
  exists c s : Z -> Z -> R, msym c /\ posdef c /\ left_inverse s c /\
    bulk_reuss s = 1 /\ bulk_voigt c = 10 / 9 /\ bulk_reuss s < bulk_voigt c.
Proof. exact hypotheses_satisfiable. Qed.

(** 3. the 6x6 assembly of _calculate_compliances, in any number domain: every cell (a,b) and (b,a)
       of a supplied key holds its value, cells of absent keys are zero, the result is symmetric and
       does not depend on the iteration order of the keys *)
Theorem assemble_symmetric_total : forall (F : Type) (OF : Ops F) (tbl : list (Z * Z * F)),
  keys_functional tbl ->
  (forall a b v, In (a, b, v) tbl -> assemble6 tbl a b = v /\ assemble6 tbl b a = v) /\
  (forall i j, (forall e, In e tbl -> covers (ekey e) i j = false) -> assemble6 tbl i j = zero) /\
  (forall i j, assemble6 tbl i j = assemble6 tbl j i) /\
  (forall tbl', Permutation tbl tbl' -> forall i j, assemble6 tbl' i j = assemble6 tbl i j).
Proof. intros F OF. exact assemble_symmetric_total_l. Qed.

(** tables with pairwise distinct canonical keys (a Python dict keyed by c_(a,b), a <= b) qualify *)
Theorem distinct_canonical_keys_are_functional : forall (F : Type) (OF : Ops F) (tbl : list (Z * Z * F)),
  NoDup (map ekey tbl) -> (forall e, In e tbl -> (fst (ekey e) <= snd (ekey e))%Z) -> keys_functional tbl.
Proof. intros F OF. exact nodup_keys_functional. Qed.

(** 4. velocities: with rho = (mass per cell) / V, rho v_s^2 = G_VRH and rho v_p^2 = K_VRH + 4/3 G_VRH
       (moduli converted by the factor ry), and mass per cell = M[g/mol] * 1e-3 / N_A *)
Theorem velocity_relations : forall (ry M V : R) (c s : Z -> Z -> R),
  0 < ry -> 0 < M -> 0 < V -> 0 <= shear_vrh c s -> 0 <= bulk_vrh c s + 4 / 3 * shear_vrh c s ->
  let rho := mass M / V in
  rho * (v_secondary ry M V c s)² = ry * shear_vrh c s /\
  rho * (v_primary ry M V c s)² = ry * (bulk_vrh c s + 4 / 3 * shear_vrh c s).
Proof. exact velocity_relations_l. Qed.

(** in SI: a0 = Bohr radius [m], ryJ = Rydberg energy [J]; density kg/m^3, velocity m/s, modulus Pa *)
Theorem velocity_relations_SI : forall (ryJ a0 M V : R) (c s : Z -> Z -> R),
  0 < ryJ -> 0 < a0 -> 0 < M -> 0 < V -> 0 <= shear_vrh c s -> 0 <= bulk_vrh c s + 4 / 3 * shear_vrh c s ->
  let ry := ryJ * 1e-6 in
  let rho := (M * 1e-3) / (6.02214076e23 * (V * a0 ^ 3)) in
  let pa := ryJ / a0 ^ 3 in
  rho * (1000 * v_secondary ry M V c s)² = shear_vrh c s * pa /\
  rho * (1000 * v_primary ry M V c s)² = (bulk_vrh c s + 4 / 3 * shear_vrh c s) * pa.
Proof. exact velocity_relations_SI_l. Qed.

Theorem unit_constants :
  (forall M : R, mass M = M * / 1000 / 6.02214076e23) /\
  ry_codata (OF := ROps) = 2.1798723611035e-18 * 1e-6.
Proof. split; [exact mass_value | exact ry_codata_value]. Qed.

Print Assumptions voigt_is_contraction.
Print Assumptions reuss_is_contraction.
Print Assumptions hill_is_mean.
Print Assumptions reuss_le_hill_le_voigt.
Print Assumptions inverse_of_symmetric_is_symmetric.
Print Assumptions reuss_le_hill_le_voigt_assembled.
Print Assumptions hypotheses_satisfiable_C07.
Print Assumptions assemble_symmetric_total.
Print Assumptions distinct_canonical_keys_are_functional.
Print Assumptions velocity_relations.
Print Assumptions velocity_relations_SI.
Print Assumptions unit_constants.

(** 5. the sign hypotheses of [velocity_relations] follow from positive definiteness (VRHPos.v) *)
From Cij Require VRHPos.
Theorem velocity_relations_for_posdef : forall (c s : Z -> Z -> R) (ry M V : R),
  msym c -> posdef c -> left_inverse s c -> 0 < ry -> 0 < M -> 0 < V ->
  let rho := mass M / V in
  rho * (v_secondary ry M V c s)² = ry * shear_vrh c s /\
  rho * (v_primary ry M V c s)² = ry * (bulk_vrh c s + 4 / 3 * shear_vrh c s) /\
  0 < v_primary ry M V c s /\ 0 < v_secondary ry M V c s.
Proof.
  intros c s ry M V Hc Hpd Hinv Hry HM HV rho.
  destruct (VRHPos.velocity_relations_posdef c s Hc Hpd Hinv ry M V Hry HM HV) as [A B].
  destruct (VRHPos.velocities_positive c s Hc Hpd Hinv ry M V Hry HM HV) as [P S].
  repeat split; assumption.
Qed.
Print Assumptions velocity_relations_for_posdef.
