(** C17 - placeholder, replaced below *)
From Coq Require Import ZArith List Bool.
From Cij Require Import TextModel QhaInputModel ElastDatModel.
