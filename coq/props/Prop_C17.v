(** C17 - input files round-trip: phonon data write/read (flagship), static table parse.
    Models: theories/TextModel.v, QhaInputModel.v, ElastDatModel.v (hand transcriptions of
    cij/io/traditional/qha_input.py and elast_dat.py, tied to the source on every run by
    tools/props/c17.py).  Proofs: theories/Text.v, QhaInput.v, ElastDat.v. *)
From Coq Require Import ZArith List Bool Strings.Byte.
From Cij Require Import VoigtBase TextModel Text QhaInputModel QhaInput ElastDatModel ElastDat.
Import ListNotations.
Local Open Scope Z_scope.

(** 1. write_energy then read_energy is the identity on every data set whose numbers carry the
    written number of decimals: any nv, nq, np, any magnitudes and signs; nm, na >= 0; the comment
    line must not itself match the 5-integer header pattern. *)
Theorem qha_roundtrip :
  forall comment d, comment_ok comment -> well_formed d -> at_written_precision d ->
    parse_qha (print_qha comment d) = Some d.
Proof. exact qha_roundtrip_l. Qed.

(** 2. for arbitrary decimals (hence for every finite binary64 value) the parse is the data
    rounded half-even to the written decimals *)
Theorem qha_roundtrip_rounding :
  forall comment d, comment_ok comment -> well_formed d ->
    parse_qha (print_qha comment d) = Some (round_qha d).
Proof. exact qha_roundtrip_rounding_l. Qed.

(** 1'. the same at the level of the file contents (lines joined with "\n" and split again) *)
Theorem qha_roundtrip_text :
  forall comment d, nl_free comment -> comment_ok comment -> well_formed d -> at_written_precision d ->
    parse_qha_text (print_qha_text comment d) = Some d.
Proof. exact qha_roundtrip_text_l. Qed.

(** non-vacuity: the default comment is admissible, and a data set with 2 volumes, 2 q-points,
    3 modes, both signs, 0, +-1e5 satisfies the hypotheses *)
Example default_comment_admissible : comment_ok default_comment /\ nl_free default_comment.
Proof. exact default_comment_ok. Qed.
Example qha_roundtrip_example :
  parse_qha_text (print_qha_text default_comment example_qha) = Some example_qha.
Proof.
  apply qha_roundtrip_text; try apply default_comment_ok; apply example_qha_ok.
Qed.

(** 3. static tables.  (a) any white-space layout of a line gives back its tokens; (b) a label
    <digit-free prefix><a><b> is keyed by the canonical key of the unordered Voigt pair {a,b}, whatever
    the prefix and letter case, either index order, and the 4-index spelling gives the same key;
    labels without digits stay string keys; (c) with pairwise different keys the row dictionary
    is the list of (key, value) in column order; (d) the reader returns exactly the tabulated vref,
    nv, cellmass, rows and lattice parameters, with or without lattice block. *)
Theorem elast_tokens_any_layout :
  forall fs trail, fields_ok fs -> all_space trail -> tokens (render_fields fs trail) = map snd fs.
Proof. exact tokens_render. Qed.
Theorem elast_key_any_prefix :
  forall p a b, nodigit p -> In a r6 -> In b r6 ->
  exists k, find_modulus_key (p ++ [digit_byte a; digit_byte b]) = Some (KMod k) /\
            find_modulus_key (p ++ [digit_byte b; digit_byte a]) = Some (KMod k) /\
            key_voigt k = (Z.min a b, Z.max a b).
Proof. exact find_modulus_key_voigt. Qed.
Theorem elast_key_standard_spelling :
  forall p i j k l, nodigit p -> In i r3 -> In j r3 -> In k r3 -> In l r3 ->
  find_modulus_key (p ++ map digit_byte [i; j; k; l]) =
  find_modulus_key (p ++ map digit_byte [vidx i j; vidx k l]).
Proof. exact find_modulus_key_standard. Qed.
Theorem elast_label_without_digits : forall tok, nodigit tok -> find_modulus_key tok = Some (KStr tok).
Proof. exact find_modulus_key_label. Qed.
Theorem elast_row_dict :
  forall (l : list (key * dec)), keys_distinct (map fst l) -> dict_of l = l.
Proof. exact (@dict_of_distinct dec). Qed.
Theorem elast_parse_spec :
  forall hdr l1 l2 rowlines rest tv tn tm extra vref n mass keys rows lat,
  tokens l1 = tv :: tn :: tm :: extra ->
  parse_dec tv = Some vref -> parse_int tn = Some n -> parse_dec tm = Some mass ->
  map_opt find_modulus_key (tokens l2) = Some keys ->
  length rowlines = Z.to_nat n ->
  Forall2 (fun l r => floats_of l = Some (fst r :: snd r)) rowlines rows ->
  lattice_block (Z.to_nat n) rest lat ->
  parse_elast (hdr :: l1 :: l2 :: rowlines ++ rest)
  = Some (mkelast vref n mass (map (row_of keys) rows) lat).
Proof. exact elast_parse_spec_l. Qed.
Example elast_parse_example :
  parse_elast ([] :: ex_l1 :: ex_l2 :: [ex_r1; ex_r2] ++ [ex_sep; ex_a1; ex_a2])
  = Some (mkelast (mkdec 1005 1) 2 (mkdec 5025 2) (map (row_of ex_keys) ex_rows)
       [[mkdec 10 1; mkdec 25 1]; [mkdec 15 1; mkdec 3 0]]).
Proof. exact elast_example. Qed.

(** 4. shape of the fill output: same two header lines, a table with the same number of rows and
    the same volume column, the remainder unchanged => it parses to the same vref, nv, cellmass,
    volumes and lattice parameters (the filled values themselves are checked on the implementation) *)
Theorem fill_cli_structure :
  forall hdr l1 l2 l2' rowlines rowlines' rest tv tn tm extra vref n mass keys keys' rows rows' lat,
  tokens l1 = tv :: tn :: tm :: extra ->
  parse_dec tv = Some vref -> parse_int tn = Some n -> parse_dec tm = Some mass ->
  map_opt find_modulus_key (tokens l2) = Some keys ->
  map_opt find_modulus_key (tokens l2') = Some keys' ->
  length rowlines = Z.to_nat n -> length rowlines' = Z.to_nat n ->
  Forall2 (fun l r => floats_of l = Some (fst r :: snd r)) rowlines rows ->
  Forall2 (fun l r => floats_of l = Some (fst r :: snd r)) rowlines' rows' ->
  map fst rows' = map fst rows ->
  lattice_block (Z.to_nat n) rest lat ->
  exists e e',
    parse_elast (hdr :: l1 :: l2 :: rowlines ++ rest) = Some e /\
    parse_elast (hdr :: l1 :: l2' :: rowlines' ++ rest) = Some e' /\
    e_vref e' = e_vref e /\ e_nv e' = e_nv e /\ e_mass e' = e_mass e /\
    map fst (e_vols e') = map fst (e_vols e) /\ e_lat e' = e_lat e /\
    e_vols e' = map (row_of keys') rows'.
Proof. exact fill_cli_structure_l. Qed.

Print Assumptions qha_roundtrip.
Print Assumptions qha_roundtrip_rounding.
Print Assumptions qha_roundtrip_text.
Print Assumptions qha_roundtrip_example.
Print Assumptions elast_tokens_any_layout.
Print Assumptions elast_key_any_prefix.
Print Assumptions elast_key_standard_spelling.
Print Assumptions elast_row_dict.
Print Assumptions elast_parse_spec.
Print Assumptions elast_parse_example.
Print Assumptions fill_cli_structure.
