(** C11 - every interpolation method returns a consistent (omega, gamma, V dgamma/dV) triple.
    Theorems about the model coq/theories/{PolyModel,InterpModel}.v at the real instance
    (lemmas in Poly.v / Interp.v).  x = ln V throughout. *)
From Coq Require Import Reals ZArith List Bool.
From Coquelicot Require Import Coquelicot.
From Cij Require Import Ops ROps PolyModel InterpModel Poly Interp InterpMore.
Import ListNotations.
Local Open Scope R_scope.

(** 1a. numpy.polyder is the derivative of numpy.polyval, for every coefficient list *)
Theorem polyder_is_derive : forall (p : list R) (x : R),
  is_derive (polyvalR p) x (polyvalR (polyderR p) x).
Proof. exact polyder_is_derive_l. Qed.

(** 1b. lagrange, krogh, lsq_poly: for every order and data set the returned triples are those of
    ONE coefficient list p, and gamma = - d ln(omega)/d ln V, third = d gamma/d ln V of it *)
Theorem triple_consistent_poly :
  forall (lib : @library R) (m : method) (order : nat) (vols freqs : list R),
    poly_method m ->
    exists p : list R,
      (forall grid, @mode_fn R ROps lib m order vols freqs grid = map (fun v => poly_tripleR p (ln v)) grid) /\
      forall x,
        is_derive (fun t => ln (fst (fst (poly_tripleR p t)))) x (- snd (fst (poly_tripleR p x))) /\
        is_derive (fun t => snd (fst (poly_tripleR p t))) x (snd (poly_tripleR p x)).
Proof. exact triple_consistent_poly_l. Qed.

(** 2a. power-law data through lagrange / krogh: exact on the WHOLE grid (no range hypothesis on grid) *)
Theorem power_law_exact :
  forall (lib : @library R) (m : method) (order : nat) (vols : list R) (a b : R) (grid : list R),
    m = Lagrange \/ m = Krogh ->
    List.Forall (fun v => 0 < v) vols -> NoDup vols -> (2 <= length (subsample order vols))%nat ->
    @mode_fn R ROps lib m order vols (map (power_law a b) vols) grid =
    map (fun V => (exp (a + b * ln V), - b, 0)) grid.
Proof. exact power_law_exact_l. Qed.

(** 2b. uniqueness of the interpolating polynomial (coefficient lists of equal length agreeing on
    at least that many distinct points agree everywhere) *)
Theorem interpolant_unique : forall (p q pts : list R),
  length p = length q -> NoDup pts -> (length p <= length pts)%nat ->
  (forall t, In t pts -> polyvalR p t = polyvalR q t) -> forall x, polyvalR p x = polyvalR q x.
Proof. exact poly_unique. Qed.

(** 2c. least squares: ANY coefficient list c (order+1 entries) satisfying the normal equations
    A^T (A c - y) = 0 reproduces data that are a polynomial q of degree <= order sampled at more
    than order distinct abscissae - value, gamma and third component, at every x.
    (That the elimination in [lsq_coeffs] returns such a c is checked numerically by the tie.) *)
Theorem lsq_poly_exact_upto_order :
  forall (order : nat) (xs q c roots : list R),
    length q = S order -> length c = S order ->
    NoDup roots -> incl roots xs -> (order < length roots)%nat ->
    normal_eqs order xs (map (polyvalR q) xs) c ->
    forall x, poly_tripleR c x = poly_tripleR q x.
Proof. exact lsq_poly_exact_upto_order_l. Qed.

Theorem lsq_power_law_exact :
  forall (order : nat) (vols c : list R) (a b : R),
    (1 <= order)%nat -> length c = S order ->
    List.Forall (fun v => 0 < v) vols -> NoDup vols -> (order < length vols)%nat ->
    normal_eqs order (map ln vols) (map ln (map (power_law a b) vols)) c ->
    forall x, poly_tripleR c x = (exp (a + b * x), - b, 0).
Proof. exact lsq_power_law_exact_l. Qed.

(** 3. the double loop: Gamma acoustic entries are 0; every other entry [v][q][m] is the v-th
    result of the per-mode function on the input column [.][q][m] and depends on nothing else *)
Theorem loop_indexing :
  forall (mf : list R -> list R -> list R -> list (@triple R)) nq np vols freqs freqs' grid iv q m,
    (iv < length grid)%nat -> (q < nq)%nat -> (m < np)%nat ->
    (q = 0%nat /\ (m < 3)%nat -> get3 (@interpolate_modes R ROps mf nq np vols freqs grid) iv q m = zero3) /\
    (~ (q = 0%nat /\ (m < 3)%nat) ->
       get3 (@interpolate_modes R ROps mf nq np vols freqs grid) iv q m =
       nth iv (mf vols (mode_col freqs q m) grid) zero3) /\
    (mode_col freqs q m = mode_col freqs' q m ->
       get3 (@interpolate_modes R ROps mf nq np vols freqs grid) iv q m =
       get3 (@interpolate_modes R ROps mf nq np vols freqs' grid) iv q m).
Proof. intros. apply loop_indexing_l; assumption. Qed.

(** 4. plot selection: [plot_ok] decides the documented selection for any table read from the source ... *)
Theorem plot_select_spec_iff : forall tbl layout,
  plot_ok tbl layout = true <->
  (plot_select tbl layout 0 = Some QOmega /\ plot_select tbl layout 1 = Some QGamma /\
   plot_select tbl layout 2 = Some QVdGdV).
Proof. exact plot_select_spec_iff_l. Qed.
(** ... and the code as it is on the pinned tree is REFUTED (finding D6) *)
Theorem plot_select_refuted :
  plot_select pinned_table pinned_layout 1 = Some QVdGdV /\
  plot_select pinned_table pinned_layout 2 = Some QGamma /\
  exists n q, In (n, q) plot_spec /\ plot_select pinned_table pinned_layout n <> Some q.
Proof. exact plot_select_refuted_l. Qed.

(** 5. spline / pchip / akima / hermite: consistent IF the library's nu=1, nu=2 evaluations are
    the derivatives of its nu=0 evaluation *)
Theorem triple_consistent_oracle :
  forall (o : @interp_oracle R),
    (forall grid, @oracle_mode R ROps o grid = map (fun v => oracle_tripleR o (ln v)) grid) /\
    (library_contract o -> forall x,
        is_derive (fun t => ln (fst (fst (oracle_tripleR o t)))) x (- snd (fst (oracle_tripleR o x))) /\
        is_derive (fun t => snd (fst (oracle_tripleR o t))) x (snd (oracle_tripleR o x))).
Proof. exact triple_consistent_oracle_l. Qed.

Print Assumptions polyder_is_derive.
Print Assumptions triple_consistent_poly.
Print Assumptions power_law_exact.
Print Assumptions interpolant_unique.
Print Assumptions lsq_poly_exact_upto_order.
Print Assumptions lsq_power_law_exact.
Print Assumptions loop_indexing.
Print Assumptions plot_select_spec_iff.
Print Assumptions plot_select_refuted.
Print Assumptions triple_consistent_oracle.

(** ================= round 2: gaps of the first build closed (lemmas in InterpMore.v) ============== *)

(** 6a. the Newton / divided-difference form [interp_coeffs] (what scipy.interpolate.lagrange and
    KroghInterpolator represent) passes through every data point, for ARBITRARY data at pairwise
    distinct nodes *)
Theorem newton_form_interpolates : forall (xs ys : list R),
  NoDup xs -> length xs = length ys ->
  forall x y, In (x, y) (combine xs ys) -> polyvalR (@interp_coeffs R ROps xs ys) x = y.
Proof. exact interp_coeffs_interpolates. Qed.

(** 6b. ... hence [node_poly] (lagrange / krogh on the sub-sampled, flipped, logarithmic nodes)
    satisfies p(ln V_i) = ln omega_i at EVERY kept node, for arbitrary frequencies *)
Theorem node_poly_interpolates : forall (order : nat) (vols freqs : list R),
  List.Forall (fun v => 0 < v) vols -> NoDup vols -> length vols = length freqs ->
  forall i, (i < length (subsample order vols))%nat ->
    polyvalR (@node_poly R ROps order vols freqs) (ln (nth i (subsample order vols) 0)) =
    ln (nth i (subsample order freqs) 0).
Proof. exact node_poly_interpolates_l. Qed.

(** 6c. polynomial exactness for every degree < number of nodes: if ln(omega) is ANY polynomial q in
    ln V with at most as many coefficients as there are kept nodes, lagrange / krogh return the
    triple of q itself on the WHOLE grid *)
Theorem node_poly_exact_on_polynomials :
  forall (lib : @library R) (m : method) (order : nat) (vols q grid : list R),
    m = Lagrange \/ m = Krogh ->
    List.Forall (fun v => 0 < v) vols -> NoDup vols -> (length q <= length (subsample order vols))%nat ->
    @mode_fn R ROps lib m order vols (map (poly_law q) vols) grid =
    map (fun V => poly_tripleR q (ln V)) grid.
Proof. exact node_poly_exact_on_polynomials_l. Qed.

(** 7a. the sub-sampling [::ceil(n/order)] keeps at least two nodes for every order >= 2 (n >= 2) ... *)
Theorem subsample_at_least_two : forall (order : nat) (l : list R),
  (2 <= order)%nat -> (2 <= length l)%nat -> (2 <= length (subsample order l))%nat.
Proof. intros order l. exact (subsample_at_least_two_l order l). Qed.
(** ... at most [order] nodes ... *)
Theorem subsample_at_most_order : forall (order : nat) (l : list R),
  (1 <= order)%nat -> (length (subsample order l) <= order)%nat.
Proof. intros order l. exact (subsample_at_most_order_l order l). Qed.
(** ... exactly c = ceil(n/k) of them, k = ceil(n/order) ... *)
Theorem subsample_count : forall (order : nat) (l : list R),
  (1 <= order)%nat -> (1 <= length l)%nat ->
  let k := interval (length l) order in let c := length (subsample order l) in
  ((c - 1) * k < length l <= c * k)%nat.
Proof. intros order l. exact (subsample_count_l order l). Qed.
(** ... and the bound 2 <= order is sharp: order = 1 keeps the first volume only *)
Theorem subsample_order_one : forall (x : R) (t : list R), subsample 1 (x :: t) = [x].
Proof. exact subsample_order_one_single_node. Qed.

(** 7b. power_law_exact with its hypothesis discharged from the property's own quantifier
    (node-based orders >= 2 below the number of sampled volumes) *)
Theorem power_law_exact_admissible :
  forall (lib : @library R) (m : method) (order : nat) (vols : list R) (a b : R) (grid : list R),
    m = Lagrange \/ m = Krogh -> (2 <= order < length vols)%nat ->
    List.Forall (fun v => 0 < v) vols -> NoDup vols ->
    @mode_fn R ROps lib m order vols (map (power_law a b) vols) grid =
    map (fun V => (exp (a + b * ln V), - b, 0)) grid.
Proof.
  intros lib m order vols a b grid Hm [Ho Hn]. apply power_law_exact_admissible_l; auto.
  apply (Nat.le_trans _ order); [exact Ho | apply Nat.lt_le_incl; exact Hn].
Qed.

(** 8. least squares: two coefficient lists (order+1 entries each) that satisfy the normal equations
    of the same data with more than [order] distinct abscissae are EQUAL - the result of the
    (unverified) elimination is determined by the normal equations the tie checks *)
Theorem normal_eqs_solution_unique_fit :
  forall (order : nat) (xs ys c1 c2 roots : list R),
    length xs = length ys -> length c1 = S order -> length c2 = S order ->
    NoDup roots -> incl roots xs -> (order < length roots)%nat ->
    normal_eqs order xs ys c1 -> normal_eqs order xs ys c2 -> c1 = c2.
Proof. exact normal_eqs_solution_unique_fit_l. Qed.

Theorem lsq_result_determined :
  forall (order : nat) (xs ys c roots : list R),
    length xs = length ys -> length c = S order -> length (@lsq_coeffs R ROps order xs ys) = S order ->
    NoDup roots -> incl roots xs -> (order < length roots)%nat ->
    normal_eqs order xs ys (@lsq_coeffs R ROps order xs ys) -> normal_eqs order xs ys c ->
    c = @lsq_coeffs R ROps order xs ys.
Proof. exact lsq_result_determined_l. Qed.

(** 9a. spline / pchip / akima / hermite: for ANY library the code's output is the post-processed
    (exp, -nu1, -nu2) triple of the ONE object it builds, and the triple is consistent at every
    point where that object's nu=1 / nu=2 evaluations are its first / second derivative *)
Theorem triple_consistent_library :
  forall (lib : @library R) (m : method) (order : nat) (vols freqs : list R),
    library_method m ->
    let o := lib_oracle lib m order vols freqs in
    (forall grid, @mode_fn R ROps lib m order vols freqs grid = map (fun v => oracle_tripleR o (ln v)) grid) /\
    (forall x, is_derive (o_val o) x (o_d1 o x) -> is_derive (o_d1 o) x (o_d2 o x) ->
        is_derive (fun t => ln (fst (fst (oracle_tripleR o t)))) x (- snd (fst (oracle_tripleR o x))) /\
        is_derive (fun t => snd (fst (oracle_tripleR o t))) x (snd (oracle_tripleR o x))).
Proof. exact triple_consistent_library_l. Qed.

(** 9b. non-vacuity: the polynomial library satisfies the contract for the oracle shape of each of
    the four library methods, and with it all four are exact on polynomial / power-law data *)
Theorem spline_contract_on_polynomial_oracle :
  forall (m : method) (order : nat) (vols freqs : list R),
    library_method m -> library_contract (lib_oracle poly_lib m order vols freqs).
Proof. exact spline_contract_on_polynomial_oracle_l. Qed.

Theorem library_shape_exact_on_polynomial_oracle :
  forall (m : method) (order : nat) (vols q grid : list R),
    library_method m ->
    List.Forall (fun v => 0 < v) vols -> NoDup vols -> (length q <= length (lib_nodes m order vols))%nat ->
    @mode_fn R ROps poly_lib m order vols (map (poly_law q) vols) grid =
    map (fun V => poly_tripleR q (ln V)) grid.
Proof. exact library_shape_exact_on_polynomial_oracle_l. Qed.

(** 9c. why 9a is pointwise: a C^1 piecewise-polynomial oracle (the shape of pchip / akima: pieces
    joined C^1 at the breakpoints) satisfies the hypotheses of 9a at every point that is not a
    breakpoint, but NOT the global [library_contract] of theorem 5 *)
Theorem c1_piecewise_oracle_pointwise_contract : forall x : R, x <> 0 ->
  is_derive (o_val c1_oracle) x (o_d1 c1_oracle x) /\ is_derive (o_d1 c1_oracle) x (o_d2 c1_oracle x).
Proof. exact c1_oracle_pointwise. Qed.
Theorem c1_piecewise_oracle_not_global_contract : ~ library_contract c1_oracle.
Proof. exact c1_oracle_not_global. Qed.

Print Assumptions newton_form_interpolates.
Print Assumptions node_poly_interpolates.
Print Assumptions node_poly_exact_on_polynomials.
Print Assumptions subsample_at_least_two.
Print Assumptions subsample_at_most_order.
Print Assumptions subsample_count.
Print Assumptions subsample_order_one.
Print Assumptions power_law_exact_admissible.
Print Assumptions normal_eqs_solution_unique_fit.
Print Assumptions lsq_result_determined.
Print Assumptions triple_consistent_library.
Print Assumptions spline_contract_on_polynomial_oracle.
Print Assumptions library_shape_exact_on_polynomial_oracle.
Print Assumptions c1_piecewise_oracle_pointwise_contract.
Print Assumptions c1_piecewise_oracle_not_global_contract.
