From Coq Require Import ZArith List Bool.
From Cij Require Import InterpModel.
