(** C11 - every interpolation method returns a consistent (omega, gamma, V dgamma/dV) triple.
    Theorems about the model coq/theories/{PolyModel,InterpModel}.v at the real instance
    (lemmas in Poly.v / Interp.v).  x = ln V throughout. *)
From Coq Require Import Reals ZArith List Bool.
From Coquelicot Require Import Coquelicot.
From Cij Require Import Ops ROps PolyModel InterpModel Poly Interp.
Import ListNotations.
Local Open Scope R_scope.

(** 1a. numpy.polyder is the derivative of numpy.polyval, for every coefficient list *)
Theorem polyder_is_derive : forall (p : list R) (x : R),
  is_derive (polyvalR p) x (polyvalR (polyderR p) x).
Proof. exact polyder_is_derive_l. Qed.

(** 1b. lagrange, krogh, lsq_poly: for every order and data set the returned triples are those of
    ONE coefficient list p, and gamma = - d ln(omega)/d ln V, third = d gamma/d ln V of it *)
Theorem triple_consistent_poly :
  forall (lib : @library R) (m : method) (order : nat) (vols freqs : list R),
    poly_method m ->
    exists p : list R,
      (forall grid, @mode_fn R ROps lib m order vols freqs grid = map (fun v => poly_tripleR p (ln v)) grid) /\
      forall x,
        is_derive (fun t => ln (fst (fst (poly_tripleR p t)))) x (- snd (fst (poly_tripleR p x))) /\
        is_derive (fun t => snd (fst (poly_tripleR p t))) x (snd (poly_tripleR p x)).
Proof. exact triple_consistent_poly_l. Qed.

(** 2a. power-law data through lagrange / krogh: exact on the WHOLE grid (no range hypothesis on grid) *)
Theorem power_law_exact :
  forall (lib : @library R) (m : method) (order : nat) (vols : list R) (a b : R) (grid : list R),
    m = Lagrange \/ m = Krogh ->
    List.Forall (fun v => 0 < v) vols -> NoDup vols -> (2 <= length (subsample order vols))%nat ->
    @mode_fn R ROps lib m order vols (map (power_law a b) vols) grid =
    map (fun V => (exp (a + b * ln V), - b, 0)) grid.
Proof. exact power_law_exact_l. Qed.

(** 2b. uniqueness of the interpolating polynomial (coefficient lists of equal length agreeing on
    at least that many distinct points agree everywhere) *)
Theorem interpolant_unique : forall (p q pts : list R),
  length p = length q -> NoDup pts -> (length p <= length pts)%nat ->
  (forall t, In t pts -> polyvalR p t = polyvalR q t) -> forall x, polyvalR p x = polyvalR q x.
Proof. exact poly_unique. Qed.

(** 2c. least squares: ANY coefficient list c (order+1 entries) satisfying the normal equations
    A^T (A c - y) = 0 reproduces data that are a polynomial q of degree <= order sampled at more
    than order distinct abscissae - value, gamma and third component, at every x.
    (That the elimination in [lsq_coeffs] returns such a c is checked numerically by the tie.) *)
Theorem lsq_poly_exact_upto_order :
  forall (order : nat) (xs q c roots : list R),
    length q = S order -> length c = S order ->
    NoDup roots -> incl roots xs -> (order < length roots)%nat ->
    normal_eqs order xs (map (polyvalR q) xs) c ->
    forall x, poly_tripleR c x = poly_tripleR q x.
Proof. exact lsq_poly_exact_upto_order_l. Qed.

Theorem lsq_power_law_exact :
  forall (order : nat) (vols c : list R) (a b : R),
    (1 <= order)%nat -> length c = S order ->
    List.Forall (fun v => 0 < v) vols -> NoDup vols -> (order < length vols)%nat ->
    normal_eqs order (map ln vols) (map ln (map (power_law a b) vols)) c ->
    forall x, poly_tripleR c x = (exp (a + b * x), - b, 0).
Proof. exact lsq_power_law_exact_l. Qed.

(** 3. the double loop: Gamma acoustic entries are 0; every other entry [v][q][m] is the v-th
    result of the per-mode function on the input column [.][q][m] and depends on nothing else *)
Theorem loop_indexing :
  forall (mf : list R -> list R -> list R -> list (@triple R)) nq np vols freqs freqs' grid iv q m,
    (iv < length grid)%nat -> (q < nq)%nat -> (m < np)%nat ->
    (q = 0%nat /\ (m < 3)%nat -> get3 (@interpolate_modes R ROps mf nq np vols freqs grid) iv q m = zero3) /\
    (~ (q = 0%nat /\ (m < 3)%nat) ->
       get3 (@interpolate_modes R ROps mf nq np vols freqs grid) iv q m =
       nth iv (mf vols (mode_col freqs q m) grid) zero3) /\
    (mode_col freqs q m = mode_col freqs' q m ->
       get3 (@interpolate_modes R ROps mf nq np vols freqs grid) iv q m =
       get3 (@interpolate_modes R ROps mf nq np vols freqs' grid) iv q m).
Proof. intros. apply loop_indexing_l; assumption. Qed.

(** 4. plot selection: [plot_ok] decides the documented selection for any table read from the source ... *)
Theorem plot_select_spec_iff : forall tbl layout,
  plot_ok tbl layout = true <->
  (plot_select tbl layout 0 = Some QOmega /\ plot_select tbl layout 1 = Some QGamma /\
   plot_select tbl layout 2 = Some QVdGdV).
Proof. exact plot_select_spec_iff_l. Qed.
(** ... and the code as it is on the pinned tree is REFUTED (finding D6) *)
Theorem plot_select_refuted :
  plot_select pinned_table pinned_layout 1 = Some QVdGdV /\
  plot_select pinned_table pinned_layout 2 = Some QGamma /\
  exists n q, In (n, q) plot_spec /\ plot_select pinned_table pinned_layout n <> Some q.
Proof. exact plot_select_refuted_l. Qed.

(** 5. spline / pchip / akima / hermite: consistent IF the library's nu=1, nu=2 evaluations are
    the derivatives of its nu=0 evaluation *)
Theorem triple_consistent_oracle :
  forall (o : @interp_oracle R),
    (forall grid, @oracle_mode R ROps o grid = map (fun v => oracle_tripleR o (ln v)) grid) /\
    (library_contract o -> forall x,
        is_derive (fun t => ln (fst (fst (oracle_tripleR o t)))) x (- snd (fst (oracle_tripleR o x))) /\
        is_derive (fun t => snd (fst (oracle_tripleR o t))) x (snd (oracle_tripleR o x))).
Proof. exact triple_consistent_oracle_l. Qed.

Print Assumptions polyder_is_derive.
Print Assumptions triple_consistent_poly.
Print Assumptions power_law_exact.
Print Assumptions interpolant_unique.
Print Assumptions lsq_poly_exact_upto_order.
Print Assumptions lsq_power_law_exact.
Print Assumptions loop_indexing.
Print Assumptions plot_select_spec_iff.
Print Assumptions plot_select_refuted.
Print Assumptions triple_consistent_oracle.
