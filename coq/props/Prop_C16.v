(** C16 - first version: regenerated-value facts only (extended below). *)
From Coq Require Import ZArith List Bool String.
From Cij Require Import JsonModel SchemaModel.
From CijGen Require Import Gen_schema Gen_defaults.
Import ListNotations.
Local Open Scope string_scope.

Theorem schema_wellformed : schema_wf definitions root = true.
Proof. vm_compute. reflexivity. Qed.
Print Assumptions schema_wellformed.
Theorem defaults_valid : validate definitions root default_settings = true.
Proof. vm_compute. reflexivity. Qed.
Print Assumptions defaults_valid.
Theorem examples_valid : forall n e, In (n, e) examples -> validate definitions root e = true.
Proof.
  assert (H : forallb (fun p => validate definitions root (snd p)) examples = true) by (vm_compute; reflexivity).
  intros n e Hin. rewrite forallb_forall in H. exact (H (n, e) Hin).
Qed.
Print Assumptions examples_valid.
