(** C16 - effective configuration = user settings over packaged defaults; invalid rejected.

    Part A (merge): statements about the hand-transcribed model [update_config] (JsonModel.v, code after
    the repair e564612),
    proved in Json.v by structural induction, for EVERY enumeration order of the key set.
    Part B (validation): re-proved on every run against Gen_schema.v / Gen_defaults.v, which are
    regenerated from cij/data/schema/config.schema.json, cij/data/default/settings.yaml and
    examples/*/settings.yaml. *)
From Coq Require Import ZArith List Bool String Permutation.
From Cij Require Import JsonModel SchemaModel Json Schema.
From CijGen Require Import Gen_schema Gen_defaults.
Import ListNotations.
Local Open Scope string_scope.

(* ------------------------------------------------------------------------------------------ *)
(** * Part A: the merge *)

(** [key_order ord]: ord enumerates each key of the list once, in any order (Python set iteration). *)

(** A0. merge_total, at full strength: on EVERY pair of dicts (any nesting, any clash of dict and
    non-dict values in either direction) the merge returns.  ([None] remains only for a non-dict
    ARGUMENT, where Python raises AttributeError on `.keys()`.) *)
Theorem merge_total : forall ord, key_order ord -> forall u d, is_obj u = true -> is_obj d = true ->
  exists r, update_config ord u d = Some r.
Proof. intros ord H. exact (merge_total_l ord H). Qed.
Print Assumptions merge_total.

(** A1. merge_spec, for all pairs of dicts, no side condition.  The leaves (non-dict values) of the
    result are exactly the user's leaves, at every depth - a user subtree given where the default
    holds a non-dict value is kept whole - plus the default leaves the user says nothing about
    ([unspecified u p]: walking down p in u falls off at a dict that lacks the next key); ... *)
Theorem merge_spec_leaves : forall ord, key_order ord -> forall u d r, update_config ord u d = Some r ->
  forall p v, leaf_at r p v <-> leaf_at u p v \/ (leaf_at d p v /\ unspecified u p).
Proof. intros ord H u d r Hu p v. exact (merge_leaves_l ord H p u d r v Hu). Qed.
Print Assumptions merge_spec_leaves.

(** ... the key set is the union of the key sets at every path where both inputs hold a dict, ... *)
Theorem merge_spec_keys : forall ord, key_order ord -> forall u d r, update_config ord u d = Some r ->
  forall p us ds, get_path p u = Some (JObj us) -> get_path p d = Some (JObj ds) ->
  exists rs, get_path p r = Some (JObj rs) /\ forall k, In k (keys rs) <-> In k (keys us) \/ In k (keys ds).
Proof. intros ord H u d r Hu p us ds. exact (merge_keys_l ord H p u d r us ds Hu). Qed.
Print Assumptions merge_spec_keys.

(** ... and no key path of the result is absent from both inputs. *)
Theorem merge_spec_no_other_keys : forall ord, key_order ord -> forall u d r, update_config ord u d = Some r ->
  forall p x, get_path p r = Some x -> get_path p u <> None \/ get_path p d <> None.
Proof. intros ord H u d r Hu p x. exact (merge_no_other_keys_l ord H p u d r x Hu). Qed.
Print Assumptions merge_spec_no_other_keys.

(** A3. Idempotence, and the two identities ([jeq]: equality of trees with dicts as finite maps). *)
Theorem merge_idempotent : forall ord, key_order ord -> forall u d r, update_config ord u d = Some r ->
  exists r', update_config ord r d = Some r' /\ jeq r' r.
Proof. intros ord H. exact (merge_idempotent_l ord H). Qed.
Print Assumptions merge_idempotent.
Theorem merge_empty_default : forall ord, key_order ord -> forall us,
  exists r, update_config ord (JObj us) (JObj []) = Some r /\ jeq r (JObj us).
Proof. intros ord H. exact (merge_empty_default_l ord H). Qed.
Print Assumptions merge_empty_default.
Theorem merge_empty_user : forall ord, key_order ord -> forall ds,
  exists r, update_config ord (JObj []) (JObj ds) = Some r /\ jeq r (JObj ds).
Proof. intros ord H. exact (merge_empty_user_l ord H). Qed.
Print Assumptions merge_empty_user.

(** A4. The result does not depend on the enumeration order of the key set (hash seed). *)
Theorem merge_order_independent : forall ord ord', key_order ord -> key_order ord' ->
  forall u d, orel jeq (update_config ord u d) (update_config ord' u d).
Proof. intros ord ord' H H'. exact (merge_order_independent_l ord H ord' H'). Qed.
Print Assumptions merge_order_independent.
Example key_orders_exist : key_order dedup /\ key_order (fun l => rev (dedup l)).
Proof. split; [exact key_order_dedup | exact key_order_rev]. Qed.

(** A5. HISTORY: before the repair e564612 (defect D11) the merge was not total: {a:{b:1}} over {a:2}
    raised AttributeError; the repaired function keeps the user's subtree on that input. *)
Theorem merge_total_refuted_before_fix :
  exists u d, wf u = true /\ wf d = true /\ is_obj u = true /\ is_obj d = true /\
              update_config_before_fix dedup u d = None /\ update_config dedup u d = Some u.
Proof. exact merge_total_refuted_before_fix_l. Qed.
Print Assumptions merge_total_refuted_before_fix.

(** the effective configuration of every VALID configuration exists (with the packaged defaults), and the
    former D11 witness - valid, with a dict where the default holds a list - keeps the user's subtree *)
Theorem apply_default_total : forall u, is_obj u = true -> exists r, apply_default_config default_settings u = Some r.
Proof.
  intros u Hu. apply (merge_total_l dedup key_order_dedup u default_settings Hu). vm_compute. reflexivity.
Qed.
Print Assumptions apply_default_total.
Definition d11_valid_config : json :=
  JObj [("qha", JObj []); ("elast", JObj []); ("output", JObj [("pressure_base", JObj [("cij", JBool true)])])].
Example former_d11_witness_merges :
  validate definitions root d11_valid_config = true /\
  match apply_default_config default_settings d11_valid_config with
  | Some r => get_path ["output"; "pressure_base"; "cij"] r = Some (JBool true)
  | None => False
  end.
Proof. vm_compute. split; reflexivity. Qed.

(** illustration: a nested pair with clashes in both directions, and the packaged files *)
Example merge_examples :
  ojeqb (update_config dedup ex_user ex_default) (update_config (fun l => rev (dedup l)) ex_user ex_default) = true /\
  forallb (fun e => wf (snd e)) examples = true.
Proof. vm_compute. split; reflexivity. Qed.

(* ------------------------------------------------------------------------------------------ *)
(** * Part B: validation against the regenerated schema *)

Theorem schema_wellformed : schema_wf definitions root = true.
Proof. vm_compute. reflexivity. Qed.
Print Assumptions schema_wellformed.

Definition resolve : string -> json -> bool :=
  fun n j => match lookup n definitions with Some t => validate0 t j | None => false end.

Ltac unfold_preds :=
  unfold is_string, is_boolean, is_object, is_number, number_ge, integer_ge, one_of, never,
         interpolators, systems.
(** leaf schema (type / enum / minimum only)  =  leaf predicate *)
Ltac leaf :=
  let x := fresh "x" in
  intros x; first
    [ reflexivity
    | rewrite validate_SObj, addl_true, props_nil; unfold_preds; destruct x; cbn;
      rewrite ?andb_true_r, ?orb_false_r; reflexivity ].
(** [Forall2] side condition of [props_fields] for concrete lists; [tac] proves the non-leaf entries *)
Ltac field_list tac :=
  repeat (constructor; [cbn [fst snd]; split; [reflexivity | first [leaf | tac]] | ]); constructor.
(** rewrite the `properties` part of the goal into the [fields] list found on the other side *)
Ltac use_fields r tac :=
  match goal with
  | |- context [fields ?specs ?l] => rewrite (props_fields r _ specs); [| field_list tac]
  end.
Ltac norm_obj :=
  cbn [type_ok existsb has_type required_ok forallb enum_ok minimum_ok ref_ok orb andb keys map fst];
  rewrite ?andb_true_r; try reflexivity.

Section WithResolver.
  Variable r : string -> json -> bool.

  Lemma mode_gamma_ok : forall t,
    lookup "elast_settings" definitions = Some t ->
    match t with
    | SObj _ _ props _ _ _ _ =>
        match lookup "mode_gamma" props with
        | Some s => forall x, validate_gen r s x = ModeGamma x
        | None => False
        end
    | _ => False
    end.
  Proof.
    intros t Ht. vm_compute in Ht. injection Ht as <-. cbn [lookup String.eqb Ascii.eqb Bool.eqb].
    intros x. rewrite validate_SObj, addl_true. destruct x; try reflexivity.
    unfold ModeGamma, object_with. use_fields r fail. norm_obj.
  Qed.
  Lemma symmetry_ok : forall t,
    lookup "elast_settings" definitions = Some t ->
    match t with
    | SObj _ _ props _ _ _ _ =>
        match lookup "symmetry" props with
        | Some s => forall x, validate_gen r s x = Symmetry x
        | None => False
        end
    | _ => False
    end.
  Proof.
    intros t Ht. vm_compute in Ht. injection Ht as <-. cbn [lookup String.eqb Ascii.eqb Bool.eqb].
    intros x. rewrite validate_SObj. destruct x; try reflexivity.
    rewrite addl_false. unfold Symmetry, object_with. use_fields r fail. norm_obj.
  Qed.
End WithResolver.

Lemma elast_settings_ok : forall t, lookup "elast_settings" definitions = Some t ->
  forall x, validate0 t x = ElastSettings x.
Proof.
  intros t Ht. pose proof (mode_gamma_ok (fun _ _ => false) t Ht) as MG.
  pose proof (symmetry_ok (fun _ _ => false) t Ht) as SY.
  vm_compute in Ht. injection Ht as <-. cbn [lookup String.eqb Ascii.eqb Bool.eqb] in MG, SY.
  intros x. unfold validate0. rewrite validate_SObj. destruct x; try reflexivity.
  rewrite addl_false. unfold ElastSettings, object_with.
  use_fields (fun (_ : string) (_ : json) => false) ltac:(first [exact MG | exact SY]). norm_obj.
Qed.
Lemma qha_settings_ok : forall t, lookup "qha_settings" definitions = Some t ->
  forall x, validate0 t x = QhaSettings x.
Proof.
  intros t Ht. vm_compute in Ht. injection Ht as <-.
  intros x. unfold validate0. rewrite validate_SObj, addl_true. destruct x; try reflexivity.
  unfold QhaSettings, object_with. use_fields (fun (_ : string) (_ : json) => false) fail. norm_obj.
Qed.

(** B1. validate_characterisation: on ALL trees, the regenerated schema accepts exactly [Spec]. *)
Theorem validate_characterisation : forall cfg, validate definitions root cfg = Spec cfg.
Proof.
  intros cfg. unfold validate. fold resolve. unfold root.
  assert (RQ : forall x, resolve "qha_settings" x = QhaSettings x).
  { intros x. unfold resolve. destruct (lookup "qha_settings" definitions) as [t|] eqn:E;
      [exact (qha_settings_ok t E x) | vm_compute in E; discriminate E]. }
  assert (RE : forall x, resolve "elast_settings" x = ElastSettings x).
  { intros x. unfold resolve. destruct (lookup "elast_settings" definitions) as [t|] eqn:E;
      [exact (elast_settings_ok t E x) | vm_compute in E; discriminate E]. }
  assert (SQ : forall x, validate_gen resolve
                 (SObj (Some [TObject]) [] [] None None (SBool true) (Some "qha_settings")) x = QhaSettings x).
  { intros x. rewrite validate_SObj, addl_true, props_nil. unfold ref_ok. rewrite RQ.
    destruct x; reflexivity. }
  assert (SE : forall x, validate_gen resolve
                 (SObj (Some [TObject]) [] [] None None (SBool true) (Some "elast_settings")) x = ElastSettings x).
  { intros x. rewrite validate_SObj, addl_true, props_nil. unfold ref_ok. rewrite RE.
    destruct x; reflexivity. }
  assert (section : forall s specs,
             (forall l, props_ok resolve s (JObj l) = fields specs l) ->
             forall x, validate_gen resolve (SObj (Some [TObject]) [] s None None (SBool true) None) x
                       = object_with (fields specs) x).
  { intros s specs H x. rewrite validate_SObj, addl_true. destruct x; try reflexivity.
    rewrite H. unfold object_with. norm_obj. }
  rewrite validate_SObj, addl_true. destruct cfg; try reflexivity.
  unfold Spec, object_with, has.
  use_fields resolve ltac:(apply section; intros l'; apply props_fields;
                           field_list ltac:(first [exact SQ | exact SE])).
  norm_obj.
Qed.
Print Assumptions validate_characterisation.
Example spec_satisfiable : Spec default_settings = true.
Proof. vm_compute. reflexivity. Qed.

(** B2. every rejection named in the property, for ALL configurations having the defect *)
Theorem missing_section_rejected : forall l k, k = "qha" \/ k = "elast" -> lookup k l = None ->
  validate definitions root (JObj l) = false.
Proof. intros l k Hk Hl. rewrite validate_characterisation. exact (Spec_rejects_missing_section l k Hk Hl). Qed.
Print Assumptions missing_section_rejected.
Theorem non_dict_rejected : forall cfg, is_obj cfg = false -> validate definitions root cfg = false.
Proof. intros cfg H. rewrite validate_characterisation. destruct cfg; try reflexivity. discriminate. Qed.
Print Assumptions non_dict_rejected.
(** [constraints] (Schema.v) lists, per documented key path, the predicate its value must satisfy:
    is_number / number_ge min / integer_ge min for the numeric settings, one_of for interpolator and
    system, is_boolean, is_string, is_object.  A value violating it - wrong type (a bool is not a
    number), non-integral for an integer field, below the minimum, not in the enumeration - is rejected. *)
Theorem bad_value_rejected : forall cfg path pred v,
  In (path, pred) constraints -> get_path path cfg = Some v -> pred v = false ->
  validate definitions root cfg = false.
Proof. intros cfg path pred v H1 H2 H3. rewrite validate_characterisation. exact (Spec_rejects_bad_value cfg path pred v H1 H2 H3). Qed.
Print Assumptions bad_value_rejected.
Theorem unknown_key_in_elast_settings_rejected : forall cfg l k,
  get_path ["elast"; "settings"] cfg = Some (JObj l) -> In k (keys l) ->
  ~ In k ["mode_gamma"; "symmetry"] -> validate definitions root cfg = false.
Proof. intros cfg l k H1 H2 H3. rewrite validate_characterisation. exact (Spec_rejects_unknown_key_elast cfg l k H1 H2 H3). Qed.
Print Assumptions unknown_key_in_elast_settings_rejected.
Theorem unknown_key_in_symmetry_rejected : forall cfg l k,
  get_path ["elast"; "settings"; "symmetry"] cfg = Some (JObj l) -> In k (keys l) ->
  ~ In k symmetry_keys -> validate definitions root cfg = false.
Proof. intros cfg l k H1 H2 H3. rewrite validate_characterisation. exact (Spec_rejects_unknown_key_symmetry cfg l k H1 H2 H3). Qed.
Print Assumptions unknown_key_in_symmetry_rejected.
(** instances spelled out: T_MIN below 0, a bool for DT, an unknown crystal system *)
Example t_min_negative_rejected : forall cfg z, (z < 0)%Z ->
  get_path ["qha"; "settings"; "T_MIN"] cfg = Some (JNum (NInt z)) -> validate definitions root cfg = false.
Proof.
  intros cfg z Hz Hp. apply (bad_value_rejected cfg _ (number_ge (NInt 0)) _ ltac:(cbn; tauto) Hp).
  apply below_minimum_rejected, int_below_minimum, Hz.
Qed.
Example bool_for_number_rejected : forall cfg b,
  get_path ["qha"; "settings"; "DT"] cfg = Some (JBool b) -> validate definitions root cfg = false.
Proof. intros cfg b Hp. apply (bad_value_rejected cfg _ is_number _ ltac:(cbn; tauto) Hp). reflexivity. Qed.
Example unknown_system_rejected : forall cfg s, ~ In s systems ->
  get_path ["elast"; "settings"; "symmetry"; "system"] cfg = Some (JStr s) -> validate definitions root cfg = false.
Proof.
  intros cfg s Hs Hp. apply (bad_value_rejected cfg _ (one_of systems) _ ltac:(cbn; tauto) Hp).
  apply unknown_enum_rejected, Hs.
Qed.

(** B2'. documented values are accepted: every documented interpolator x crystal system, with every
    numeric setting AT its documented minimum (integers also spelled as integral floats) *)
Definition full_cfg (as_float : bool) (interp system : string) : json :=
  let n (z : Z) := JNum (if as_float then NFlt z 0 else NInt z) in
  JObj [("qha", JObj [("input", JStr "input01");
                      ("settings", JObj [("NT", n 1%Z); ("DT", n 100%Z); ("T_MIN", n 0%Z); ("NTV", n 1%Z);
                                         ("P_MIN", n (-5)%Z); ("DELTA_P", JNum (NFlt 1 (-1))); ("DELTA_P_SAMPLE", n 1%Z);
                                         ("volume_ratio", n 1%Z); ("order", n 2%Z)])]);
        ("elast", JObj [("input", JStr "elast.dat");
                        ("settings", JObj [("mode_gamma", JObj [("interpolator", JStr interp); ("order", n 1%Z)]);
                                           ("symmetry", JObj [("system", JStr system); ("ignore_residuals", JBool false);
                                                              ("ignore_rank", JBool true);
                                                              ("drop_atol", JNum (NFlt 3022314549036573 (-78)));
                                                              ("residual_atol", n 0%Z)])])]);
        ("output", JObj [("pressure_base", JArr [JStr "cij"])])].
Theorem documented_values_accepted : forall f i s, In i interpolators -> In s systems ->
  validate definitions root (full_cfg f i s) = true.
Proof.
  assert (H : forallb (fun f => forallb (fun i => forallb (fun s => validate definitions root (full_cfg f i s))
                                                    systems) interpolators) [true; false] = true)
    by (vm_compute; reflexivity).
  intros f i s Hi Hs. rewrite forallb_forall in H.
  assert (Hf : In f [true; false]) by (destruct f; cbn; tauto).
  specialize (H f Hf). rewrite forallb_forall in H. specialize (H i Hi). rewrite forallb_forall in H. exact (H s Hs).
Qed.
Print Assumptions documented_values_accepted.

(** the boolean tree comparison used by the correspondence shards implies extensional equality *)
Theorem tie_comparison_sound : forall a b, jeqb a b = true -> jeq a b.
Proof. exact jeqb_sound. Qed.
Print Assumptions tie_comparison_sound.

(** B3. the shipped files validate (vm_compute on the regenerated values) *)
Theorem defaults_valid : validate definitions root default_settings = true.
Proof. vm_compute. reflexivity. Qed.
Print Assumptions defaults_valid.
Theorem examples_valid : forall n e, In (n, e) examples -> validate definitions root e = true.
Proof.
  assert (H : forallb (fun p => validate definitions root (snd p)) examples = true) by (vm_compute; reflexivity).
  intros n e Hin. rewrite forallb_forall in H. exact (H (n, e) Hin).
Qed.
Print Assumptions examples_valid.
Example examples_nonempty : examples <> [].
Proof. discriminate. Qed.
(** and the effective configuration of every shipped example exists and validates again *)
Theorem examples_effective_valid : forall n e, In (n, e) examples ->
  exists r, apply_default_config default_settings e = Some r /\ validate definitions root r = true.
Proof.
  assert (H : forallb (fun p => match apply_default_config default_settings (snd p) with
                                | Some r => validate definitions root r
                                | None => false
                                end) examples = true) by (vm_compute; reflexivity).
  intros n e Hin. rewrite forallb_forall in H. specialize (H (n, e) Hin). cbn [snd] in H.
  destruct (apply_default_config default_settings e) as [r|]; [|discriminate]. exists r. auto.
Qed.
Print Assumptions examples_effective_valid.
