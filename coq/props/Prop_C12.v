(** C12 - results are finite and real on the whole grid for every valid configuration.
    What is proved here (over R, about NonShearModel.v / ShearModel.v):
    the Bose factors written with exp(-Q) (the code on disk) equal the textbook exp(+Q) forms, are
    bounded (0 < Q1 < 1, 0 < Q2 < 4) and decay like Q e^-Q resp. Q^2 e^-Q; every thermal
    contribution is O(T) on T > 0 and hence tends to its T = 0 value 0 as T -> 0+ (c(T) -> c(0));
    the adiabatic gap likewise, both for the harmonic C_V(T) of the same spectrum (which itself -> 0)
    and for any C_V with bounded 1/C_V (the C_V that the code really uses comes from qha: measured);
    the shear solver
    divides by 1 and by a non-zero multiplicity only.
    Finite-ness in binary64 is NOT a theorem over R: it is the float instance of the same model
    run on every sampled grid (tie), and the evaluated Examples at the end. *)
From Coq Require Import Reals List ZArith Lra Lia.
Import ListNotations.
From Coquelicot Require Import Coquelicot.
From Cij Require Import Ops ROps FOps NonShearModel NonShear BoseModel Bose Voigt ShearModel.
Local Open Scope R_scope.

Theorem bose_forms_equal :
  forall q, 0 < q -> Q1_exp (OF:=ROps) q = Q1_neg (OF:=ROps) q /\ Q2_exp (OF:=ROps) q = Q2_neg (OF:=ROps) q.
Proof. exact bose_forms_equal_r. Qed.

Theorem thermal_bounds :
  forall q, 0 < q -> 0 < Q1_neg (OF:=ROps) q < 1 /\ 0 < Q2_neg (OF:=ROps) q < 4.
Proof. intros q Hq. split; [exact (Q1_bounds_l q Hq) | exact (Q2_bounds_l q Hq)]. Qed.

Theorem bose_decay :
  forall q, ln 2 <= q ->
    Q1_neg (OF:=ROps) q <= 2 * (q * exp (- q)) /\ Q2_neg (OF:=ROps) q <= 4 * (q * q * exp (- q)).
Proof. intros q Hq. split; [exact (Q1_decay_l q Hq) | exact (Q2_decay_l q Hq)]. Qed.

Section C12.
  Variable K : @consts R.
  Hypothesis Khdk : 0 < c_hdk K.
  Variable w : list R.
  Variable sp : list (list mode).      (* sp[q][m]; only the sampled values fr/ga/vd of each mode matter *)
  Variable na : Z.
  Hypothesis Hna : (0 < na)%Z.
  Hypothesis Hw : Rsum w <> 0.
  Hypothesis Hlen : List.Forall (fun r => length r = Z.to_nat (3 * na)) sp.

  (** explicit rate: |c_th(T)| <= C T on T > 0, C independent of T *)
  Theorem thermal_linear_bound :
    forall (lg : bool) (ei ej V : R) (fr ga vd : mode -> R), positive_spectrum sp fr ->
      exists C, forall T, 0 < T ->
        Rabs (thermal (OF:=ROps) K Q1_neg Q2_neg lg w na (sample sp fr) (sample sp ga) (sample sp vd) ei ej V T)
        <= C * T.
  Proof. intros. eapply thermal_lin0_l; eassumption. Qed.

  (** c_th(T) -> 0 = c_th(0) as T -> 0+ : the isothermal modulus is right-continuous at T = 0 *)
  Theorem thermal_vanishes :
    forall (lg : bool) (ei ej V : R) (fr ga vd : mode -> R), positive_spectrum sp fr ->
      filterlim (fun T => thermal (OF:=ROps) K Q1_neg Q2_neg lg w na (sample sp fr) (sample sp ga) (sample sp vd) ei ej V T)
                (at_right 0) (locally 0)
      /\ thermal (OF:=ROps) K Q1_neg Q2_neg lg w na (sample sp fr) (sample sp ga) (sample sp vd) ei ej V 0 = 0.
  Proof.
    intros. split; [apply lin0_lim; eapply thermal_lin0_l; eassumption | apply thermal_at_zero_T_l].
  Qed.

  Theorem isothermal_continuous_at_zero_T :
    forall (lg : bool) (ei ej V p pst : R) (fr ga vd : mode -> R), positive_spectrum sp fr ->
      filterlim (fun T => isothermal (OF:=ROps) K Q1_neg Q2_neg lg w na (sample sp fr) (sample sp ga) (sample sp vd) ei ej V T p pst)
                (at_right 0)
                (locally (isothermal (OF:=ROps) K Q1_neg Q2_neg lg w na (sample sp fr) (sample sp ga) (sample sp vd) ei ej V 0 p pst)).
  Proof. intros. eapply isothermal_right_continuous_l; eassumption. Qed.

  (** PARTIAL w.r.t. the code: C_V is an input of the contribution classes (taken from qha).  Here: any
      C_V(T) with bounded 1/C_V; below ([gap_vanishes]): the harmonic C_V of the same spectrum.  That the
      numerically differentiated C_V of qha behaves like either is measured, not proved. *)
  Theorem gap_vanishes_partial :
    forall (ei ej V : R) (fr ga : mode -> R) (cv : R -> R), positive_spectrum sp fr ->
      (exists M, forall T, 0 < T -> Rabs (/ cv T) <= M) ->
      filterlim (fun T => gap (OF:=ROps) K Q2_neg w na (sample sp fr) (sample sp ga) ei ej V T (cv T))
                (at_right 0) (locally 0)
      /\ gap (OF:=ROps) K Q2_neg w na (sample sp fr) (sample sp ga) ei ej V 0 (cv 0) = 0.
  Proof.
    intros ei ej V fr ga cv Hp Hcv. split; [apply lin0_lim; eapply gap_lin0_partial_l; eassumption |].
    apply gap_at_zero_T_l.
  Qed.

  (** the gap with the harmonic heat capacity of the SAME spectrum, C_V(T) = k sum_qm (w_q/W) Q2(Q_qm(T)) -> 0:
      the quotient is still O(T) (Cauchy-Schwarz-type bound |sum w Q2 g| <= max|g| sum w Q2), for
      non-negative weights and k_B > 0 *)
  Hypothesis Kk : 0 < c_k K.
  Hypothesis Hw0 : List.Forall (fun x => 0 <= x) w.
  Theorem gap_vanishes :
    forall (ei ej V : R) (fr ga : mode -> R), positive_spectrum sp fr ->
      filterlim (fun T => gap (OF:=ROps) K Q2_neg w na (sample sp fr) (sample sp ga) ei ej V T (cv_harmonic K w sp na fr T))
                (at_right 0) (locally 0)
      /\ (exists C, forall T, 0 < T ->
            Rabs (gap (OF:=ROps) K Q2_neg w na (sample sp fr) (sample sp ga) ei ej V T (cv_harmonic K w sp na fr T)) <= C * T)
      /\ gap (OF:=ROps) K Q2_neg w na (sample sp fr) (sample sp ga) ei ej V 0 (cv_harmonic K w sp na fr 0) = 0.
  Proof.
    intros ei ej V fr ga Hp.
    assert (L : lin0 (fun T => gap (OF:=ROps) K Q2_neg w na (sample sp fr) (sample sp ga) ei ej V T (cv_harmonic K w sp na fr T)))
      by (eapply gap_lin0_harmonic_l; eassumption).
    split; [apply lin0_lim, L | split; [exact L | apply gap_at_zero_T_l]].
  Qed.
End C12.

Theorem shear_finite :
  forall k, In k shear_keys ->
    mult k <> 0%nat /\ IZR (Z.of_nat (mult k)) <> 0 /\
    (let '(i, j) := std_of (fst k) in let '(p, q) := std_of (snd k) in
     fict (OF:=ROps) k i j * fict (OF:=ROps) k p q = 1).
Proof. exact shear_finite_l. Qed.

(** non-vacuity of the hypotheses *)
Example hypotheses_satisfiable :
  exists (sp : list (list mode)) (w : list R) (na : Z) (fr : mode -> R),
    (0 < na)%Z /\ Rsum w <> 0 /\ List.Forall (fun r => length r = Z.to_nat (3 * na)) sp /\ positive_spectrum sp fr.
Proof.
  set (m := {| om := fun _ : R => 100; om1 := fun _ => 0; om2 := fun _ => 0 |}).
  exists [[m; m; m; m; m; m]; [m; m; m; m; m; m]], [1; 3], 2%Z, (fun m => om m 1).
  split; [lia|]. split; [unfold Rsum; cbn; lra|]. split.
  - repeat (constructor; [reflexivity|]). constructor.
  - unfold positive_spectrum. cbn [phys_rows skipn].
    repeat (apply Forall_cons || apply Forall_nil); cbn; lra.
Qed.

(** evaluated Examples over binary64 (tests of the float instance, not theorems) *)
From Coq Require Import Bool PrimFloat.
Example bose_exp_form_overflows :
  Q2_exp (OF:=FOps) 710%float = PrimFloat.nan /\ Q2_exp (OF:=FOps) 700%float = PrimFloat.nan
  /\ Q2_exp (OF:=FOps) 0x1.afa2e4d0a5e8p+9%float = PrimFloat.nan
  /\ finite (Q2_exp (OF:=FOps) 690%float) = true /\ Q1_exp (OF:=FOps) 710%float = 0%float.
Proof. exact bose_exp_form_overflows_ex. Qed.
Example bose_neg_form_finite_sample :
  forallb (fun q => (finite (Q1_neg (OF:=FOps) q) && finite (Q2_neg (OF:=FOps) q) &&
                    PrimFloat.leb 0%float (Q1_neg (OF:=FOps) q) && PrimFloat.leb (Q1_neg (OF:=FOps) q) 1%float &&
                    PrimFloat.leb 0%float (Q2_neg (OF:=FOps) q) && PrimFloat.leb (Q2_neg (OF:=FOps) q) 4%float)%bool)
          bose_sample_args = true.
Proof. exact bose_neg_form_finite_sample_ex. Qed.

Print Assumptions bose_forms_equal.
Print Assumptions thermal_bounds.
Print Assumptions bose_decay.
Print Assumptions thermal_linear_bound.
Print Assumptions thermal_vanishes.
Print Assumptions isothermal_continuous_at_zero_T.
Print Assumptions gap_vanishes_partial.
Print Assumptions gap_vanishes.
Print Assumptions shear_finite.
(* the two float Examples depend on the kernel primitives of PrimFloat/PrimInt63 only (not printed) *)

(** averages and velocities are well defined and strictly positive wherever the adiabatic stiffness is positive
    definite (over R: no Reuss denominator vanishes, both velocity radicands are positive) - VRHPos.v *)
From Cij Require VRHModel VRH VRHBounds VRHPos.
Theorem averages_and_velocities_well_defined :
  forall (c s : Z -> Z -> R) (ry M V : R),
    VRH.msym c -> VRHBounds.posdef c -> VRHBounds.left_inverse s c -> 0 < ry -> 0 < M -> 0 < V ->
    VRHBounds.den_K s <> 0 /\ VRHBounds.den_G s <> 0 /\
    0 < VRHModel.bulk_reuss s /\ 0 < VRHModel.bulk_vrh c s /\ 0 < VRHModel.bulk_voigt c /\
    0 < VRHModel.shear_reuss s /\ 0 < VRHModel.shear_vrh c s /\ 0 < VRHModel.shear_voigt c /\
    0 < VRHModel.v_primary (OF:=ROps) ry M V c s /\ 0 < VRHModel.v_secondary (OF:=ROps) ry M V c s.
Proof. exact VRHPos.vrh_well_defined_for_posdef. Qed.
Print Assumptions averages_and_velocities_well_defined.
