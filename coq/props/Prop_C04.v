(** C04 - phonon tensor assembly: complete, request-independent, acyclic, isotropic limit. *)
From Coq Require Import Reals List Bool Arith.
From Cij Require Import Ops ROps Voigt ShearModel Shear TasksModel Tasks TasksConcrete RelabelBase Relabel.
Import ListNotations.

(** 1. acyclic: every component a shear task asks for has strictly smaller rank
       (non-shear 0 < pure shear 1 < mixed shear 2) *)
Theorem deps_rank_decreases :
  (forall k k', In k shear_keys -> In k' (keys_orig (OF:=ROps) Ris0 k) -> krank k' < krank k) /\
  (forall lam k k', In k shear_keys -> In k' (keys_rot (OF:=ROps) Ris0 lam) -> krank k' < krank k).
Proof. split; [exact keys_orig_rank_l | exact keys_rot_rank_l]. Qed.

Section Scheduler.
  Context {task V : Type}.
  Variable teq : task -> task -> bool.
  Variable deps : task -> list task.
  Variable ev : task -> (task -> option V) -> option V.
  Variable rank : task -> nat.
  Hypothesis teq_refl : forall a, teq a a = true.
  Hypothesis teq_sym : forall a b, teq a b = true -> teq b a = true.
  Hypothesis teq_trans : forall a b c, teq a b = true -> teq b c = true -> teq a c = true.
  Hypothesis deps_rank : forall t d, In d (deps t) -> rank d < rank t.

  (** 2. for every request list (any subset, order, duplicates): when the work-list loop stops,
      the task list contains every requested task and is closed under dependencies *)
  Theorem resolve_closed :
    forall fuel req tasks edges,
      resolve teq deps fuel req = ([], tasks, edges) ->
      (forall r, In r req -> Inq teq r tasks) /\
      (forall t d, In t tasks -> In d (deps t) -> Inq teq d tasks).
  Proof. intros. eapply resolve_closed_l; eassumption. Qed.

  (** ... and it does stop: after at most [weight] iterations *)
  Theorem resolve_terminates :
    forall D, (forall t, length (deps t) <= D) ->
    forall st n, weight rank D (fst (fst st)) <= n -> fst (fst (run teq deps n st)) = [].
  Proof. intros. eapply resolve_terminates_l; eassumption. Qed.

  Hypothesis ev_ext : forall t r r', (forall d, In d (deps t) -> r d = r' d) -> ev t r = ev t r'.
  Hypothesis val_teq : forall a b, teq a b = true -> val ev rank a = val ev rank b.

  (** 3. for EVERY order in which each dependency precedes its dependant, calculate assigns
      the denotational value to every task ... *)
  Theorem calculate_correct :
    forall order, admissible teq deps [] order ->
      forall t, In t order -> lookup teq (calculate teq ev order) t = val ev rank t.
  Proof. intros. eapply calculate_correct_l; eassumption. Qed.

  (** ... hence the value of a component does not depend on what else was requested, or in what order *)
  Theorem request_independent :
    forall o1 o2 t, admissible teq deps [] o1 -> admissible teq deps [] o2 -> In t o1 -> In t o2 ->
      lookup teq (calculate teq ev o1) t = lookup teq (calculate teq ev o2) t.
  Proof. intros. eapply request_independent_l; eassumption. Qed.
End Scheduler.

Local Open Scope R_scope.
(** 4. isotropic limit: with non-shear values L (longitudinal) and O (off-diagonal) in every
    frame, each shear component comes out as (L-O)/2 (c44, c55, c66) or 0 (all mixed ones) *)
Theorem isotropic_limit :
  forall (L O : R) (k : vkey) (lam : nat -> R) (T : nat -> nat -> R) (crot : vkey -> R),
    In k shear_keys ->
    (forall a b, (a < 3)%nat -> (b < 3)%nat -> recompose T lam a b = fict (OF:=ROps) k a b) ->
    (forall i j, (i < 3)%nat -> (j < 3)%nat -> gram T i j = if (i =? j)%nat then 1 else 0) ->
    (forall i j, (i < 3)%nat -> (j < 3)%nat -> crot (canon4 i i j j) = if (i =? j)%nat then L else O) ->
    solve (OF:=ROps) Ris0 k lam (c_iso L O) crot = if (fst k =? snd k)%nat then (L - O) / 2 else 0.
Proof. exact isotropic_limit_l. Qed.

Theorem strain_rot_thirds :
  forall (T : nat -> nat -> R) (i : nat), gram T i i = 1 -> strain_rot T (fun _ => / 3) i = / 3.
Proof. exact strain_rot_thirds_l. Qed.


(** 5. relabelling the crystal axes: for each of the six axis permutations pi and each shear key k,
    the solver applied to the relabelled key [pk pi k] - with the SAME eigenvalues, the SAME
    rotated-frame values (the relabelled frame T' a i = T (pi^-1 a) i gives the same rotated axial
    strains for the relabelled strain vector) and the original-frame values looked up through the
    relabelling - returns the value of the original component *)
Theorem axis_relabelling :
  forall pi k lam (c crot : vkey -> R), In pi perms3 -> In k shear_keys ->
    solve (OF:=ROps) Ris0 (pk pi k) lam (fun key => c (pk (inv3 pi) key)) crot
    = solve (OF:=ROps) Ris0 k lam c crot.
Proof. exact solve_relabel_l. Qed.

Theorem axis_relabelling_frames :
  (forall pi k, In pi perms3 -> In k all_keys -> forall i j, (i < 3)%nat -> (j < 3)%nat ->
     fict (OF:=ROps) (pk pi k) (ap pi i) (ap pi j) = fict (OF:=ROps) k i j) /\
  (forall pi (T : nat -> nat -> R) (e : nat -> R) i, In pi perms3 ->
     strain_rot (fun a j => T (ap (inv3 pi) a) j) (fun a => e (ap (inv3 pi) a)) i = strain_rot T e i) /\
  (forall pi k, In pi perms3 -> In k shear_keys ->
     In (pk pi k) shear_keys /\ mult (pk pi k) = mult k /\ pk (inv3 pi) (pk pi k) = k).
Proof. split; [exact fict_relabel_l | split; [exact strain_rot_relabel_l | exact pk_facts_l]]. Qed.

Print Assumptions deps_rank_decreases.
Print Assumptions axis_relabelling.
Print Assumptions axis_relabelling_frames.
Print Assumptions resolve_closed.
Print Assumptions resolve_terminates.
Print Assumptions calculate_correct.
Print Assumptions request_independent.
Print Assumptions isotropic_limit.
Print Assumptions strain_rot_thirds.
